#!/usr/bin/env python3
"""Run every seed of one round (/tmp/seed/C??<suffix>/<k>) against the check of its own property (development helper).
  tools/roundtest.py r5 [--props-extra C02,C07] [--only C05r5,C06r5] [--save FILE]
prints one line per seed: exit status and the rules that fired; --save writes the table as JSON (first-shot record)."""
import argparse, glob, json, os, re, subprocess, sys
from concurrent.futures import ThreadPoolExecutor
ap = argparse.ArgumentParser(); ap.add_argument('suffix'); ap.add_argument('--only'); ap.add_argument('--save'); ap.add_argument('--extra')
a = ap.parse_args()
HERE = os.path.dirname(os.path.dirname(os.path.abspath(__file__)))
dirs = sorted(d for d in glob.glob(f"/tmp/seed/C??{a.suffix}/[0-9]") if os.path.isfile(d + '/patch.diff'))
if a.only:
    keep = set(a.only.split(','))
    dirs = [d for d in dirs if os.path.basename(os.path.dirname(d)) in keep]
def run(d):
    s, k = os.path.basename(os.path.dirname(d)), os.path.basename(d)
    wt = f"/tmp/wt/rt{os.getpid()}-{s}-{k}"
    cmd = f"cd {HERE} && python3 tools/seedtest.py {d} --wt {wt}" + (f" --props {s[:3]},{a.extra}" if a.extra else '')
    r = subprocess.run(cmd, shell=True, capture_output=True, text=True)
    subprocess.run(f"git -C /repo worktree remove --force {wt}", shell=True, capture_output=True)
    try:
        res = json.loads(r.stdout[r.stdout.index('{'):])
    except Exception:
        return f"{s}-{k}", {'error': (r.stdout + r.stderr)[-300:]}
    out = {}
    for p, c in res['checks'].items():
        rules = sorted({m.group(1) for l in c['lines'] for m in [re.match(r'\[\w+\] (R-[\w-]+) \S+:\d+', l)] if m})
        ae = [l[:160] for l in c['lines'] if 'ANALYSIS-ERROR' in l]
        out[p] = dict(exit=c['exit'], rules=rules, **({'analysis_error': ae[0]} if ae else {}))
    return f"{s}-{k}", out
with ThreadPoolExecutor(8) as ex:
    table = dict(ex.map(run, dirs))
for n, o in table.items():
    print(n, json.dumps(o)[:300])
own = {n: o.get(n[:3], {}).get('exit') for n, o in table.items() if 'error' not in o}
print(f"detected by own check: {sum(1 for v in own.values() if v == 1)} / {len(own)}; analysis errors: {sum(1 for v in own.values() if v == 2)}")
if a.save:
    json.dump(table, open(a.save, 'w'), indent=1)
