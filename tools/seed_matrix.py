#!/usr/bin/env python3
"""Runs every kept seed (/verif/seeded/*) against the check of its property (and optionally all ready checks)
in a scratch worktree; writes /verif/seeded/RESULTS.json (development helper; not a registered check)."""
import json, os, subprocess, sys
from concurrent.futures import ThreadPoolExecutor
HERE = os.path.dirname(os.path.dirname(os.path.abspath(__file__)))
ready = open(os.path.join(HERE, 'tools', 'ready.txt')).read().split()
allp = '--all' in sys.argv
seeds = sorted(d for d in os.listdir(os.path.join(HERE, 'seeded')) if os.path.isdir(os.path.join(HERE, 'seeded', d)))
head = subprocess.run("git -C /repo rev-parse HEAD", shell=True, capture_output=True, text=True).stdout.strip()
def run(sd):
    meta = json.load(open(os.path.join(HERE, 'seeded', sd, 'meta.json')))
    pid = meta['property']
    wt = f"/tmp/wt/matrix-{sd}"
    sh = lambda c: subprocess.run(c, shell=True, capture_output=True, text=True)
    if not os.path.isdir(wt):
        sh(f"git -C /repo worktree add -q --detach {wt} {head}")
    sh(f"git -C {wt} checkout -q --detach {head}; git -C {wt} checkout -- .")
    r = sh(f"git -C {wt} apply {HERE}/seeded/{sd}/patch.diff")
    out = {}
    if r.returncode != 0:
        out = {'error': 'patch does not apply: ' + r.stderr[:200]}
    else:
        props = ready if allp else ([pid] if pid in ready else [])
        for p in props:
            c = sh(f"cd {HERE} && ./check {p} --root {wt} --no-evidence")
            rules = sorted({l.split()[1] for l in c.stdout.splitlines() if l.startswith(f'[{p}] R-') and ' in ' in l and not l.rstrip().endswith('--') and 'instances' not in l})
            out[p] = dict(exit=c.returncode, rules=rules)
    sh(f"git -C /repo worktree remove --force {wt}")
    return sd, pid, out
with ThreadPoolExecutor(8) as ex:
    res = list(ex.map(run, seeds))
table = {}
for sd, pid, out in res:
    own = out.get(pid, {})
    table[sd] = dict(property=pid, detected=own.get('exit') == 1, exit=own.get('exit'), rules=own.get('rules'),
                     other_checks_firing=sorted(p for p, o in out.items() if p != pid and isinstance(o, dict) and o.get('exit') == 1),
                     **({'error': out['error']} if 'error' in out else {}))
    print(sd, table[sd])
json.dump(dict(repo_head=head, results=table), open(os.path.join(HERE, 'seeded', 'RESULTS.json'), 'w'), indent=1)
