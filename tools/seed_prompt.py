#!/usr/bin/env python3
"""prints the prompt given to an independent sub-agent that seeds a property-breaking change
(development helper; the sub-agent sees only the property text and its own worktree)"""
import json, sys
pid = sys.argv[1]
n = int(sys.argv[2]) if len(sys.argv) > 2 else 3
suffix = sys.argv[3] if len(sys.argv) > 3 else ''
avoid = sys.argv[4] if len(sys.argv) > 4 else ''
p = [json.loads(l) for l in open('/verif/properties.jsonl') if json.loads(l)['id'] == pid][0]
TEXT = (f"""You are helping to evaluate a verification effort for the open-source Python hardware DSL pymtl3 (PyMTL3: elaboration, update-block scheduling, simulation passes, RTLIR type checking, Verilog/Yosys translation). You have your own scratch git worktree of the repository at /tmp/wt/{pid} (a detached checkout; work ONLY there and in /tmp/seed/{pid}; never touch /repo or /verif, and do not read anything under /verif).

Here is a semantic property of pymtl3 that is supposed to hold for every input / design / schedule:

  {pid} -- {p['title']}
  {p['statement']}
  (quantified over: {p['quantifier']['text']})
  Code that is meant to make it hold lives mainly in: {', '.join(p['anchors']['files'])}

Your task: produce {n} DIFFERENT realistic changes (bugs) to pymtl3's source, each of which BREAKS this property while the package still imports and the existing test suite still passes. Think of the kind of plausible regression a maintainer could introduce in a refactoring or "optimisation" commit (an off-by-one in a bound, a dropped mask/guard/branch, a swapped operand or order, a missing case in one of two sibling implementations, a stale cache, a wrong key, ...). Prefer changes that need something SPECIFIC to manifest (an unusual input, a particular width or parameter, a multi-step sequence of operations, a particular schedule/interleaving, or two cooperating sites that each look fine alone), not ones that ordinary use would expose at once. The {n} changes should touch different mechanisms/functions, be small (a few lines each), and must NOT edit any test file.

For each change k = 1..{n}:
 1. Start from a clean worktree (`git -C /tmp/wt/{pid} checkout -- . && git -C /tmp/wt/{pid} status --short` should show no modified tracked files).
 2. Edit the source in /tmp/wt/{pid}.
 3. Write a small demonstration program /tmp/seed/{pid}/{'{k}'}/demo.py (plain python script, exit status 0 = property holds, non-zero = property violated, printing what went wrong). It must FAIL with your change and PASS without it. Run it as: `cd /tmp/seed/{pid}/{'{k}'} && PYTHONPATH=/tmp/wt/{pid} /venv/bin/python demo.py` (the PYTHONPATH makes `import pymtl3` pick up your worktree; check `pymtl3.__file__` if in doubt). Verify both directions yourself (use `git stash` / `git stash pop` or `git diff > patch; git checkout -- .; ...; git apply patch`).
 4. Run the existing test-suite on the changed tree and make sure that no test that passes on the clean tree fails with your change: `cd /tmp/wt/{pid} && /venv/bin/python -m pytest -q -p no:cacheprovider --timeout=900 --continue-on-collection-errors -x -q 2>&1 | tail -15` is too strict (about 300 Verilator-import tests fail on the clean tree too); instead run `cd /tmp/wt/{pid} && /venv/bin/python -m pytest -q -p no:cacheprovider --timeout=900 --continue-on-collection-errors --junitxml=/tmp/seed/{pid}/{'{k}'}/junit.xml > /tmp/seed/{pid}/{'{k}'}/pytest.log 2>&1; python3 /tmp/seed/compare_baseline.py /tmp/seed/{pid}/{'{k}'}/junit.xml` which prints the baseline-passing tests that no longer pass (must be 0). A full run takes about 90 seconds; you may first run only the test files near your change to iterate faster, but the final full run is required. If a baseline test fails, change or drop the mutation.
 5. Save the change as /tmp/seed/{pid}/{'{k}'}/patch.diff (`git -C /tmp/wt/{pid} diff > /tmp/seed/{pid}/{'{k}'}/patch.diff`), and write /tmp/seed/{pid}/{'{k}'}/meta.json with keys: "property" ("{pid}"), "summary" (one sentence: what was changed), "needs" (what specific input/sequence/schedule is needed for the breakage to manifest), "files" (list of changed files), "ran" (the commands you ran and their outcome: demo with change -> fail, demo without -> pass, baseline comparison -> 0 missing).
 6. `git -C /tmp/wt/{pid} checkout -- .` to restore the worktree (also delete stray files the tests left in the worktree root is not necessary).

Important: the demo must test the PROPERTY (observable behaviour through pymtl3's public API), not the presence of a source line. Do not change test files, conftest, or packaging. Do not make changes that break the import of pymtl3 or that make most designs fail. Do not weaken/alter the demo to make it pass. If after serious effort you can only produce fewer than {n}, produce those. Finish with a short report listing, per change: file/function changed, one-line description, and confirmation of the three outcomes.""")
TEXT = TEXT.replace(f"/tmp/wt/{pid}", f"/tmp/wt/{pid}{suffix}").replace(f"/tmp/seed/{pid}", f"/tmp/seed/{pid}{suffix}")
if avoid:
    TEXT += "\n\nEarlier rounds already produced the following changes for this property; produce changes that use DIFFERENT mechanisms, functions or files (do not repeat or trivially vary these):\n" + open(avoid).read()
TEXT += "\n\nNever use `git stash` (it is shared between worktrees); use `git diff > file`, `git checkout -- .`, `git apply file`."
print(TEXT)
