#!/usr/bin/env python3
"""Applies behaviour-preserving refactoring patches (/tmp/refac/*/k.diff or /verif/refactorings/*/patch.diff) one by one in a
scratch worktree and runs every rule module against it: any VIOLATION / ANALYSIS-ERROR that the clean tree does not
have is a false alarm of the checker (development helper)."""
import glob, json, os, subprocess, sys
from concurrent.futures import ThreadPoolExecutor
HERE = os.path.dirname(os.path.dirname(os.path.abspath(__file__)))
props = sys.argv[2].split(',') if len(sys.argv) > 2 else sorted(os.path.basename(p)[:-3].upper() for p in glob.glob(HERE + '/rules/c[0-9][0-9].py'))
patches = sorted(glob.glob(sys.argv[1])) if len(sys.argv) > 1 else sorted(glob.glob(HERE + '/refactorings/*/patch.diff'))
head = subprocess.run("git -C /repo rev-parse HEAD", shell=True, capture_output=True, text=True).stdout.strip()
sh = lambda c: subprocess.run(c, shell=True, capture_output=True, text=True)
base = {}
for p in props:
    base[p] = sh(f"cd {HERE} && ./check {p} --no-evidence").returncode
print('clean tree:', base)
def run(pt):
    tag = pt.replace('/', '_').replace('.', '_')
    wt = f"/tmp/wt/rfp{os.getpid()}-{tag}"      # unique per invocation: concurrent runs (sub-agents) must not share worktrees
    if not os.path.isdir(wt):
        sh(f"git -C /repo worktree add -q --detach {wt} {head}")
    sh(f"git -C {wt} checkout -q --detach {head}; git -C {wt} checkout -- .")
    r = sh(f"git -C {wt} apply {pt}")
    out = {}
    if r.returncode != 0:
        out = {'error': 'does not apply ' + r.stderr[:100]}
    else:
        for p in props:
            c = sh(f"cd {HERE} && ./check {p} --root {wt} --no-evidence")
            if c.returncode != base[p]:
                lines = [l[:260] for l in c.stdout.splitlines() if ('VIOLATION' in l or 'ANALYSIS-ERROR' in l or (' in ' in l and l.startswith(f'[{p}] R-') and 'instances' not in l))]
                out[p] = dict(exit=c.returncode, lines=lines[:4])
    sh(f"git -C /repo worktree remove --force {wt}")
    return pt, out
with ThreadPoolExecutor(8) as ex:
    for pt, out in ex.map(run, patches):
        print(pt, 'OK (silent)' if not out else json.dumps(out, indent=1))
