#!/usr/bin/env python3
"""copy a confirmed seeded change from /tmp/seed/<pid>/<k> into /verif/seeded/<pid>-<k>/ (development helper)"""
import json, os, shutil, sys
for arg in sys.argv[1:]:
    pid, k = arg.split('-')          # pid may carry a round suffix: C02r2-1
    src = f"/tmp/seed/{pid}/{k}"
    res = json.load(open(f"/tmp/seedres/{pid}-{k}.json"))
    if 'r' in pid[1:]:
        base, rnd = pid[:3], pid[3:]
        arg_dst = f"{base}-{rnd}-{k}"
    else:
        arg_dst = arg
    assert res['demo_clean_exit'] == 0 and res['demo_patched_exit'] != 0 and res['baseline_ok'], res
    dst = f"/verif/seeded/{arg_dst}"
    os.makedirs(dst, exist_ok=True)
    for f in os.listdir(src):
        if f in ('patch.diff', 'patch.orig.diff') or f.endswith(('.py', '.v', '.sv')):
            shutil.copy(os.path.join(src, f), dst)
    meta = json.load(open(os.path.join(src, 'meta.json')))
    meta['id'] = arg_dst
    meta['origin'] = "independent sub-agent given only the property text and a scratch worktree (nothing from /verif)"
    meta['confirmed_by_framework_author'] = dict(
        how="tools/seedtest.py --confirm in a scratch worktree of /repo HEAD: demo.py on the clean tree, demo.py with patch.diff applied, "
            "full baseline pytest command with the patch applied compared against BASELINE.json stable_pass",
        demo_clean_exit=res['demo_clean_exit'], demo_patched_exit=res['demo_patched_exit'], baseline=res['baseline'])
    json.dump(meta, open(os.path.join(dst, 'meta.json'), 'w'), indent=1)
    print('kept', dst)
