#!/usr/bin/env python3
"""Regenerates the generated part of DESIGN.md (between the GENERATED markers) from the evidence files, seeded/RESULTS.json,
refactorings/ and known_findings.json (development helper)."""
import glob, json, os, re
HERE = os.path.dirname(os.path.dirname(os.path.abspath(__file__)))
out = []
out.append("### 9.3 Rules as built (from the evidence files of the last clean-tree run)\n")
out.append("| prop | rule | instances | clause decided |\n|---|---|---|---|")
for f in sorted(glob.glob(HERE + '/evidence/C*.json')):
    ev = json.load(open(f))
    for r in ev['coverage'].get('rules', []):
        out.append(f"| {ev['property_id']} | {r['rule']} | {r['instances']} | {r['clause'].replace('|', '/')[:230]} |")
out.append("\n### 9.3b Dependency rules (generated: rules a property runs that are owned by another property, see 9.7)\n")
out.append("| property | rules run by dependency |\n|---|---|")
OWN = {'C01': ('R-C01',), 'C02': ('R-C02', 'R-overlap', 'R-kahn'), 'C03': ('R-tr', 'R-layout'), 'C12': ('R-tr', 'R-layout', 'R-C12'),
       'C05': ('R-C05', 'R-intlog'), 'C07': ('R-C07', 'R-tick-order'), 'C10': ('R-C10', 'R-intlog'), 'C16': ('R-C16', 'R-tick-order', 'R-gen')}
for f in sorted(glob.glob(HERE + '/evidence/C*.json')):
    ev = json.load(open(f))
    pid = ev['property_id']
    own = OWN.get(pid, ('R-' + pid,))
    dep = sorted({r['rule'] for r in ev['coverage'].get('rules', []) if not r['rule'].startswith(own)})
    if dep:
        out.append(f"| {pid} | {', '.join(dep)} |")
out.append("\n### 9.4 Seeded changes and which rule catches them\n")
out.append("Each change was written by an independent sub-agent that saw only the property text and a scratch worktree, confirmed by the "
           "framework author (demo fails with / passes without the change; the full baseline suite still passes with it) and is kept under "
           "`/verif/seeded/<id>/`. `tools/seed_matrix.py` applies each one in a scratch worktree and runs the property's check with `--root`.\n")
res = json.load(open(HERE + '/seeded/RESULTS.json'))['results']
out.append("| seed | what was changed | needs | detected by |\n|---|---|---|---|")
for sd in sorted(res):
    m = json.load(open(f"{HERE}/seeded/{sd}/meta.json"))
    v = res[sd]
    det = ', '.join(v['rules']) if v.get('detected') else ('**missed**' if not v.get('error') else 'patch no longer applies')
    out.append(f"| {sd} | {m.get('summary','').replace('|','/')[:260]} | {str(m.get('needs','')).replace('|','/')[:200]} | {det} |")
n = sum(1 for v in res.values() if v.get('detected'))
out.append(f"\nDetected: {n} of {len(res)}.\n")
out.append("### 9.5 Defects found in pymtl3\n")
kf = json.load(open(HERE + '/known_findings.json'))
out.append("Repaired in `/repo` (one unguarded `fix:` commit each; the unedited baseline suite passes after every one; the re-introduction of each is "
           "a mutant of the self-test of the rule that found it):\n")
for l in kf['fixed']:
    out.append("* " + l[len('fixed: '):])
out.append("\nKnown findings (genuine, not repaired; listed in `known_findings.json` by rule + construct; the check prints `KNOWN-FINDING` and exits 0):\n")
for f_ in kf['findings']:
    out.append(f"* **{f_.get('id','')}** ({f_['property']}) {f_['what']}")
out.append("\n### 9.6 False-alarm corpus\n")
n_rf = len(glob.glob(HERE + '/refactorings/*/patch.diff'))
out.append(f"`/verif/refactorings/` holds {n_rf} behaviour-preserving refactorings written by independent sub-agents (see its README). "
           "`tools/refactest.py` applies each in a scratch worktree and runs every rule module: all must stay silent.\n")
text = '\n'.join(out)
p = HERE + '/DESIGN.md'
s = open(p).read()
B, E = '<!-- GENERATED BEGIN -->', '<!-- GENERATED END -->'
if B not in s:
    s += f"\n\n{B}\n{E}\n"
s = s[:s.index(B) + len(B)] + '\n' + text + '\n' + s[s.index(E):]
open(p, 'w').write(s)
print('DESIGN.md generated part:', len(text.splitlines()), 'lines')
