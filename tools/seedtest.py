#!/usr/bin/env python3
"""Confirm a seeded change and run the checks against it (development helper).

  tools/seedtest.py <seed_dir> [--confirm] [--wt /tmp/wt/X] [--props C05,C04]

seed_dir contains patch.diff, demo.py, meta.json.  Without touching /repo: the patch is applied in a
scratch worktree and the checks are pointed at it with --root.
--confirm additionally runs demo (must fail with / pass without the patch) and the full test-suite
with the patch (no baseline-passing test may fail).
"""
import argparse, json, os, subprocess, sys
ap = argparse.ArgumentParser()
ap.add_argument('seed'); ap.add_argument('--confirm', action='store_true'); ap.add_argument('--wt')
ap.add_argument('--props'); ap.add_argument('--tier', default='quick')
a = ap.parse_args()
seed = os.path.abspath(a.seed)
meta = json.load(open(os.path.join(seed, 'meta.json')))
pid = meta['property']
wt = a.wt or f"/tmp/wt/{pid}"
def sh(cmd, **kw):
    return subprocess.run(cmd, shell=True, capture_output=True, text=True, **kw)
if not os.path.isdir(wt):
    r = sh(f"git -C /repo worktree add -q --detach {wt} HEAD"); assert r.returncode == 0, r.stderr
sh(f"git -C {wt} checkout -- .")
head = sh("git -C /repo rev-parse HEAD").stdout.strip()
sh(f"git -C {wt} checkout -q --detach {head}")
res = {'seed': seed, 'property': pid}
env = dict(os.environ, PYTHONPATH=wt)
if a.confirm:
    r = sh(f"cd {seed} && /venv/bin/python demo.py", env=env); res['demo_clean_exit'] = r.returncode
r = sh(f"git -C {wt} apply {seed}/patch.diff")
if r.returncode != 0:
    print('PATCH DOES NOT APPLY', r.stderr); sys.exit(3)
try:
    if a.confirm:
        r = sh(f"cd {seed} && /venv/bin/python demo.py", env=env); res['demo_patched_exit'] = r.returncode
        r = sh(f"cd {wt} && /venv/bin/python -m pytest -q -p no:cacheprovider --timeout=900 --continue-on-collection-errors --junitxml={seed}/junit_confirm.xml > {seed}/pytest_confirm.log 2>&1; python3 /verif/tools/compare_baseline.py {seed}/junit_confirm.xml")
        res['baseline'] = r.stdout.strip().splitlines()[0] if r.stdout else r.stderr
        res['baseline_ok'] = r.returncode == 0
    props = a.props.split(',') if a.props else [pid]
    res['checks'] = {}
    for p in props:
        r = sh(f"cd /verif && ./check {p} --tier {a.tier} --root {wt} --no-evidence")
        v = [l for l in r.stdout.splitlines() if 'VIOLATION' in l or 'ANALYSIS-ERROR' in l or (l.startswith(f'[{p}] R-') and ' in ' in l and ':' in l)]
        res['checks'][p] = dict(exit=r.returncode, lines=v[:6])
finally:
    sh(f"git -C {wt} checkout -- .")
print(json.dumps(res, indent=1))
