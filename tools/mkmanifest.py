#!/usr/bin/env python3
"""Regenerates /verif/MANIFEST.json from the rule modules (development helper)."""
import importlib, json, os, sys
HERE = os.path.dirname(os.path.dirname(os.path.abspath(__file__)))
sys.path.insert(0, HERE)
sys.dont_write_bytecode = True

NA = {
 'C20': "agreement of three processor models with an independent ISA interpreter over all programs and timing "
        "configurations is a statement about executions of ~2.5k lines of design code; no clause of it is visible in "
        "code shape (static analysis does not apply; see DESIGN.md section 6)",
}
PENDING = "check not built yet (build in progress)"
READY = open(os.path.join(HERE, "tools", "ready.txt")).read().split()

checks, na = [], []
for i in range(1, 21):
    pid = f"C{i:02d}"
    try:
        if pid not in READY:
            raise ModuleNotFoundError
        mod = importlib.import_module(f"rules.{pid.lower()}")
    except ModuleNotFoundError:
        na.append(dict(property_id=pid, reason=NA.get(pid, PENDING)))
        continue
    checks.append(dict(
        property_id=pid,
        quick_cmd=f"./check {pid} --tier quick",
        thorough_cmd=f"./check {pid} --tier thorough",
        evidence_file=f"/verif/evidence/{pid}.json",
        replay_cmd_template=f"./check {pid} --replay {{path}}",
        engine="sa",
        level_claimed=dict(category="other", text=mod.LEVEL_TEXT, design_ref=f"DESIGN.md section 4, {pid}"),
        level_note=mod.LEVEL_NOTE,
        technique=mod.TECHNIQUE,
    ))
fixes = []
kf = json.load(open(os.path.join(HERE, 'known_findings.json'))) if os.path.exists(os.path.join(HERE, 'known_findings.json')) else {}
m = dict(
 version=1,
 setup_cmd="true",
 hooks=dict(
  guard="PYMTL3_VERIF",
  enable="no hooks are needed: every check parses /repo's working tree with the standard library ast module and never imports or runs pymtl3; the only commits made to /repo are unguarded 'fix:' commits (see known_findings.json)",
  baseline_off_cmd="cd /repo && /venv/bin/python -m pytest -ra -q -p no:cacheprovider --timeout=900 --continue-on-collection-errors",
  source_commits=[],
  add_only=True),
 engines=[dict(name="sa", path="/verif/sa", serves_properties=[c['property_id'] for c in checks],
               kind_free_text="repository-specific static analysis over Python ast: module/class/MRO resolver, structural dominance (guards), finite abstract domains (range/mask, order types, Boolean), table and sibling agreement; stdlib only")],
 checks=checks,
 notes="Static analysis only (DESIGN.md). `./check Cxx --tier quick|thorough`; exit 0 held / 1 VIOLATION / 2 ANALYSIS-ERROR. "
       "Thorough = quick + mutation self-test of the checker on in-memory variants of the analysed sources.",
 not_applicable=na)
json.dump(m, open(os.path.join(HERE, 'MANIFEST.json'), 'w'), indent=1)
print('checks:', [c['property_id'] for c in checks], 'n/a:', [x['property_id'] for x in na])
