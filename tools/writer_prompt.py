#!/usr/bin/env python3
import sys
pid = sys.argv[1]
extra = sys.argv[2] if len(sys.argv) > 2 else ''
print(f"""You are implementing the static-analysis checker for property {pid} of pymtl3 inside an existing verification framework in /verif. First read /verif/tools/RULE_WRITER_GUIDE.md completely and follow it exactly; it tells you what else to read (the property record for {pid} in /verif/properties.jsonl, /verif/DESIGN.md sections 1-3 and the {pid} part of section 4, the engine under /verif/sa, the example module /verif/rules/c04.py, and the anchored sources under /repo).

Deliverable: /verif/rules/{pid.lower()}.py implementing the rules planned for {pid} in DESIGN.md (as many of them as can be made sound and robust; quality and semantic breadth over quantity), with floors, MUTANTS (all killed), EQUIV (all silent) and the MANIFEST metadata strings, such that `cd /verif && ./check {pid} --no-evidence` exits 0 on the current tree and `./check {pid} --tier thorough --no-evidence` exits 0 as well.

{extra}

Remember: static analysis only (never import/run pymtl3 inside the check), no frozen-text or line-number matching, no vacuous passes, do not edit /repo or any existing file of /verif other than your own module, do not commit. Finish with the final report described in the guide.""")
