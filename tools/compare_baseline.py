#!/usr/bin/env python3
"""compare a junit xml against BASELINE.json stable_pass (development helper, not a check)"""
import json, sys, xml.etree.ElementTree as ET
base = set(json.load(open('/root/.vp/BASELINE.json'))['stable_pass'])
t = ET.parse(sys.argv[1]).getroot()
passed = set()
for tc in t.iter('testcase'):
    ok = not any(ch.tag in ('failure', 'error', 'skipped') for ch in tc)
    name = tc.get('classname') + '::' + tc.get('name')
    if ok: passed.add(name)
missing = sorted(base - passed)
print('stable_pass', len(base), 'passed now', len(passed), 'stable tests not passing:', len(missing))
for m in missing[:40]: print('  ', m)
sys.exit(1 if missing else 0)
