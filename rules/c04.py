"""C04 -- Bits arithmetic is exact unsigned arithmetic modulo 2^n.  (DESIGN.md section 4, C04)"""
import ast

from sa.astutil import (inline_locals, norm, guards_of, reaching_value, walk_no_nested, always_exits, parent,
                        enclosing, stmt_of, preceding_stmts)
from sa.bitsdom import BitsDom, Cannot, width_term, mask_width, self_name
from sa.errors import AnalysisError
from sa.minieval import Evaluator
from sa.report import RuleResult

PID = 'C04'
BITS = 'pymtl3/datatypes/PythonBits.py'
IMPORT = 'pymtl3/datatypes/bits_import.py'

EXPLANATION = (
    "Static analysis of pymtl3/datatypes/PythonBits.py (ast; nothing is imported or run). "
    "R-C04-range proves by induction over ALL writers of _uint/_next (every assignment and every "
    "_new_valid_bits call site) that the stored value is in [0,2^n) for every width and operand, using a "
    "mask/range abstract domain; R-C04-guard shows that every operator's Bits path is dominated by the "
    "width-equality guard and every int path by a guard whose raising region is exactly other<0 or other>2^n-1 "
    "(compared semantically over all order types), and ctor/@=/<<= accept exactly [-2^(n-1), 2^n-1]; "
    "R-C04-optable checks that each dunder applies the operator it is named after with the right operand order "
    "and result width; R-C04-tables constant-folds the _upper/_lower tables against 2^i-1 / -2^(i-1); "
    "R-C04-exhaustive checks the operator set, the BitsN template and the who-may-write rule for _uint. "
    "Decides: value range, guard regions, operator identity. Trusted: Python int arithmetic.")
ASSUMPTIONS = [
    "Python int arithmetic and the transfer rules of the range domain (a&mask(n) in [0,2^n); a&b<=a for a>=0; "
    "|,^ of in-range values in range; >>,//,% by non-negative values do not grow a non-negative value)",
    "to_bits() of an operand with .nbits == n returns a value whose _uint is in [0,2^n) (C06 for bitstructs)",
    "operands are Bits/bitstruct objects or ints (objects with nbits but no _uint are out of scope)",
    "the Mamba/RPython Bits implementation is out of scope (not in this repository)",
]

FORWARD = {   # dunder -> (ast operator class, is comparison)
    '__add__': (ast.Add, False), '__sub__': (ast.Sub, False), '__mul__': (ast.Mult, False),
    '__and__': (ast.BitAnd, False), '__or__': (ast.BitOr, False), '__xor__': (ast.BitXor, False),
    '__floordiv__': (ast.FloorDiv, False), '__mod__': (ast.Mod, False),
    '__lshift__': (ast.LShift, False), '__rshift__': (ast.RShift, False),
    '__eq__': (ast.Eq, True), '__ne__': (ast.NotEq, True), '__lt__': (ast.Lt, True), '__le__': (ast.LtE, True),
    '__gt__': (ast.Gt, True), '__ge__': (ast.GtE, True),
}
REFLECTED = {'__radd__': '__add__', '__rsub__': '__sub__', '__rmul__': '__mul__', '__rand__': '__and__',
             '__ror__': '__or__', '__rxor__': '__xor__', '__rfloordiv__': '__floordiv__', '__rmod__': '__mod__'}
COMMUTATIVE = {'__add__', '__mul__', '__and__', '__or__', '__xor__'}
SHIFTS = {'__lshift__', '__rshift__'}


def _bits(repo):
    m = repo.mod(BITS)
    return m, m.get_class('Bits'), m.methods('Bits')


def _nvb_calls(func):
    return [n for n in walk_no_nested(func) if isinstance(n, ast.Call) and norm(n.func) == '_new_valid_bits']


def _field_writes(func):
    out = []
    for n in walk_no_nested(func):
        if isinstance(n, ast.Assign):
            for t in n.targets:
                if isinstance(t, ast.Attribute) and t.attr in ('_uint', '_next'):
                    out.append((t, n.value, n))
        elif isinstance(n, ast.AugAssign) and isinstance(n.target, ast.Attribute) and n.target.attr in ('_uint', '_next'):
            out.append((n.target, None, n))
    # `x._uint = A` immediately followed by `x._uint op= B` is one read-modify-write `x._uint = A op B` (judged as such);
    # any other augmented store keeps value None (not modelled: the rules report / refuse it)
    merged = []
    out.sort(key=lambda e: (e[2].lineno, e[2].col_offset))
    for tgt, val, st in out:
        if val is None and merged:
            ptgt, pval, pst = merged[-1]
            blk = getattr(st, '_parent', None)
            sibs = None
            for fld in ('body', 'orelse', 'finalbody'):
                L = getattr(blk, fld, None)
                if isinstance(L, list) and st in L:
                    sibs = L
            if pval is not None and norm(ptgt) == norm(tgt) and sibs is not None and pst in sibs and sibs.index(pst) + 1 == sibs.index(st):
                comb = ast.BinOp(left=pval, op=st.op, right=st.value)
                merged[-1] = (tgt, comb, st)
                continue
        merged.append((tgt, val, st))
    return merged


# ---------------------------------------------------------------------------
def rule_range(repo):
    r = RuleResult('R-C04-range', "stored value always lies in [0,2^n): every writer of _uint/_next is masked/bounded")
    m, cls, meths = _bits(repo)
    for name, f in sorted(meths.items()):
        dom = BitsDom(f)
        me = self_name(f)
        for call in _nvb_calls(f):
            if len(call.args) != 2:
                raise AnalysisError(f"_new_valid_bits call with {len(call.args)} args in Bits.{name}")
            W = width_term(call.args[0], call, f)
            cons = f"_new_valid_bits({norm(call.args[0])}, {norm(call.args[1])})"
            if W is None:
                r.bad(m, f"Bits.{name}", cons, f"cannot resolve the width argument {norm(call.args[0])}", call.lineno)
                continue
            try:
                dom.in_range(call.args[1], W, call)
                r.ok(m, f"Bits.{name}", cons)
            except Cannot as c:
                if not c.definite:
                    raise AnalysisError(f"R-C04-range: {c.why} in Bits.{name}")
                r.bad(m, f"Bits.{name}", cons, f"value not provably in [0,2^{W}): {c.why}", call.lineno)
        for tgt, val, st in _field_writes(f):
            cons = norm(st)
            if not (isinstance(tgt.value, ast.Name) and tgt.value.id == me):
                r.bad(m, f"Bits.{name}", cons, f"write to {norm(tgt)} of another object bypasses its range check", st.lineno)
                continue
            if val is None:
                r.bad(m, f"Bits.{name}", cons, "augmented assignment to the stored value is not masked", st.lineno)
                continue
            try:
                dom.in_range(val, 'N', st)
                r.ok(m, f"Bits.{name}", cons)
            except Cannot as c:
                if not c.definite:
                    raise AnalysisError(f"R-C04-range: {c.why} in Bits.{name}")
                r.bad(m, f"Bits.{name}", cons, f"value not provably in [0,2^n): {c.why}", st.lineno)
        r.evaluations += dom.evals
    # the trusted constructor itself
    nvb = m.functions.get('_new_valid_bits')
    if nvb is None:
        raise AnalysisError("anchor vanished: _new_valid_bits")
    body = [norm(s) for s in nvb.body]
    a = [x.arg for x in nvb.args.args]
    if len(a) == 2 and f"ret._nbits = {a[0]}" in body and f"ret._uint = {a[1]}" in body:
        r.ok(m, '_new_valid_bits', 'stores (nbits, uint) unchanged')
    else:
        r.bad(m, '_new_valid_bits', '; '.join(body), "does not store its two arguments as (_nbits, _uint)", nvb.lineno)
    r.require_floor(50)
    return r


# ---------------------------------------------------------------------------
def _int_region(f, ret_stmt, name, allow_lo):
    """Evaluate the accepting region of the plain-int operand `name` at statement `ret_stmt` from its
    dominating guards, over all order types of {name, lo, 0, up}.  Returns set of accepted v for up=U."""
    gs = [g for g in guards_of(ret_stmt) if g.kind in ('exit', 'if', 'assert') and name in
          {n.id for n in ast.walk(g.test) if isinstance(n, ast.Name)}]
    return gs


class WrongWidth(Exception):
    """a bound table is indexed with something that is not the target width"""


def _table_ref(e, at):
    """(table name, index expr) if e denotes _upper[..]/_lower[..] directly or through a local alias"""
    if isinstance(e, ast.Subscript) and isinstance(e.value, ast.Name) and e.value.id in ('_upper', '_lower'):
        return e.value.id, e.slice
    if isinstance(e, ast.Name):
        rv = reaching_value(e.id, at)
        if rv is not None and isinstance(rv, ast.Subscript) and isinstance(rv.value, ast.Name) and rv.value.id in ('_upper', '_lower'):
            return rv.value.id, rv.slice
    return None


def _eval_region(f, guards, name, at, U, n_evals, want_width=None):
    """set of integer values v of `name` accepted by all guards, with mask leaves -> U and lower leaves -> -(U+1)//2"""
    LO = -((U + 1) // 2)

    def leaf(e):
        tr = _table_ref(e, at) if not isinstance(e, ast.Constant) else None
        if tr is not None:
            w = width_term(tr[1], at, f)
            if w is None or (want_width is not None and w != want_width):
                raise WrongWidth(f"{tr[0]}[{norm(tr[1])}]")
        mw = mask_width(e, at, f) if not isinstance(e, ast.Constant) else None
        if mw == 'N' or (mw is not None and mw.startswith('S:')):
            return U
        if isinstance(e, ast.Subscript) and isinstance(e.value, ast.Name) and e.value.id == '_lower':
            return LO
        if not isinstance(e, ast.Constant) and width_term(e, at, f) in ('N',) or \
                (not isinstance(e, ast.Constant) and (width_term(e, at, f) or '').startswith('S:')):
            return U.bit_length()
        if isinstance(e, ast.Name) and e.id != name:
            rv = reaching_value(e.id, at)
            if rv is not None and isinstance(rv, ast.Subscript) and isinstance(rv.value, ast.Name) and rv.value.id == '_lower':
                return LO
        return NotImplemented
    acc = set()
    for v in range(LO - 2, U + 3):
        ok = True
        for g in guards:
            ev = Evaluator({name: v}, arith=True, leaf=leaf, funcs={'abs': abs})
            n_evals[0] += 1
            if bool(ev.ev(g.test)) != g.polarity:
                ok = False
                break
        if ok:
            acc.add(v)
    return acc


def rule_guard(repo):
    r = RuleResult('R-C04-guard', "mismatched widths / non-fitting ints raise instead of being truncated; "
                                  "ctor, @=, <<= accept exactly [-2^(n-1), 2^n-1]")
    m, cls, meths = _bits(repo)
    nev = [0]

    def raises_value_error(g):
        blk = g.exit_block
        rs = [n for s in blk for n in walk_no_nested(s) if isinstance(n, ast.Raise)]
        return bool(rs) and all(isinstance(x.exc, ast.Call) and norm(x.exc.func) == 'ValueError' for x in rs)

    def check_int_path(fname, f, ret, name, signed_ok):
        gs = [g for g in guards_of(ret) if g.kind in ('exit', 'assert', 'if') and
              any(isinstance(n, ast.Name) and n.id == name for n in ast.walk(g.test))
              and not any(isinstance(n, ast.Call) and norm(n.func) == 'isinstance' for n in ast.walk(g.test))]
        # an early-exit `if amount >= nbits: return 0` (shift) is not a range guard: keep only guards that raise
        gs = [g for g in gs if g.kind == 'assert' or (g.kind == 'exit' and exit_raises(g))]
        cons = f"int operand `{name}` before {norm(ret)[:60]}"
        if not gs:
            r.bad(m, f"Bits.{fname}", cons, f"no range guard on integer operand {name} dominates this result", ret.lineno)
            return
        for U in (1, 3, 7):
            try:
                acc = _eval_region(f, gs, name, ret, U, nev)
            except WrongWidth as ww:
                r.bad(m, f"Bits.{fname}", cons, f"the range check of {name} uses {ww}, which is not the bound for the target width: values that "
                      f"do not fit are silently truncated (or fitting ones rejected)", ret.lineno)
                return
            LO = -((U + 1) // 2)
            want = set(range(LO if signed_ok else 0, U + 1))
            if acc != want:
                extra, missing = sorted(acc - want), sorted(want - acc)
                r.bad(m, f"Bits.{fname}", cons,
                      f"accepted region of {name} is wrong for a {U.bit_length()}-bit value: "
                      f"wrongly accepted {extra}, wrongly rejected {missing} "
                      f"(expected {'-2^(n-1)' if signed_ok else '0'} <= {name} <= 2^n-1)", ret.lineno)
                return
        if not all(raises_value_error(g) for g in gs if g.kind == 'exit'):
            r.bad(m, f"Bits.{fname}", cons, "the rejecting branch does not raise ValueError", ret.lineno)
            return
        r.ok(m, f"Bits.{fname}", cons)

    def exit_raises(g):
        blk = g.exit_block
        return any(isinstance(n, ast.Raise) for s in blk for n in walk_no_nested(s))

    def check_bits_path(fname, f, site, opname, required=True):
        """site (a return / assignment on the Bits-operand path) must be dominated by <op>.nbits == own width"""
        dom = BitsDom(f)
        w = dom.operand_width(opname, site)
        cons = f"Bits operand `{opname}` before {norm(site)[:60]}"
        if w == 'N':
            g = [g for g in guards_of(site) if g.kind == 'exit' and opname in norm(g.test) and 'nbits' in norm(g.test)]
            if g and not all(raises_value_error(x) for x in g):
                r.bad(m, f"Bits.{fname}", cons, "width-mismatch branch does not raise ValueError", site.lineno)
            else:
                r.ok(m, f"Bits.{fname}", cons)
        elif required:
            r.bad(m, f"Bits.{fname}", cons,
                  f"no dominating guard `{opname}.nbits != nbits -> raise` : operands of different width are "
                  f"silently combined", site.lineno)
        else:
            r.ok(m, f"Bits.{fname}", cons, nontrivial=False, note="shift amount of another width accepted (documented)")

    for fname in list(FORWARD) + ['__rsub__', '__rfloordiv__', '__rmod__']:
        f = meths.get(fname)
        if f is None:
            continue   # presence is R-C04-exhaustive's business
        other = f.args.args[1].arg if len(f.args.args) > 1 else None
        if other is None:
            raise AnalysisError(f"Bits.{fname} has no operand parameter")
        rets = [n for n in walk_no_nested(f) if isinstance(n, ast.Return) and n.value is not None]
        for ret in rets:
            h = enclosing(ret, (ast.ExceptHandler,))
            in_try = enclosing(ret, (ast.Try,))
            if h is not None and h.type is None:
                # `except:` around int(other): operand is not a number at all -> constant truth value
                want = {'__eq__': 0, '__ne__': 1}.get(fname)
                v = ret.value
                if want is not None and isinstance(v, ast.Call) and norm(v.func) == '_new_valid_bits' \
                        and norm(v.args[0]) == '1' and isinstance(v.args[1], ast.Constant) and int(v.args[1].value) == want:
                    r.ok(m, f"Bits.{fname}", f"non-numeric operand -> constant {want}", nontrivial=False)
                else:
                    r.bad(m, f"Bits.{fname}", norm(ret), "return under a bare except is not the constant truth value "
                          "for a non-comparable operand", ret.lineno)
                continue
            on_bits_path = (h is None and in_try is not None and
                            any(hh.type is not None and 'AttributeError' in norm(hh.type) for hh in in_try.handlers))
            if on_bits_path:
                check_bits_path(fname, f, ret, other, required=fname not in SHIFTS)
            else:
                check_int_path(fname, f, ret, other, signed_ok=False)
    # constructor / @= / <<= / slice assignment of ints are C05's;  here: ctor, imatmul, ilshift
    for fname, field in (('__init__', '_uint'), ('__imatmul__', '_uint'), ('__ilshift__', '_next')):
        f = meths.get(fname)
        if f is None:
            raise AnalysisError(f"anchor vanished: Bits.{fname}")
        vname = f.args.args[2].arg if fname == '__init__' else f.args.args[1].arg
        writes = [(t, v, st) for t, v, st in _field_writes(f) if t.attr == field]
        if len(writes) < 2:
            deleg = [c for c in walk_no_nested(f) if isinstance(c, ast.Call) and norm(c.func) in ('Bits.__init__', f'{self_name(f)}.__init__', 'super().__init__')]
            if fname != '__init__' and deleg:
                # the int path re-uses the constructor's check-and-store (judged under __init__)
                r.ok(m, f"Bits.{fname}", f"int path delegates to {norm(deleg[0])[:50]}", nontrivial=False)
                for t, v, st in writes:
                    if any(isinstance(n, ast.Attribute) and n.attr in ('_uint', 'to_bits') for n in ast.walk(v)):
                        check_bits_path(fname, f, st, vname, required=True)
                continue
            raise AnalysisError(f"Bits.{fname}: expected a Bits-operand and an int-operand store to {field}")
        for t, v, st in writes:
            reads_obj = any(isinstance(n, ast.Attribute) and n.attr in ('_uint', 'to_bits') for n in ast.walk(v))
            if reads_obj:
                check_bits_path(fname, f, st, vname, required=True)
            else:
                # int path: signed range accepted unless trunc_int
                gs = guards_of(st)
                if fname == '__init__':
                    # the range test sits under `if not trunc_int:` as an earlier sibling -- find it
                    rng = [s for s in ast.walk(f) if isinstance(s, ast.If) and always_exits(s.body) and
                           any(isinstance(n, ast.Name) and n.id == vname for n in ast.walk(s.test)) and
                           any(isinstance(n, ast.Raise) for b in s.body for n in ast.walk(b))
                           and not any(isinstance(n, ast.Attribute) for n in ast.walk(s.test))]
                    cons = f"int operand `{vname}` before {norm(st)}"
                    if not rng:
                        r.bad(m, "Bits.__init__", cons, "constructor has no range check for integer values", st.lineno)
                        continue
                    g0 = rng[0]
                    # a rejected value must not have been stored already: the check precedes the store
                    if not any(x is g0 for s_ in preceding_stmts(st) for x in ast.walk(s_)):
                        r.bad(m, "Bits.__init__", cons, "the value is stored BEFORE the range check that may reject it: a failing construction / "
                              "delegated assignment raises ValueError but has already overwritten the stored value", st.lineno)
                        continue
                    outer = [g for g in guards_of(g0) if g.kind == 'if' and 'trunc_int' in norm(g.test)]
                    if not outer or not (norm(outer[0].test).endswith('trunc_int') and outer[0].polarity is False):
                        r.bad(m, "Bits.__init__", cons, "range check is not controlled by `not trunc_int`", g0.lineno)
                        continue
                    from sa.astutil import Guard
                    bad = False
                    for U in (1, 3, 7):
                        acc = _eval_region(f, [Guard(g0.test, False, 'exit', g0)], vname, g0, U, nev)
                        LO = -((U + 1) // 2)
                        if acc != set(range(LO, U + 1)):
                            r.bad(m, "Bits.__init__", cons,
                                  f"constructor accepts {sorted(acc)} for a {U.bit_length()}-bit value, expected "
                                  f"exactly {LO}..{U}", g0.lineno)
                            bad = True
                            break
                    if not bad:
                        r.ok(m, "Bits.__init__", cons)
                else:
                    check_int_path(fname, f, st, vname, signed_ok=True)
    r.evaluations = nev[0]
    r.require_floor(40)
    return r


# ---------------------------------------------------------------------------
def _strip_mask(e, at, f):
    """(X) & mask -> X ; X % (1<<n) -> X"""
    if isinstance(e, ast.BinOp) and isinstance(e.op, ast.BitAnd):
        if mask_width(e.right, at, f) is not None and not _is_val(e.right):
            return e.left
        if mask_width(e.left, at, f) is not None and not _is_val(e.left):
            return e.right
    if isinstance(e, ast.BinOp) and isinstance(e.op, ast.Mod) and isinstance(e.right, ast.BinOp) \
            and isinstance(e.right.op, ast.LShift) and norm(e.right.left) == '1' \
            and width_term(e.right.right, at, f) is not None:
        return e.left
    return e


def _is_val(e):
    return isinstance(e, ast.Attribute) and e.attr == '_uint'


def rule_optable(repo):
    r = RuleResult('R-C04-optable', "each operator method applies the operator it is named after, with the right "
                                    "operand order and result width")
    m, cls, meths = _bits(repo)

    def resolve_operand(e, at, other):
        """'self' / 'other' / None for a value operand expression"""
        if isinstance(e, ast.Call) and norm(e.func) == 'int' and len(e.args) == 1:
            e = e.args[0]
        if isinstance(e, ast.Attribute) and e.attr == '_uint' and isinstance(e.value, ast.Name):
            return 'self' if e.value.id != other else 'other'
        if isinstance(e, ast.Name):
            if e.id == other:
                return 'other'
            rv = reaching_value(e.id, at)
            if rv is not None:
                return resolve_operand(rv, at, other)
        return None

    def check(fname, f, opcls, is_cmp, swapped):
        other = f.args.args[1].arg
        for ret in [n for n in walk_no_nested(f) if isinstance(n, ast.Return) and n.value is not None]:
            v = ret.value
            cons = norm(ret)
            if not (isinstance(v, ast.Call) and norm(v.func) == '_new_valid_bits' and len(v.args) == 2):
                r.bad(m, f"Bits.{fname}", cons, "operator does not return a freshly built Bits value", ret.lineno)
                continue
            W = width_term(v.args[0], ret, f)
            if W != ('1' if is_cmp else 'N'):
                r.bad(m, f"Bits.{fname}", cons, f"result width is {norm(v.args[0])}, documented width is "
                      f"{'1 (comparison)' if is_cmp else 'the left operand width'}", ret.lineno)
                continue
            e = _strip_mask(v.args[1], ret, f)
            if isinstance(e, ast.Constant):
                # constant results: shift-out (`amount >= nbits -> 0`) or the non-numeric eq/ne case
                if fname == '__lshift__' and e.value == 0:
                    gs = [g for g in guards_of(ret) if g.kind == 'if' and g.polarity]
                    okg = False
                    for g in gs:
                        # the guard must imply amount >= nbits (small-scope check over amount, nbits)
                        names = [n for n in ast.walk(g.test) if isinstance(n, ast.Name)]
                        amt = [n.id for n in names if resolve_operand(n, ret, other) == 'other']
                        if not amt:
                            continue
                        implied = True
                        for nb in range(1, 7):
                            for a in range(0, 10):
                                env = {amt[0]: a}
                                def leaf(x, nb=nb):
                                    if width_term(x, ret, f) == 'N':
                                        return nb
                                    return NotImplemented
                                r.evaluations += 1
                                if Evaluator(env, arith=True, leaf=leaf).ev(g.test) and a < nb:
                                    implied = False
                        okg = okg or implied
                    if okg:
                        r.ok(m, f"Bits.{fname}", cons, note="shift-out short cut: guard implies amount >= nbits")
                    else:
                        r.bad(m, f"Bits.{fname}", cons, "returns 0 under a guard that does not imply shift amount >= nbits",
                              ret.lineno)
                    continue
                if fname in ('__eq__', '__ne__') and enclosing(ret, (ast.ExceptHandler,)) is not None \
                        and enclosing(ret, (ast.ExceptHandler,)).type is None:
                    continue   # judged by R-C04-guard
                r.bad(m, f"Bits.{fname}", cons, "constant result on a path where the operator must be computed", ret.lineno)
                continue
            if is_cmp:
                if not (isinstance(e, ast.Compare) and len(e.ops) == 1):
                    r.bad(m, f"Bits.{fname}", cons, "comparison method does not return a single comparison", ret.lineno)
                    continue
                op, l, rr = type(e.ops[0]), e.left, e.comparators[0]
            else:
                if not isinstance(e, ast.BinOp):
                    r.bad(m, f"Bits.{fname}", cons, f"expected `a {opcls.__name__} b` (optionally masked)", ret.lineno)
                    continue
                op, l, rr = type(e.op), e.left, e.right
            lo, ro = resolve_operand(l, ret, other), resolve_operand(rr, ret, other)
            want = ('other', 'self') if swapped else ('self', 'other')
            if op is not opcls:
                r.bad(m, f"Bits.{fname}", cons, f"applies {op.__name__}, the method is {fname} ({opcls.__name__})", ret.lineno)
            elif (lo, ro) != want:
                if (lo, ro) == want[::-1] and fname.strip('_').lstrip('r') in ('add', 'mul', 'and', 'or', 'xor', 'eq', 'ne'):
                    r.ok(m, f"Bits.{fname}", cons, note="operands swapped, operator commutative")
                else:
                    r.bad(m, f"Bits.{fname}", cons, f"operand order is ({lo}, {ro}), must be {want}", ret.lineno)
            else:
                r.ok(m, f"Bits.{fname}", cons)

    for fname, (opcls, is_cmp) in FORWARD.items():
        f = meths.get(fname)
        if f is not None:
            check(fname, f, opcls, is_cmp, False)
    for rname, fwd in REFLECTED.items():
        f = meths.get(rname)
        if f is None:
            continue
        other = f.args.args[1].arg
        body = [s for s in f.body if not (isinstance(s, ast.Expr) and isinstance(s.value, ast.Constant))]
        me = self_name(f)
        if len(body) == 1 and isinstance(body[0], ast.Return) and isinstance(body[0].value, ast.Call) \
                and isinstance(body[0].value.func, ast.Attribute) and norm(body[0].value.func.value) == me:
            callee = body[0].value.func.attr
            args = [norm(a) for a in body[0].value.args]
            if callee == fwd and fwd in COMMUTATIVE and args == [other]:
                r.ok(m, f"Bits.{rname}", norm(body[0]), note="delegates to the commutative forward operator")
            else:
                r.bad(m, f"Bits.{rname}", norm(body[0]),
                      f"reflected operator delegates to {callee}({', '.join(args)}); only a commutative operator may "
                      f"delegate to its own forward form", body[0].lineno)
        else:
            check(rname, f, FORWARD[fwd][0], False, True)
    # unary / conversions
    f = meths.get('__invert__')
    if f is None:
        raise AnalysisError("anchor vanished: Bits.__invert__")
    rets = [n for n in walk_no_nested(f) if isinstance(n, ast.Return)]
    for ret in rets:
        v = ret.value
        ok = isinstance(v, ast.Call) and norm(v.func) == '_new_valid_bits' and width_term(v.args[0], ret, f) == 'N'
        if ok:
            e = _strip_mask(v.args[1], ret, f)
            ok = isinstance(e, ast.UnaryOp) and isinstance(e.op, ast.Invert) and norm(e.operand) == f'{self_name(f)}._uint'
        (r.ok if ok else r.bad)(m, 'Bits.__invert__', norm(ret), *([] if ok else ["~ must be the masked bitwise complement of the stored value"]))
    simple = {'uint': ['return self._uint'], '__int__': ['return int(self._uint)', 'return self._uint'],
              '__index__': ['return int(self._uint)', 'return self._uint'], '__bool__': ['return self._uint != 0'],
              'clone': ['return _new_valid_bits(self._nbits, self._uint)'],
              '__deepcopy__': ['return _new_valid_bits(self._nbits, self._uint)'],
              'to_bits': ['return self'], '_flip': ['self._uint = self._next']}
    for fname, shapes in simple.items():
        f = meths.get(fname)
        if f is None:
            raise AnalysisError(f"anchor vanished: Bits.{fname}")
        me = self_name(f)
        body = [norm(s).replace(me + '.', 'self.').replace(f'return {me}', 'return self')
                for s in f.body if not (isinstance(s, ast.Expr) and isinstance(s.value, ast.Constant))]
        if len(body) == 1 and body[0] in shapes:
            r.ok(m, f"Bits.{fname}", body[0], nontrivial=False)
        else:
            r.bad(m, f"Bits.{fname}", '; '.join(body), f"expected `{shapes[0]}`", f.lineno)
    # hash covers width and value
    f = meths.get('__hash__')
    if f is not None:
        last = f.body[-1]
        txt = norm(inline_locals(last.value, last)) if isinstance(last, ast.Return) and last.value is not None else norm(last)
        if '_nbits' in txt and '_uint' in txt and 'hash' in txt:
            r.ok(m, 'Bits.__hash__', txt, nontrivial=False)
        else:
            r.bad(m, 'Bits.__hash__', txt, "hash must cover both width and value", f.lineno)
    # two's complement int(): negative iff the msb is set; magnitude 2^n - uint
    f = meths.get('int')
    if f is None:
        raise AnalysisError("anchor vanished: Bits.int")
    me = self_name(f)
    # the body is evaluated on a reference model of the value (uint, nbits; ~x and x + k wrap to the width, int(x) is the
    # unsigned reading -- the operators' own clauses above decide that the real ones behave so) for small and extreme widths
    tables = fold_tables(m)

    class _Ref:
        def __init__(s_, u, n):
            s_.u, s_.n = u & ((1 << n) - 1), n
        def __invert__(s_):
            return _Ref(~s_.u, s_.n)
        def __add__(s_, k):
            return _Ref(s_.u + int(k), s_.n)
        __radd__ = __add__
        def __sub__(s_, k):
            return _Ref(s_.u - int(k), s_.n)
        def __neg__(s_):
            return _Ref(-s_.u, s_.n)
        def __int__(s_):
            return s_.u
        __index__ = __int__
    top = min(len(tables.get('_upper') or [0] * 1024), len(tables.get('_lower') or [0] * 1024)) - 1
    wrong = None
    for n in sorted({1, 2, 3, 8, 64, top}):
        for u in sorted({0, 1, (1 << (n - 1)) - 1, 1 << (n - 1), (1 << (n - 1)) + 1, (1 << n) - 2, (1 << n) - 1, (1 << n) // 3}):
            if not 0 <= u < (1 << n):
                continue
            r.evaluations += 1
            env = {me: _Ref(u, n), f"{me}._uint": u, f"{me}._nbits": n, f"{me}.nbits": n}
            env.update({k: v for k, v in tables.items() if isinstance(v, list)})
            kind, val = Evaluator(env, arith=True, funcs={'int': int, 'bool': bool, 'abs': abs}).run(f.body)
            want = u - (1 << n) if u >> (n - 1) else u
            got = int(val) if kind == 'return' and isinstance(val, (int, _Ref)) and not isinstance(val, bool) else None
            if kind != 'return' or got != want or isinstance(val, _Ref):
                short = lambda v: str(v) if not isinstance(v, int) or abs(v) < (1 << 70) else \
                    f"{'-' if v < 0 else ''}(a {abs(v).bit_length()}-bit number)"
                d = u - (1 << (n - 1))
                wrong = wrong or (n, (f"2^{n - 1}" + (f"+{short(d)}" if d else '')) if d >= 0 else short(u),
                                  f"raises {val}" if kind == 'raise' else
                                  ("returns a Bits, not an int" if isinstance(val, _Ref) else f"returns {short(val)}"), short(want))
    good = wrong is None
    (r.ok if good else r.bad)(m, 'Bits.int', norm(f.body)[:160],
                              *([] if good else [f"signed value must be -(2^n - uint) when the msb is set, else uint: for n={wrong[0]}, "
                                                 f"uint={wrong[1]} int() {wrong[2]}, must be {wrong[3]}"]))
    r.require_floor(45)
    return r


# ---------------------------------------------------------------------------
def fold_tables(m):
    """constant-fold the module-level construction of _upper / _lower"""
    env = {}
    for st in m.tree.body:
        if isinstance(st, ast.Assign) and len(st.targets) == 1 and isinstance(st.targets[0], ast.Name) \
                and st.targets[0].id in ('_upper', '_lower'):
            try:
                env[st.targets[0].id] = list(ast.literal_eval(st.value))
            except Exception:
                # closed form list comprehension
                env[st.targets[0].id] = _fold_expr(st.value, env)
        elif isinstance(st, ast.For) and any(isinstance(n, ast.Name) and n.id in ('_upper', '_lower') for n in ast.walk(st)):
            if not (isinstance(st.iter, ast.Call) and norm(st.iter.func) == 'range' and isinstance(st.target, ast.Name)):
                raise AnalysisError("table loop is not a for-range loop")
            rng = range(*[ast.literal_eval(a) for a in st.iter.args])
            if len(rng) > 5000:
                raise AnalysisError("table loop too long to fold")
            for i in rng:
                env[st.target.id] = i
                for s2 in st.body:
                    if isinstance(s2, ast.Expr) and isinstance(s2.value, ast.Call) and isinstance(s2.value.func, ast.Attribute) \
                            and s2.value.func.attr == 'append' and isinstance(s2.value.func.value, ast.Name):
                        env[s2.value.func.value.id].append(_fold_expr(s2.value.args[0], env))
                    else:
                        raise AnalysisError(f"table loop statement outside the folding domain: {norm(s2)}")
    return env


def _fold_expr(e, env):
    class E(Evaluator):
        def ev_Subscript(self, x):
            return self.ev(x.value)[self.ev(x.slice)]

        def ev_ListComp(self, x):
            if len(x.generators) != 1 or x.generators[0].ifs:
                raise AnalysisError("comprehension outside folding domain")
            g = x.generators[0]
            if not (isinstance(g.iter, ast.Call) and norm(g.iter.func) == 'range'):
                raise AnalysisError("comprehension outside folding domain")
            out = []
            for i in range(*[self.ev(a) for a in g.iter.args]):
                self.env[g.target.id] = i
                out.append(self.ev(x.elt))
            return out

        def ev_List(self, x):
            return [self.ev(y) for y in x.elts]
    return E(env, arith=True).ev(e)


def rule_tables(repo):
    r = RuleResult('R-C04-tables', "_upper[i] == 2^i-1 and _lower[i] == -2^(i-1) for every supported width; "
                                   "constructor width bound consistent with the tables")
    m, cls, meths = _bits(repo)
    env = fold_tables(m)
    up, lo = env.get('_upper'), env.get('_lower')
    if up is None or lo is None:
        raise AnalysisError("anchor vanished: _upper/_lower tables")
    n = min(len(up), len(lo))
    bad_u = [i for i in range(1, len(up)) if up[i] != (1 << i) - 1]
    bad_l = [i for i in range(1, len(lo)) if lo[i] != -(1 << (i - 1))]
    r.evaluations = len(up) + len(lo)
    if bad_u:
        r.bad(m, '<module>', '_upper table', f"_upper[{bad_u[0]}] == {up[bad_u[0]]} != 2^{bad_u[0]}-1 "
              f"({len(bad_u)} wrong entries)")
    else:
        r.ok(m, '<module>', f'_upper table ({len(up)} entries)')
    if bad_l:
        r.bad(m, '<module>', '_lower table', f"_lower[{bad_l[0]}] == {lo[bad_l[0]]} != -2^{bad_l[0]-1} "
              f"({len(bad_l)} wrong entries)")
    else:
        r.ok(m, '<module>', f'_lower table ({len(lo)} entries)')
    # constructor bound:  accepted widths == 1 .. len(table)-1, and covers 1..1023
    f = meths['__init__']
    nb = f.args.args[1].arg
    gs = [s for s in f.body if isinstance(s, ast.If) and always_exits(s.body) and
          any(isinstance(x, ast.Name) and x.id == nb for x in ast.walk(s.test))]
    if not gs:
        r.bad(m, 'Bits.__init__', 'width bound', "constructor does not reject unsupported widths", f.lineno)
    else:
        acc = []
        for w in range(-2, n + 3):
            r.evaluations += 1
            if not Evaluator({nb: w}, arith=False).ev(gs[0].test):
                acc.append(w)
        if acc and acc[0] == 1 and acc[-1] == n - 1 and acc[-1] >= 1023 and acc == list(range(1, n)):
            r.ok(m, 'Bits.__init__', norm(gs[0].test), note=f"accepts widths 1..{n-1}")
        else:
            r.bad(m, 'Bits.__init__', norm(gs[0].test),
                  f"accepted widths {acc[:1]}..{acc[-1:]} do not match the table range 1..{n-1} / the documented 1..1023",
                  gs[0].lineno)
    r.require_floor(3)
    return r


# ---------------------------------------------------------------------------
def rule_exhaustive(repo):
    r = RuleResult('R-C04-exhaustive', "every documented operator has its forward/reflected method; BitsN forwards "
                                       "(N, v, trunc_int) unchanged; only PythonBits.py writes the stored value")
    m, cls, meths = _bits(repo)
    for d in list(FORWARD) + list(REFLECTED) + ['__invert__', '__imatmul__', '__ilshift__', '__getitem__', '__setitem__',
                                                '__int__', '__index__', '__bool__', '__hash__', 'int', 'uint']:
        if d in meths:
            r.ok(m, 'Bits', d, nontrivial=False)
        else:
            r.bad(m, 'Bits', d, f"operator method {d} is missing")
    slots = [n for n in cls.body if isinstance(n, ast.Assign) and norm(n.targets[0]) == '__slots__']
    if slots and set(ast.literal_eval(slots[0].value)) == {'_nbits', '_uint', '_next'}:
        r.ok(m, 'Bits', '__slots__', nontrivial=False)
    else:
        r.bad(m, 'Bits', '__slots__', "Bits must keep exactly the slots (_nbits, _uint, _next)")
    # BitsN template
    im = repo.mod(IMPORT)
    templates = []
    for n in ast.walk(im.tree):
        if isinstance(n, ast.Assign) and norm(n.targets[0]) == 'bits_template' and isinstance(n.value, ast.Constant):
            # skip the mamba variant (external Bits.__new__)
            if '__new__' in n.value.value:
                continue
            templates.append(n)
    if len(templates) < 2:
        raise AnalysisError("anchor vanished: PythonBits BitsN templates in bits_import.py")
    for t in templates:
        src = t.value.value.format(8)
        try:
            tree = ast.parse(src)
        except SyntaxError as e:
            r.bad(im, '<module>', 'bits_template', f"template does not parse: {e}", t.lineno)
            continue
        c = tree.body[0]
        ok = isinstance(c, ast.ClassDef) and c.name == 'Bits8' and [norm(b) for b in c.bases] == ['Bits']
        init = [s for s in c.body if isinstance(s, ast.FunctionDef) and s.name == '__init__']
        nb = [s for s in c.body if isinstance(s, ast.Assign) and norm(s.targets[0]) == 'nbits']
        ok = ok and nb and norm(nb[0].value) == '8' and len(init) == 1
        if ok:
            f = init[0]
            a = f.args
            ok = [x.arg for x in a.args][1:] == ['v'] and [norm(d) for d in a.defaults] == ['0'] and \
                [x.arg for x in a.kwonlyargs] == ['trunc_int'] and [norm(d) for d in a.kw_defaults] == ['False']
            calls = [n for n in ast.walk(f) if isinstance(n, ast.Call) and norm(n.func) == 'super().__init__']
            ok = ok and len(calls) == 1 and [norm(x) for x in calls[0].args] == ['8', 'v', 'trunc_int'] and not calls[0].keywords
            # every path goes through Bits.__init__ (its width / range checks): the body is nothing but the forwarding call
            body = [x for x in f.body if not (isinstance(x, ast.Expr) and isinstance(x.value, ast.Constant))]
            ok = ok and len(body) == 1 and isinstance(body[0], (ast.Return, ast.Expr)) and calls and body[0].value is calls[0]
            # and the generated class writes no stored value itself
            ok = ok and not any(isinstance(x, ast.Attribute) and x.attr in ('_uint', '_next') and isinstance(x.ctx, ast.Store) for x in ast.walk(tree))
        reg = [s for s in tree.body if isinstance(s, ast.Assign) and '_bits_types[8]' in norm(s)]
        ok = ok and reg and norm(reg[0].value) == 'Bits8'
        if ok:
            r.ok(im, '<module>', 'bits_template: class BitsN(Bits).__init__(v=0,*,trunc_int=False) -> super().__init__(N, v, trunc_int)')
        else:
            r.bad(im, '<module>', 'bits_template', "BitsN template no longer forwards (N, v, trunc_int) to Bits.__init__ "
                  "/ registers the class under its width", t.lineno)
    # mk_bits returns the cached class for the requested width
    f = im.functions.get('mk_bits')
    if f is None:
        raise AnalysisError("anchor vanished: mk_bits")
    a0 = f.args.args[0].arg
    rets = [n for n in walk_no_nested(f) if isinstance(n, ast.Return)]
    if len(rets) == 1 and norm(rets[0].value) == f'_bits_types[{a0}]' and \
            any(isinstance(n, ast.Call) and norm(n.func) == 'bits_template.format' and [norm(x) for x in n.args] == [a0]
                for n in ast.walk(f)):
        r.ok(im, 'mk_bits', norm(rets[0]))
    else:
        r.bad(im, 'mk_bits', norm(rets), "mk_bits(n) must instantiate the template with n and return _bits_types[n]")
    # who-may-write: no module other than PythonBits.py stores _uint/_next or calls _new_valid_bits
    outside = 0
    for rel in repo.py_files('pymtl3'):
        if rel == BITS:
            continue
        src = repo.src(rel)
        if '_uint' not in src and '_next' not in src and '_new_valid_bits' not in src:
            continue
        mm = repo.mod(rel)
        for n in ast.walk(mm.tree):
            hit = None
            if isinstance(n, (ast.Assign, ast.AugAssign)):
                tg = n.targets if isinstance(n, ast.Assign) else [n.target]
                for t in tg:
                    for x in ast.walk(t):
                        if isinstance(x, ast.Attribute) and x.attr in ('_uint', '_next') and isinstance(x.ctx, ast.Store):
                            hit = norm(n)
            elif isinstance(n, ast.Call) and norm(n.func).endswith('_new_valid_bits'):
                hit = norm(n)
            if hit:
                outside += 1
                r.bad(mm, '<module>', hit, "stored Bits value written outside PythonBits.py bypasses the range checks",
                      getattr(n, 'lineno', 0))
    # embedded positive example (expected finding count on the real tree is zero)
    probe = ast.parse("def f(x):\n  x._uint = x._uint + 1\n")
    if not any(isinstance(x, ast.Attribute) and x.attr == '_uint' and isinstance(x.ctx, ast.Store) for x in ast.walk(probe)):
        raise AnalysisError("who-may-write probe failed")
    r.ok(m, '<repo>', f"no writer of _uint/_next outside PythonBits.py ({len(repo.py_files('pymtl3'))} files scanned)")
    r.require_floor(35)
    return r


def rule_shiftbound(repo):
    """A left shift by an operand-supplied amount is performed only for amounts below the width: larger amounts must take the
    shift-out short cut (result 0) -- otherwise `x << Bits64(2**62)` builds a 2**62-bit integer (MemoryError) before the mask."""
    r = RuleResult('R-C04-shiftbound', "x << amount is computed only for amount < nbits; larger amounts return 0 without shifting")
    m, cls, meths = _bits(repo)
    f = meths.get('__lshift__')
    if f is None:
        raise AnalysisError("anchor vanished: Bits.__lshift__")
    other = f.args.args[1].arg
    me = self_name(f)
    shifts = [n for n in walk_no_nested(f) if isinstance(n, ast.BinOp) and isinstance(n.op, ast.LShift) and norm(n.left) == f'{me}._uint']
    if len(shifts) < 2:
        raise AnalysisError("Bits.__lshift__: expected a shift on the Bits-operand and on the int-operand path")
    for sh in shifts:
        amt = sh.right
        cons = f"{norm(sh)} in {'Bits' if enclosing(sh, (ast.ExceptHandler,)) is None else 'int'}-operand path"
        gs = [g for g in guards_of(sh) if g.kind == 'exit' and norm(amt) in {norm(x) for x in ast.walk(g.test)}
              and not any(isinstance(x, ast.Raise) for b in g.exit_block for x in ast.walk(b))]
        bounded = False
        for g in gs:
            # guard false (we got past it) must imply amount < nbits
            ok = True
            for nb in range(1, 7):
                for a in range(0, 12):
                    def leaf(x, nb=nb, a=a):
                        if norm(x) == norm(amt):
                            return a
                        if width_term(x, sh, f) == 'N':
                            return nb
                        return NotImplemented
                    r.evaluations += 1
                    # g.polarity is the truth value of the test on the fall-through path; the shift amount must stay bounded
                    # by the width there (amount == nbits is harmless: the mask clears everything)
                    passed = bool(Evaluator({}, arith=True, leaf=leaf).ev(g.test)) == g.polarity
                    if passed and a > nb:
                        ok = False
            if ok:
                # the exit must return the zero value of the right width
                rets = [x for b in g.exit_block for x in ast.walk(b) if isinstance(x, ast.Return)]
                if rets and all(isinstance(x.value, ast.Call) and norm(x.value.func) == '_new_valid_bits' and norm(x.value.args[1]) == '0' for x in rets):
                    bounded = True
        if bounded:
            r.ok(m, 'Bits.__lshift__', cons)
        else:
            r.bad(m, 'Bits.__lshift__', cons, "the shift is computed for arbitrarily large amounts: an amount >= nbits must return 0 before "
                  "shifting (a Bits64 amount of 2**62 otherwise allocates a 2**62-bit integer / raises MemoryError instead of returning 0)", sh.lineno)
    r.require_floor(2)
    return r


def rule_slice_assign_fit(repo):
    """`x[a:b] = v` is an assignment too: integers / Bits that do not fit the slice must raise instead of being truncated
    (shared with C05: R-C05-fit)"""
    from rules.c05 import rule_fit
    return rule_fit(repo)


def rule_operand_kind(repo):
    """BitsN classes are subclasses of Bits: a case split that recognises a Bits operand by its exact type sends BitsN values down
    the integer path, where only the value -- not the width -- is checked."""
    r = RuleResult('R-C04-operand-kind', "every case split on the kind of an operand recognises Bits by isinstance (subclasses BitsN "
                                         "included), never by exact type")
    m, cls, meths = _bits(repo)
    n_inst = 0
    for name, f in sorted(meths.items()):
        for t in walk_no_nested(f):
            if isinstance(t, ast.Call) and norm(t.func) == 'isinstance' and len(t.args) == 2 and 'Bits' in norm(t.args[1]):
                n_inst += 1
            bad = None
            if isinstance(t, ast.Compare) and len(t.ops) == 1 and isinstance(t.ops[0], (ast.Is, ast.IsNot, ast.Eq, ast.NotEq)):
                l, rr = norm(t.left), norm(t.comparators[0])
                for a, b in ((l, rr), (rr, l)):
                    if b == 'Bits' and (a.startswith('type(') or a.endswith('.__class__')):
                        bad = t
            if bad is not None:
                r.bad(m, f"Bits.{name}", norm(bad), "exact-type test on an operand: an instance of a BitsN subclass (Bits8(3), mk_bits(n)(v)) is not "
                      "recognised as Bits and takes the integer path -- a value of the wrong width that happens to fit is accepted silently", bad.lineno)
    if n_inst:
        r.ok(m, 'Bits', f"{n_inst} isinstance tests on Bits operands")
    r.require_floor(1)
    return r


def rule_result_is_value(repo):
    """every operator returns a fresh Bits (an identity shortcut such as `x >> 0 -> self` makes the result change with a later
    in-place write to the operand); in-place operators return self.  Shared with C05 (R-C05-value)."""
    from rules.c05 import rule_value_semantics
    return rule_value_semantics(repo)


RULES = [rule_range, rule_guard, rule_optable, rule_tables, rule_exhaustive, rule_shiftbound, rule_slice_assign_fit, rule_result_is_value, rule_operand_kind]


# ---------------------------------------------------------------------------
# self-test of the checker (thorough tier): one instance broken per mutant; behaviour-preserving rewrites in EQUIV
def _m(name, old, new, rule=None, file=BITS, count=1):
    return dict(name=name, file=file, old=old, new=new, rule=rule, count=count)


MUTANTS = [
    _m('int-reads-the-bound-table-one-past-its-end', '    if self._uint >> (self._nbits - 1):\n      return -int(~self + 1)\n    return self._uint\n', "    if self._uint >> (self._nbits - 1):\n      return self._uint + _lower[self._nbits + 1]\n    return self._uint\n", 'R-C04-optable'),
    _m('int-sign-from-the-wrong-bit', '    if self._uint >> (self._nbits - 1):\n      return -int(~self + 1)\n    return self._uint\n', "    if self._uint >> self._nbits:\n      return -int(~self + 1)\n    return self._uint\n", 'R-C04-optable'),
    _m('setitem-exact-type-test', "    if isinstance( idx, slice ):\n      if idx.step:\n        raise IndexError( \"Index cannot contain step\" )\n      try:\n        start = 0 if idx.start is None else int(idx.start)\n        stop  = self._nbits if idx.stop is None else int(idx.stop)\n        assert 0 <= start < stop <= self._nbits\n      except:\n        raise IndexError( f\"Invalid access: [{idx.start}:{idx.stop}] in a Bits{self._nbits} instance\" )\n\n      slice_nbits = stop - start\n      if isinstance( v, Bits ):",
       "    if isinstance( idx, slice ):\n      if idx.step:\n        raise IndexError( \"Index cannot contain step\" )\n      try:\n        start = 0 if idx.start is None else int(idx.start)\n        stop  = self._nbits if idx.stop is None else int(idx.stop)\n        assert 0 <= start < stop <= self._nbits\n      except:\n        raise IndexError( f\"Invalid access: [{idx.start}:{idx.stop}] in a Bits{self._nbits} instance\" )\n\n      slice_nbits = stop - start\n      if type( v ) is Bits:", 'R-C04-operand-kind'),
    _m('ctor-store-before-check', "      up = _upper[nbits]\n\n      if not trunc_int:\n        lo = _lower[nbits]\n        if v < lo or v > up:\n          raise ValueError( f\"Value {hex(v)} is too wide for Bits{nbits}!\\n\" \\\n                            f\"(Bits{nbits} only accepts {hex(lo)} <= value <= {hex(up)})\" )\n      self._uint = v & up",
       "      up = _upper[nbits]\n      self._uint = v & up\n\n      if not trunc_int:\n        lo = _lower[nbits]\n        if v < lo or v > up:\n          raise ValueError( f\"Value {hex(v)} is too wide for Bits{nbits}!\\n\" \\\n                            f\"(Bits{nbits} only accepts {hex(lo)} <= value <= {hex(up)})\" )", 'R-C04-guard'),
    _m('lshift-shortcut-removed', "      uint = other._uint\n      if uint >= nbits:\n        return _new_valid_bits( self._nbits, 0 )\n", "      uint = other._uint\n", 'R-C04-shiftbound'),
    _m('template-fast-path', "  def __init__( s, v=0, *, trunc_int=False ):\n    return super().__init__( {0}, v, trunc_int )", "  def __init__( s, v=0, *, trunc_int=False ):\n    if isinstance( v, Bits ):\n      s._nbits = {0}\n      s._uint = v._uint\n      return\n    return super().__init__( {0}, v, trunc_int )", 'R-C04-exhaustive', file=IMPORT, count=2),
    _m('add-bits-unmasked', "(self._uint + other._uint) & _upper[nbits] )", "(self._uint + other._uint) )", 'R-C04-range'),
    _m('sub-int-unmasked', "(self._uint - other) & up )", "(self._uint - other) )", 'R-C04-range'),
    _m('invert-unmasked', "~self._uint & _upper[nbits] )", "~self._uint )", 'R-C04-range'),
    _m('mul-mask-too-wide', "(self._uint * other._uint) & _upper[nbits] )", "(self._uint * other._uint) & _upper[nbits+1] )", 'R-C04-range'),
    _m('lshift-unmasked', "      return _new_valid_bits( nbits, (self._uint << uint) & _upper[nbits] )",
       "      return _new_valid_bits( nbits, self._uint << uint )", 'R-C04-range'),
    _m('setitem-bit-no-mask', "((v._uint & 1) << i)", "(v._uint << i)", 'R-C04-range'),
    _m('ilshift-int-unmasked', "      self._next = v & up", "      self._next = v", 'R-C04-range'),
    _m('ctor-int-unmasked', "      self._uint = v & up\n\n  # PyMTL simulation specific", "      self._uint = v\n\n  # PyMTL simulation specific", 'R-C04-range'),
    _m('or-width-guard-weakened', """      if other.nbits != nbits:
        raise ValueError( f"Operands of '|' (or)""", """      if other.nbits > nbits:
        raise ValueError( f"Operands of '|' (or)""", 'R-C04'),
    _m('add-int-guard-off-by-one', r"""      up = _upper[ nbits ]
      if other < 0 or other > up:
        raise ValueError( f"Integer {hex(other)} is not a valid binop operand with Bits{nbits}!\n"
                          f"Suggestion: 0 <= x <= {hex(up)}" )
      return _new_valid_bits( nbits, (self._uint + other) & up )""", r"""      up = _upper[ nbits ]
      if other < 0 or other >= up:
        raise ValueError( f"Integer {hex(other)} is not a valid binop operand with Bits{nbits}!\n"
                          f"Suggestion: 0 <= x <= {hex(up)}" )
      return _new_valid_bits( nbits, (self._uint + other) & up )""", 'R-C04-guard', count='first'),
    _m('and-int-negative-accepted', r"""      if other < 0 or other > _upper[ nbits ]:
        raise ValueError( f"Integer {hex(other)} is not a valid binop operand with Bits{nbits}!\n"
                          f"Suggestion: 0 <= x <= {hex(_upper[ nbits ])}" )
      return _new_valid_bits( nbits, self._uint & other )""", r"""      if other > _upper[ nbits ]:
        raise ValueError( f"Integer {hex(other)} is not a valid binop operand with Bits{nbits}!\n"
                          f"Suggestion: 0 <= x <= {hex(_upper[ nbits ])}" )
      return _new_valid_bits( nbits, self._uint & other )""", 'R-C04-guard', count='first'),
    _m('rsub-operands-swapped', "(other - self._uint) & up )", "(self._uint - other) & up )", 'R-C04-optable'),
    _m('lt-becomes-le', "return _new_valid_bits( 1, self._uint < other._uint )", "return _new_valid_bits( 1, self._uint <= other._uint )", 'R-C04-optable'),
    _m('ge-result-width', "return _new_valid_bits( 1, self._uint >= other._uint )", "return _new_valid_bits( nbits, self._uint >= other._uint )", 'R-C04-optable'),
    _m('rshift-becomes-lshift', "return _new_valid_bits( nbits, self._uint >> other._uint )", "return _new_valid_bits( nbits, self._uint << other._uint )", 'R-C04'),
    _m('floordiv-int-swapped', "return _new_valid_bits( nbits, self._uint // other )", "return _new_valid_bits( nbits, other // self._uint )", 'R-C04-optable'),
    _m('rsub-delegates', """    return _new_valid_bits( nbits, (other - self._uint) & up )""", """    return self.__sub__( other )""", 'R-C04'),
    _m('lshift-shortcut-too-early', "      if uint >= nbits:\n", "      if uint >= nbits - 1:\n", 'R-C04-optable'),
    _m('table-upper-recurrence', "_upper.append( (_upper[i-1] << 1) + 1 )", "_upper.append( (_upper[i-1] << 1) + 2 )", 'R-C04-tables'),
    _m('table-lower-recurrence', "_lower.append(  _lower[i-1] << 1      )", "_lower.append(  _lower[i-1] << 1 | 1  )", 'R-C04-tables'),
    _m('table-too-short', "for i in range(2, 1024):", "for i in range(2, 1023):", 'R-C04-tables'),
    _m('ctor-bound', "if nbits < 1 or nbits >= 1024:", "if nbits < 0 or nbits >= 1024:", 'R-C04-tables'),
    _m('ctor-int-lower-bound', """        lo = _lower[nbits]
        if v < lo or v > up:
          raise ValueError( f"Value {hex(v)} is too wide""", """        lo = _lower[nbits]
        if v <= lo or v > up:
          raise ValueError( f"Value {hex(v)} is too wide""", 'R-C04-guard'),
    _m('imatmul-rejects-negative', """      if v < lo or v > up:
        raise ValueError( f"RHS value {hex(v)} of @= is too wide""", """      if v < 0 or v > up:
        raise ValueError( f"RHS value {hex(v)} of @= is too wide""", 'R-C04-guard'),
    _m('ilshift-bits-guard-gone', """      if v.nbits != nbits:
        if v.nbits < nbits:
          raise ValueError( f"Bitwidth of LHS must be equal to RHS during <<= non-blocking""", """      if v.nbits > nbits:
        if v.nbits < nbits:
          raise ValueError( f"Bitwidth of LHS must be equal to RHS during <<= non-blocking""", 'R-C04'),
    _m('eq-nonnumeric-true', "return _new_valid_bits( 1, 0 )", "return _new_valid_bits( 1, 1 )", 'R-C04-guard'),
    _m('int-twos-complement', "return -int(~self + 1)", "return -int(~self)", 'R-C04-optable'),
    _m('template-drops-trunc', "return super().__init__( {0}, v, trunc_int )", "return super().__init__( {0}, v )", 'R-C04-exhaustive', file=IMPORT, count=2),
    _m('mk-bits-wrong-key', "  return _bits_types[nbits]", "  return _bits_types[nbits-1]", 'R-C04-exhaustive', file=IMPORT),
    _m('outside-writer', "def clog2( N ):", "def _poke( x, v ):\n  x._uint = v\n\ndef clog2( N ):", 'R-C04-exhaustive', file='pymtl3/datatypes/helpers.py'),
    _m('xor-mask-missing-after-invert-style', "return _new_valid_bits( nbits, self._uint ^ other )", "return _new_valid_bits( nbits, self._uint ^ ~other )", 'R-C04'),
    _m('hash-ignores-width', "return hash((self._nbits, self._uint))", "return hash(self._uint)", 'R-C04-optable'),
]

EQUIV = [
    _m('int-sign-bit-in-a-local-arms-swapped', '    if self._uint >> (self._nbits - 1):\n      return -int(~self + 1)\n    return self._uint\n', "    sign_bit = self._uint >> (self._nbits - 1)\n    if not sign_bit:\n      return self._uint\n    return -int(~self + 1)\n"),
    _m('int-by-subtracting-the-modulus', '    if self._uint >> (self._nbits - 1):\n      return -int(~self + 1)\n    return self._uint\n', "    if self._uint & (1 << (self._nbits - 1)):\n      return self._uint - (1 << self._nbits)\n    return self._uint\n"),
    _m('int-through-the-bound-table', '    if self._uint >> (self._nbits - 1):\n      return -int(~self + 1)\n    return self._uint\n', "    if self._uint >> (self._nbits - 1):\n      return self._uint + 2 * _lower[self._nbits]\n    return self._uint\n"),
    _m('hash-key-local', "    return hash((self._nbits, self._uint))", "    key = (self._nbits, self._uint)\n    return hash(key)"),
    _m('guard-as-not-chain', r"""      up = _upper[ nbits ]
      if other < 0 or other > up:
        raise ValueError( f"Integer {hex(other)} is not a valid binop operand with Bits{nbits}!\n"
                          f"Suggestion: 0 <= x <= {hex(up)}" )
      return _new_valid_bits( nbits, (self._uint + other) & up )""", r"""      up = _upper[ nbits ]
      if not (0 <= other <= up):
        raise ValueError( f"Integer {hex(other)} is not a valid binop operand with Bits{nbits}!\n"
                          f"Suggestion: 0 <= x <= {hex(up)}" )
      return _new_valid_bits( nbits, (self._uint + other) & up )""", count='first'),
    _m('guard-disjuncts-swapped', r"""      if other < 0 or other > _upper[ nbits ]:
        raise ValueError( f"Integer {hex(other)} is not a valid binop operand with Bits{nbits}!\n"
                          f"Suggestion: 0 <= x <= {hex(_upper[ nbits ])}" )
      return _new_valid_bits( nbits, self._uint & other )""", r"""      if other > _upper[ nbits ] or other < 0:
        raise ValueError( f"Integer {hex(other)} is not a valid binop operand with Bits{nbits}!\n"
                          f"Suggestion: 0 <= x <= {hex(_upper[ nbits ])}" )
      return _new_valid_bits( nbits, self._uint & other )""", count='first'),
    _m('mask-on-the-left', "(self._uint + other._uint) & _upper[nbits] )", "_upper[nbits] & (self._uint + other._uint) )"),
    _m('mask-as-modulo', "(self._uint * other._uint) & _upper[nbits] )", "(self._uint * other._uint) % (1 << nbits) )"),
    _m('mask-closed-form', "~self._uint & _upper[nbits] )", "~self._uint & ((1 << nbits) - 1) )"),
    _m('width-guard-eq-form', """      if other.nbits != nbits:
        raise ValueError( f"Operands of '|' (or)""", """      if not (other.nbits == nbits):
        raise ValueError( f"Operands of '|' (or)"""),
    _m('lshift-shortcut-gt', "      if uint >= nbits:\n", "      if uint > nbits:\n"),
    _m('table-closed-form', "_upper.append( (_upper[i-1] << 1) + 1 )", "_upper.append( (1 << i) - 1 )"),
    _m('redundant-mask', "return _new_valid_bits( nbits, self._uint & other._uint )", "return _new_valid_bits( nbits, (self._uint & other._uint) & _upper[nbits] )"),
    _m('commutative-swap', "return _new_valid_bits( nbits, self._uint ^ other._uint )", "return _new_valid_bits( nbits, other._uint ^ self._uint )"),
]

LEVEL_TEXT = ("Static proof-style analysis of the Bits implementation: an inductive range invariant over every writer of the "
              "stored value, semantic comparison of every guard's raising region with the specified one over all order "
              "types, operator-identity and result-width tables, constant-folded bound tables. It decides the property for "
              "all widths and operands at the level of code shape (which the sampled unit tests cannot), trusting Python int "
              "arithmetic; it does not execute the code.")
LEVEL_NOTE = ("Trusted: Python int semantics and the range-domain transfer rules; operands are Bits/bitstructs or ints; the "
              "external Mamba Bits is out of scope. Value-level results follow from range + guard + operator identity.")
TECHNIQUE = "ast dataflow with a mask/range abstract domain, structural dominance of guards, order-type enumeration of guard regions, table folding"
