"""C19 -- Round-robin arbiters grant exactly one requester, fairly.  (DESIGN.md section 4, C19)"""
import ast
import itertools

from sa.astutil import norm, walk_no_nested, parent, names_in
from sa.c18_util import BV, Interp, strip_doc, decorators, cnorm
from sa.errors import AnalysisError
from sa.minieval import Raised
from sa.report import RuleResult

PID = 'C19'
ARB = 'pymtl3/stdlib/basic_rtl/arbiters.py'
REG = 'pymtl3/stdlib/basic_rtl/registers.py'
CLASSES = [('RoundRobinArbiter', False), ('RoundRobinArbiterEn', True)]
SMALL = (2, 3, 4, 5)         # sizes enumerated exhaustively in the quick tier
LARGER = (6, 7)              # added by the thorough tier
WIRING_NS = tuple(range(2, 17))

EXPLANATION = (
    "Static analysis of arbiters.py / registers.py (ast only; pymtl3 is never imported, elaborated or simulated). "
    "NOT decided: one-hotness and fairness for ALL nreqs and over request histories -- that is a statement about a Boolean "
    "function family and about traces. Decided: "
    "R-C19-wiring (for every nreqs; slice arithmetic evaluated for nreqs 2..16): the priority register is "
    "RegEnRst(mk_bits(nreqs), reset_value=1); the connections of grants into the register input tile [0,nreqs) exactly once "
    "and realise rotate-left-by-one; the register enable is the priority_en wire; RegEnRst's block gives reset priority over "
    "enable and holds otherwise (all four (reset,en) cases). "
    "R-C19-grant (SMALL-SCOPE decision, nreqs in {2,3,4,5}, thorough tier also 6 and 7): the update blocks of each arbiter are "
    "modelled as written (loops over range() unrolled, @= on bits/slices of fixed-width values, | & ~ != on Bits, if on a "
    "bit; blocks run once in pymtl3's topological order, from two opposite initial wire states so that a read of a not yet "
    "written bit is detected) and evaluated for ALL 2^nreqs request vectors x ALL one-hot priority vectors (x en): grants is zero iff nothing "
    "is requested, otherwise exactly one bit, on a requesting input, namely the first requester at or after the priority "
    "pointer; priority_en == (grants != 0) [& en]; composed with the extracted connections and the RegEnRst block the next "
    "pointer is rotl(grants) when enabled, unchanged otherwise, and 1 under reset -- hence one-hot by induction for these "
    "sizes. This is an exhaustive decision of the combinational grant function for the listed sizes, not a proof for all "
    "nreqs; the update blocks are additionally required to be uniform in nreqs (no case distinction on nreqs), otherwise "
    "the analysis refuses (ANALYSIS-ERROR); case distinctions on nreqs in construct() itself (which signals exist, what is "
    "connected) are evaluated per concrete nreqs, for every size 2..16 and beyond every constant such a distinction mentions. "
    "R-C19-siblings: RoundRobinArbiter and RoundRobinArbiterEn declare the same signals (up to `en`) and compute the same "
    "grants / next pointer for every request vector and every reachable (one-hot) pointer when en=1, and the En variant "
    "holds the pointer (with unchanged grants) when en=0 (same sizes as R-C19-grant). "
    "R-C19-sim-options / R-tick-order / R-C07-ffset (necessary conditions outside the two anchored files, shared with C07): "
    "the priority register only advances / resets if the simulator runs every update_ff block once per edge before the flip, "
    "re-evaluates the grant logic around it, and sim_reset() drives the polarity the user configured -- every pass group must "
    "forward its reset_active_high / line-trace option to the same-named option of the pass it builds.")
ASSUMPTIONS = [
    "pymtl3 Bits semantics for | & ~ != slicing and truthiness (properties C04/C05); update blocks reach their "
    "combinational fixed point (C02/C11); connect() makes both ends equal (C08); <<= takes effect at the clock edge (C07)",
    "fairness (a persistent requester is granted within nreqs granting cycles) follows mathematically from: grant = first "
    "requester at/after the pointer, pointer' = rotl(grant)",
    "small-scope hypothesis for nreqs > 7: the construct() code is uniform in nreqs (checked syntactically)",
]


# ---------------------------------------------------------------------------
def _mk_bits(k):
    return ('bits', int(k))


CONST_FUNCS = {'mk_bits': _mk_bits, 'clog2': lambda n: (int(n) - 1).bit_length()}


class Model:
    """what construct() of one component declares, for one concrete value of its parameters"""
    def __init__(self):
        self.sig = {}        # 's.x' -> (kind, width)
        self.children = {}   # 's.reg' -> (class name, {param: value}, call node)
        self.alias = {}      # local name -> 's.reg'
        self.connects = []   # (lhs expr, rhs expr, env snapshot, stmt)
        self.comb = []       # FunctionDef
        self.ff = []
        self.consts = {}


def _width_of(v):
    if isinstance(v, tuple) and len(v) == 2 and v[0] == 'bits':
        return v[1]
    if isinstance(v, int) and not isinstance(v, bool):
        return v
    raise AnalysisError(f"signal type outside the understood shapes: {v!r}")


def _bits_name(name):
    if name.startswith('Bits') and name[4:].isdigit():
        return ('bits', int(name[4:]))
    return None


def build_model(repo, mod, con, args):
    """Partially evaluate construct(): constants, signal declarations, child components, connections, update blocks."""
    m = Model()
    me = con.args.args[0].arg
    params = [a.arg for a in con.args.args[1:]]
    defaults = con.args.defaults
    env = {}
    for p, d in zip(params[len(params) - len(defaults):], defaults):
        env[p] = Interp({}, funcs=CONST_FUNCS).ev(d)
    env.update(args)
    missing = [p for p in params if p not in env]
    if missing:
        raise AnalysisError(f"{con.name}: no value for parameter(s) {missing}")
    m.me = me

    def ev(e, local):
        def leaf(x):
            if isinstance(x, ast.Name) and x.id not in local:
                b = _bits_name(x.id)
                if b is not None:
                    return b
            return NotImplemented
        return Interp(local, funcs=CONST_FUNCS, leaf=leaf).ev(e)

    def scan(stmts, local):
        for st in stmts:
            if isinstance(st, ast.Expr) and isinstance(st.value, ast.Constant):
                continue
            if isinstance(st, ast.Pass):
                continue
            if isinstance(st, ast.Assert):
                if not ev(st.test, local):
                    raise Raised(f"assertion fails: {norm(st.test)}")
                continue
            if isinstance(st, ast.FunctionDef):
                decs = decorators(st)
                if decs == ['update']:
                    m.comb.append(st)
                elif decs == ['update_ff']:
                    m.ff.append(st)
                else:
                    raise AnalysisError(f"{con.name}: update block {st.name} with decorators {decs} is outside the model")
                continue
            if isinstance(st, ast.If):
                # a case distinction on the (concrete) parameters: take the branch this parameter value takes
                scan(st.body if ev(st.test, local) else st.orelse, local)
                continue
            if isinstance(st, ast.For):
                if st.orelse or not isinstance(st.target, ast.Name):
                    raise AnalysisError(f"{con.name}: loop outside the model: {norm(st)[:60]}")
                for v in Interp(dict(local), funcs=CONST_FUNCS).iter_values(st.iter):
                    loc2 = dict(local)
                    loc2[st.target.id] = v
                    scan(st.body, loc2)
                continue
            if isinstance(st, ast.AugAssign) and isinstance(st.op, ast.FloorDiv):
                m.connects.append((st.target, st.value, dict(local), st))
                continue
            if isinstance(st, ast.Expr) and isinstance(st.value, ast.Call) and norm(st.value.func) == 'connect' \
                    and len(st.value.args) == 2 and not st.value.keywords:
                m.connects.append((st.value.args[0], st.value.args[1], dict(local), st))
                continue
            if isinstance(st, ast.Assign):
                v = st.value
                if isinstance(v, ast.Call) and norm(v.func) in ('InPort', 'OutPort', 'Wire'):
                    if v.keywords or len(v.args) > 1:
                        raise AnalysisError(f"{con.name}: signal declaration outside the model: {norm(st)}")
                    w = 1 if not v.args else _width_of(ev(v.args[0], local))
                    for t in st.targets:
                        if not (isinstance(t, ast.Attribute) and norm(t.value) == me):
                            raise AnalysisError(f"{con.name}: signal bound to {norm(t)}")
                        m.sig[norm(t)] = (norm(v.func), w)
                    continue
                if isinstance(v, ast.Call):
                    rc = repo.resolve_class(mod, v.func)
                    if rc is not None:
                        ccon = [x for x in rc[0]._defs_in(rc[1].body) if isinstance(x, ast.FunctionDef) and x.name == 'construct']
                        if len(ccon) != 1:
                            raise AnalysisError(f"child class {rc[1].name} has no construct")
                        cparams = [a.arg for a in ccon[0].args.args[1:]]
                        if len(v.args) > len(cparams):
                            raise AnalysisError(f"too many arguments for {rc[1].name}")
                        cargs = {p: ev(a, local) for p, a in zip(cparams, v.args)}
                        for kw in v.keywords:
                            if kw.arg not in cparams or kw.arg in cargs:
                                raise AnalysisError(f"bad keyword {kw.arg} for {rc[1].name}")
                            cargs[kw.arg] = ev(kw.value, local)
                        path = None
                        for t in st.targets:
                            if isinstance(t, ast.Attribute) and norm(t.value) == me:
                                path = norm(t)
                        if path is None:
                            raise AnalysisError(f"{con.name}: child component not bound to an attribute: {norm(st)}")
                        m.children[path] = (rc, cargs, v)
                        for t in st.targets:
                            if isinstance(t, ast.Name):
                                m.alias[t.id] = path
                        continue
                if all(isinstance(t, ast.Name) or (isinstance(t, ast.Attribute) and norm(t.value) == me) for t in st.targets):
                    val = ev(v, local)                       # plain constants: `k = nreqs * 2`, `s.nreqs = nreqs`
                    for t in st.targets:
                        local[norm(t)] = val
                    continue
                if len(st.targets) == 1 and isinstance(st.targets[0], ast.Tuple) and isinstance(v, ast.Tuple) \
                        and len(v.elts) == len(st.targets[0].elts) and all(isinstance(t, ast.Name) for t in st.targets[0].elts):
                    vals = [ev(x, local) for x in v.elts]
                    for t, val in zip(st.targets[0].elts, vals):
                        local[t.id] = val
                    continue
            raise AnalysisError(f"{con.name}: statement outside the model: {norm(st)[:80]}")
    scan(con.body, env)
    m.consts = env
    return m


# ---------------------------------------------------------------------------
class SigInterp(Interp):
    """update-block interpreter over fixed-width signal values: `s.x @= v`, `s.x[i] @= v`, `s.x[a:b] @= v`, `s.x <<= v`"""
    def __init__(self, env, sig, prefix_map=None):
        super().__init__(env, funcs=CONST_FUNCS)
        self.sig = sig          # shared dict 's.x' -> BV
        self.nxt = {}
        self.pm = prefix_map or {}

    def key(self, e):
        k = cnorm(e)
        if not self.pm:
            return k
        for a, b in self.pm.items():
            if k == a or k.startswith(a + '.'):
                return b + k[len(a):]
        return k

    def ev_Attribute(self, e):
        k = self.key(e)
        if k in self.sig:
            return self.sig[k]
        return super().ev_Attribute(e)

    def ev_Name(self, e):
        if e.id not in self.env:
            b = _bits_name(e.id)
            if b is not None:
                return lambda v=0, w=b[1]: BV(w, BV(w, 0)._o(v))
        return super().ev_Name(e)

    def aug(self, st):
        t = st.target
        base = t.value if isinstance(t, ast.Subscript) else t
        k = self.key(base) if isinstance(base, ast.Attribute) else None
        if k is not None and k in self.sig and isinstance(st.op, (ast.MatMult, ast.LShift)):
            v = self.ev(st.value)
            if callable(v):
                raise AnalysisError(f"value outside the model: {norm(st)}")
            store = self.sig if isinstance(st.op, ast.MatMult) else self.nxt
            cur = store.get(k, self.sig[k])
            if isinstance(t, ast.Subscript):
                idx = self.ev(t.slice)
                store[k] = cur.replaced(idx, v)
            else:
                store[k] = BV(cur.w, cur._o(v))
            return
        if k is not None and k in self.sig:
            raise Raised(f"signal {k} written with operator {type(st.op).__name__}")
        super().aug(st)

    def store_other(self, target, value, stmt):
        raise Raised(f"plain assignment to {norm(target)} in an update block (signals are written with @= / <<=)")


def _rw_sets(block, sig_keys, me_map=None):
    """signals read / written by an update block (whole-signal granularity)"""
    rd, wr = set(), set()
    for n in ast.walk(block):
        if isinstance(n, ast.Attribute):
            k = cnorm(n)
            if k in sig_keys:
                p = parent(n)
                tgt = n
                if isinstance(p, ast.Subscript) and p.value is n:
                    tgt = p
                pp = parent(tgt)
                if isinstance(pp, ast.AugAssign) and pp.target is tgt and isinstance(pp.op, (ast.MatMult, ast.LShift)):
                    wr.add(k)
                else:
                    rd.add(k)
    return rd, wr


def _schedule(model):
    """pymtl3 runs every combinational block ONCE per evaluation, writers before readers: a topological order of the blocks
    (a block reading and writing the same signal is not iterated)"""
    info = [(b,) + _rw_sets(b, _all_keys(model)) for b in model.comb]
    order, placed = [], set()
    pending = list(info)
    while pending:
        progress = False
        for item in list(pending):
            b, rd, wr = item
            blockers = [o for o in pending if o is not item and (o[2] & rd)]
            if not blockers:
                order.append(b)
                pending.remove(item)
                progress = True
        if not progress:
            raise AnalysisError("combinational blocks depend on each other cyclically at signal granularity: outside the model "
                                "(" + ', '.join(x[0].name for x in pending) + ")")
    return order


def _all_keys(model):
    keys = set(model.sig)
    for path, ((cm, cc), cargs, call) in model.children.items():
        keys |= {path + '.out', path + '.in_', path + '.en'}
    return keys


def _run_comb(model, sig, order):
    """one pass over the scheduled blocks; returns None or an error text"""
    for b in order:
        it = SigInterp(dict(model.consts), sig)
        kind, v = it.run(b.body)
        if kind == 'raise':
            return f"{b.name} raises {v}"
    return None


class Arbiter:
    """model of one arbiter class for one nreqs, with its priority register"""
    def __init__(self, repo, cls, n):
        self.mod = repo.mod(ARB)
        self.cls = cls
        self.n = n
        self.con = self.mod.get_func(f'{cls}.construct')
        pname = self.con.args.args[1].arg if len(self.con.args.args) > 1 else None
        if pname is None:
            raise AnalysisError(f"{cls}.construct has no nreqs parameter")
        self.pname = pname
        self.model = build_model(repo, self.mod, self.con, {pname: n})
        regs = list(self.model.children.items())
        if len(regs) != 1:
            raise AnalysisError(f"{cls}: expected exactly one child component (the priority register), found {len(regs)}")
        self.reg_path, ((self.reg_mod, self.reg_cls), self.reg_args, self.reg_call) = regs[0]
        rcon = [x for x in self.reg_mod._defs_in(self.reg_cls.body) if isinstance(x, ast.FunctionDef) and x.name == 'construct'][0]
        self.reg_con = rcon
        self.reg = build_model(repo, self.reg_mod, rcon, self.reg_args)
        self.order = _schedule(self.model)
        self._drv = None
        for need in ('s.reqs', 's.grants'):
            if need.replace('s.', self.model.me + '.') not in self.model.sig:
                raise AnalysisError(f"anchor vanished: {cls}.{need}")

    def fresh(self):
        sig = {k: BV(w, 0) for k, (kind, w) in self.model.sig.items()}
        rme = self.reg.me
        for k, (kind, w) in self.reg.sig.items():
            sig[self.reg_path + k[len(rme):]] = BV(w, 0)
        sig[self.reg_path + '.reset'] = BV(1, 0)
        return sig

    def endpoint(self, e, env):
        """(signal key, index or None) of a connect operand"""
        idx = None
        if isinstance(e, ast.Subscript):
            idx = Interp(dict(env), funcs=CONST_FUNCS).ev(e.slice)
            e = e.value
        k = norm(e)
        head = k.split('.')[0]
        if head in self.model.alias:
            k = self.model.alias[head] + k[len(head):]
        return k, idx

    def reg_inputs(self):
        """bit-level drivers of the register's input ports from the connections: {(port key, bit): (signal key, bit)}"""
        drv = {}
        for a, b, env, st in self.model.connects:
            ka, ia = self.endpoint(a, env)
            kb, ib = self.endpoint(b, env)
            if isinstance(ka, str) and ka.startswith(self.reg_path + '.') and not kb.startswith(self.reg_path + '.'):
                pass
            elif kb.startswith(self.reg_path + '.') and not ka.startswith(self.reg_path + '.'):
                ka, ia, kb, ib = kb, ib, ka, ia
            else:
                raise AnalysisError(f"{self.cls}: connection outside the model: {norm(st)}")
            widths = {}
            sig0 = self.fresh()
            for k in (ka, kb):
                if k not in sig0:
                    raise Raised(f"{norm(st)}: unknown signal {k}")

            def bits(k, i):
                w = sig0[k].w
                if i is None:
                    return list(range(w))
                if isinstance(i, slice):
                    lo = 0 if i.start is None else int(i.start)
                    hi = w if i.stop is None else int(i.stop)
                    if i.step is not None or not (0 <= lo < hi <= w):
                        raise Raised(f"{norm(st)}: slice [{lo}:{hi}] of the {w}-bit signal {k}")
                    return list(range(lo, hi))
                if not 0 <= int(i) < w:
                    raise Raised(f"{norm(st)}: bit {int(i)} of the {w}-bit signal {k}")
                return [int(i)]
            ba, bb = bits(ka, ia), bits(kb, ib)
            if len(ba) != len(bb):
                raise Raised(f"{norm(st)}: connects {len(ba)} bit(s) to {len(bb)} bit(s)")
            for x, y in zip(ba, bb):
                if (ka, x) in drv:
                    raise Raised(f"{norm(st)}: bit {x} of {ka} is driven twice")
                drv[(ka, x)] = (kb, y)
        return drv

    def step(self, reqs, prio, en, reset=0):
        """(grants, priority_en, next priority) or an error text"""
        me = self.model.me
        sig = self.fresh()
        sig[f'{me}.reqs'] = BV(self.n, reqs)
        if f'{me}.en' in sig:
            sig[f'{me}.en'] = BV(1, en)
        out_k = self.reg_path + '.out'
        if out_k not in sig:
            raise AnalysisError(f"{self.reg_cls.name} has no `out` port")
        sig[out_k] = BV(sig[out_k].w, prio)
        inputs = {f'{me}.reqs', f'{me}.en', out_k}
        # the same evaluation from the opposite initial value of every wire/output: a block that reads a bit before it is
        # written (in this single scheduled pass) would see last cycle's value
        sig1 = {k: (v if k in inputs else BV(v.w, (1 << v.w) - 1)) for k, v in sig.items()}
        err = _run_comb(self.model, sig, self.order) or _run_comb(self.model, sig1, self.order)
        if err:
            return err
        stale = sorted(k for k in self.model.sig if sig[k].u != sig1[k].u)
        if stale:
            return (f"the value of {', '.join(stale)} depends on what the wires held before this evaluation (a block reads a bit "
                    f"before the single scheduled pass has written it): grants depend on the previous cycle")
        grants = sig[f'{me}.grants'].u
        try:
            if self._drv is None:
                self._drv = self.reg_inputs()
            drv = self._drv
        except Raised as ex:
            return f"connection error: {ex.what}"
        # drive register inputs
        for k, (kind, w) in self.reg.sig.items():
            key = self.reg_path + k[len(self.reg.me):]
            if kind == 'InPort':
                v = 0
                for b in range(w):
                    if (key, b) not in drv:
                        return f"bit {b} of {key} is not driven by any connection"
                    sk, sb = drv[(key, b)]
                    v |= ((sig[sk].u >> sb) & 1) << b
                sig[key] = BV(w, v)
        pen = sig[self.reg_path + '.en'].u if self.reg_path + '.en' in sig else None
        sig[self.reg_path + '.reset'] = BV(1, reset)
        nxt = {}
        for b in self.reg.ff:
            it = SigInterp(dict(self.reg.consts), sig, {self.reg.me: self.reg_path})
            kind, v = it.run(b.body)
            if kind == 'raise':
                return f"{self.reg_cls.name}.{b.name} raises {v}"
            nxt.update(it.nxt)
        if self.reg.comb:
            raise AnalysisError(f"{self.reg_cls.name}: combinational blocks in the priority register are outside the model")
        return grants, pen, nxt.get(out_k, sig[out_k]).u


def _arb(repo, cls, n):
    cache = repo.__dict__.setdefault('_c19_models', {})     # per Repo object (never shared between analysed variants)
    if (cls, n) not in cache:
        cache[(cls, n)] = Arbiter(repo, cls, n)
    return cache[(cls, n)]


def _spec_grant(n, reqs, k):
    """first requester at or after pointer position k (cyclically) as a one-hot vector; 0 when nothing requests"""
    for d in range(n):
        j = (k + d) % n
        if (reqs >> j) & 1:
            return 1 << j
    return 0


def _rotl(n, v):
    return ((v << 1) | (v >> (n - 1))) & ((1 << n) - 1)


def _b(n, v):
    return format(v, f'0{n}b')


# ---------------------------------------------------------------------------
def _uniform_in_nreqs(repo, cls):
    """the small-scope evaluation is representative only if construct() makes no case distinction on nreqs"""
    mod = repo.mod(ARB)
    con = mod.get_func(f'{cls}.construct')
    return _nonuniform(con)


def _nonuniform(con):
    pname = con.args.args[1].arg
    derived = {pname}
    changed = True
    while changed:
        changed = False
        for st in con.body:
            if isinstance(st, ast.Assign) and len(st.targets) == 1 and isinstance(st.targets[0], ast.Name) \
                    and names_in(st.value) & derived and st.targets[0].id not in derived \
                    and not (isinstance(st.value, ast.Call) and norm(st.value.func) == 'mk_bits'):
                derived.add(st.targets[0].id)
                changed = True
    hits = []
    in_assert = {id(x) for a in ast.walk(con) if isinstance(a, ast.Assert) for x in ast.walk(a)}
    blocks = [b for b in ast.walk(con) if isinstance(b, ast.FunctionDef) and b is not con]
    for n in (x for b in blocks for x in ast.walk(b)):
        bad = None
        if id(n) in in_assert:
            continue                   # a parameter check (`assert nreqs >= 2`) selects no behaviour
        if isinstance(n, (ast.If, ast.IfExp, ast.While)) and names_in(n.test) & derived:
            bad = n.test
        elif isinstance(n, ast.Compare) and names_in(n) & derived:
            bad = n
        elif isinstance(n, ast.Call) and norm(n.func) in ('min', 'max', 'abs', 'divmod') and names_in(n) & derived:
            bad = n
        elif isinstance(n, ast.BinOp) and isinstance(n.op, ast.Mod) and names_in(n.left) & derived:
            bad = n                    # `x % nreqs` is uniform modular indexing, `nreqs % k` is a case distinction
        elif isinstance(n, ast.BinOp) and isinstance(n.op, (ast.FloorDiv, ast.RShift, ast.Pow)) and names_in(n) & derived:
            bad = n
        elif isinstance(n, ast.BoolOp) and names_in(n) & derived:
            bad = n
        if bad is not None:
            hits.append(norm(bad))
    return hits


def rule_grant(repo, sizes=SMALL):
    r = RuleResult('R-C19-grant', "small scope (nreqs in %s): for all request vectors x all one-hot pointers (x en) grants == first "
                                  "requester at/after the pointer (zero iff no request), priority_en == (grants!=0)[&en], next "
                                  "pointer == rotl(grants) when enabled else unchanged, 1 under reset" % (list(sizes),))
    probe = ast.parse("def construct(s, nreqs):\n  nreqsX2 = nreqs * 2\n  @update\n  def up():\n    for i in range(min(nreqsX2, 8)):\n      pass\n").body[0]
    if not _nonuniform(probe):
        raise AnalysisError("R-C19-grant: embedded non-uniform example not recognised (checker broken)")
    for cls, has_en in CLASSES:
        mod = repo.mod(ARB)
        hits = _uniform_in_nreqs(repo, cls)
        if hits:
            raise AnalysisError(f"{cls}.construct distinguishes cases on nreqs ({hits[0]}): exhaustive evaluation for nreqs in "
                                f"{list(sizes)} is not representative of other sizes; refusing to conclude")
        for n in sizes:
            a = _arb(repo, cls, n)
            q = f'{cls}.construct'
            fails = {}
            count = 0
            for k in range(n):
                p = 1 << k
                for reqs in range(1 << n):
                    for en in ((0, 1) if has_en else (1,)):
                        count += 1
                        res = a.step(reqs, p, en, 0)
                        r.evaluations += 1
                        ctx = f"reqs={_b(n, reqs)}, pointer={_b(n, p)}" + (f", en={en}" if has_en else '')
                        if isinstance(res, str):
                            fails.setdefault('model', f"{ctx}: {res}")
                            continue
                        g, pen, nx = res
                        sg = _spec_grant(n, reqs, k)
                        if g != sg:
                            why = ("nothing is requested" if reqs == 0 else
                                   "no grant although inputs request" if g == 0 else
                                   "more than one grant" if g & (g - 1) else
                                   "grant to an input that does not request" if not (g & reqs) else
                                   "not the first requester at or after the priority pointer")
                            fails.setdefault('grants', f"{ctx}: grants={_b(n, g)}, must be {_b(n, sg)} ({why})")
                        spen = int(g != 0) & (en if has_en else 1)
                        if pen != spen:
                            fails.setdefault('priority_en', f"{ctx}, grants={_b(n, g)}: register enable is {pen}, must be {spen}"
                                             + (" (the pointer may advance only in cycles with en high)" if has_en else ''))
                        if g == sg and pen == spen:
                            snx = _rotl(n, g) if spen else p
                            if nx != snx:
                                fails.setdefault('next pointer', f"{ctx}, grants={_b(n, g)}: next pointer is {_b(n, nx)}, must be "
                                                 f"{_b(n, snx)} ({'one past the granted input' if spen else 'unchanged'})")
                            res2 = a.step(reqs, p, en, 1)
                            r.evaluations += 1
                            if isinstance(res2, str):
                                fails.setdefault('reset', f"{ctx}: {res2}")
                            elif res2[2] != 1:
                                fails.setdefault('reset', f"{ctx}, reset=1: pointer becomes {_b(n, res2[2])}, reset must restore "
                                                 f"priority to input 0 ({_b(n, 1)})")
            for what in ('grants', 'priority_en', 'next pointer', 'reset'):
                cons = f'{what} (nreqs={n}, {count} input points)'
                if 'model' in fails:
                    r.bad(mod, q, cons, f"the design does not evaluate: {fails['model']}", a.con.lineno)
                elif what in fails:
                    r.bad(mod, q, cons, fails[what], a.con.lineno)
                else:
                    r.ok(mod, q, cons)
    r.require_floor(4 * len(sizes) * 2 - 2)
    return r


def rule_grant_larger(repo):
    res = rule_grant(repo, LARGER)
    res.rule = 'R-C19-grant'
    return res


# ---------------------------------------------------------------------------
def _construct_thresholds(con):
    """integer constants that construct-level `if` statements (outside update blocks) compare the parameters with"""
    out = set()

    def scan(stmts):
        for st in stmts:
            if isinstance(st, (ast.FunctionDef, ast.ClassDef)):
                continue
            if isinstance(st, ast.If):
                out.update(n.value for n in ast.walk(st.test) if isinstance(n, ast.Constant) and isinstance(n.value, int)
                           and not isinstance(n.value, bool))
            for fld in ('body', 'orelse'):
                sub = getattr(st, fld, None)
                if isinstance(sub, list):
                    scan(sub)
            for n in ast.walk(st) if not isinstance(st, (ast.If, ast.For, ast.While)) else []:
                if isinstance(n, ast.IfExp):
                    out.update(x.value for x in ast.walk(n.test) if isinstance(x, ast.Constant) and isinstance(x.value, int)
                               and not isinstance(x.value, bool))
    scan(con.body)
    return out


def _wiring_sizes(repo, cls):
    """nreqs values for which construct() is partially evaluated: 2..16, extended beyond every threshold that a construct-level
    case distinction mentions (so that both sides of each distinction are covered)"""
    con = repo.mod(ARB).get_func(f'{cls}.construct')
    th = [t for t in _construct_thresholds(con) if 0 <= t <= 60]
    hi = max([WIRING_NS[-1]] + [t + 2 for t in th])
    return tuple(range(2, hi + 1))


def rule_wiring(repo):
    r = RuleResult('R-C19-wiring', "priority register is RegEnRst(mk_bits(nreqs), reset_value=1); grants -> register input tiles "
                                   "[0,nreqs) as rotate-left-by-one; enable is priority_en; RegEnRst: reset over enable, else hold")
    mod = repo.mod(ARB)
    for cls, has_en in CLASSES:
        q = f'{cls}.construct'
        problems = {}
        a = None
        sizes = _wiring_sizes(repo, cls)
        for n in sizes:
            try:
                a = Arbiter(repo, cls, n)
            except Raised as ex:
                problems.setdefault('model', f"nreqs={n}: {ex.what}")
                continue
            r.evaluations += 1
            me = a.model.me
            # register class / arguments
            if a.reg_cls.name != 'RegEnRst' or a.reg_mod.rel != REG:
                problems.setdefault('class', f"the priority register is a {a.reg_cls.name}: it must be a RegEnRst (reset AND enable)")
            tw = a.reg_args.get('Type')
            if tw != ('bits', n):
                problems.setdefault('type', f"nreqs={n}: register type is {tw}, must be {n} bits wide")
            rv = a.reg_args.get('reset_value', a.reg.consts.get('reset_value'))
            if isinstance(rv, bool) or rv != 1:
                problems.setdefault('reset', f"nreqs={n}: reset_value is {rv!r}, must be 1 (after reset input 0 has priority and the "
                                             f"pointer is one-hot)")
            for k, want in ((f'{me}.reqs', ('InPort', n)), (f'{me}.grants', ('OutPort', n)), (f'{me}.priority_en', ('Wire', 1))):
                if a.model.sig.get(k) != want:
                    problems.setdefault('ports', f"nreqs={n}: {k} is declared {a.model.sig.get(k)}, must be {want}")
            # connections
            try:
                drv = a.reg_inputs()
            except Raised as ex:
                problems.setdefault('tile', f"nreqs={n}: {ex.what}")
                continue
            en_drv = drv.get((a.reg_path + '.en', 0))
            if en_drv != (f'{me}.priority_en', 0):
                problems.setdefault('en', f"the register enable is driven by {en_drv}, must be {me}.priority_en")
            for j in range(n):
                d = drv.get((a.reg_path + '.in_', j))
                want = (f'{me}.grants', (j - 1) % n)
                if d is None:
                    problems.setdefault('tile', f"nreqs={n}: bit {j} of the register input is not connected: the slices do not tile "
                                                f"[0,{n})")
                elif d != want:
                    problems.setdefault('tile', f"nreqs={n}: register input bit {j} is driven by {d[0]}[{d[1]}], rotate-left-by-one "
                                                f"requires grants[{(j - 1) % n}] (pointer moves to the input after the granted one)")
        if a is None:
            r.bad(mod, q, 'priority register', problems.get('model', 'no model'), 0)
            continue
        line = a.reg_call.lineno
        checks = [('class', f'priority register class {a.reg_cls.name}'),
                  ('type', 'register type == mk_bits(nreqs)'),
                  ('reset', 'reset_value == 1'),
                  ('ports', 'reqs/grants are nreqs bits, priority_en is 1 bit'),
                  ('en', f'{a.reg_path}.en <- priority_en'),
                  ('tile', f'{a.reg_path}.in_ <- rotl(grants) (nreqs {sizes[0]}..{sizes[-1]})')]
        for key, cons in checks:
            if 'model' in problems:
                r.bad(mod, q, cons, problems['model'], line)
            elif key in problems:
                r.bad(mod, q, cons, problems[key], line)
            else:
                r.ok(mod, q, cons)
    # RegEnRst block: all four (reset, en) cases on distinguishable values
    rm = repo.mod(REG)
    rcon = rm.get_func('RegEnRst.construct')
    params = [x.arg for x in rcon.args.args[1:]]
    if params[:2] != ['Type', 'reset_value'] or len(rcon.args.defaults) != 1 or norm(rcon.args.defaults[0]) != '0':
        r.bad(rm, 'RegEnRst.construct', f"construct({', '.join(params)})", "signature must be (Type, reset_value=0): users pass the "
              "reset value as second / keyword argument", rcon.lineno)
    else:
        r.ok(rm, 'RegEnRst.construct', 'construct(Type, reset_value=0)', nontrivial=False)
    model = build_model(repo, rm, rcon, {'Type': ('bits', 3), 'reset_value': 5})
    me = model.me
    want_sig = {f'{me}.out': ('OutPort', 3), f'{me}.in_': ('InPort', 3), f'{me}.en': ('InPort', 1)}
    if model.sig != want_sig or model.comb or len(model.ff) != 1:
        r.bad(rm, 'RegEnRst.construct', 'ports / blocks', f"expected ports out, in_ (Type) and en (1 bit) and one update_ff block; "
              f"found {model.sig}, {len(model.ff)} ff / {len(model.comb)} comb blocks", rcon.lineno)
    else:
        blk = model.ff[0]
        for reset, en in itertools.product((0, 1), repeat=2):
            sig = {f'{me}.out': BV(3, 1), f'{me}.in_': BV(3, 2), f'{me}.en': BV(1, en), f'{me}.reset': BV(1, reset)}
            it = SigInterp(dict(model.consts), sig)
            kind, v = it.run(blk.body)
            r.evaluations += 1
            got = it.nxt.get(f'{me}.out', sig[f'{me}.out']).u if kind != 'raise' else f'raises {v}'
            exp = 5 if reset else 2 if en else 1
            names = {1: 'the old value (hold)', 2: 'in_', 5: 'reset_value'}
            cons = f'reset={reset}, en={en} -> {names[exp]}'
            if got == exp and not [k for k in sig if k.endswith('.out') and sig[k].u != 1]:
                r.ok(rm, f'RegEnRst.construct.{blk.name}', cons)
            else:
                r.bad(rm, f'RegEnRst.construct.{blk.name}', cons, f"with reset={reset}, en={en} the register takes "
                      f"{names.get(got, 'the value ' + str(got) + ' (out=1, in_=2, reset_value=5)')}; it must take {names[exp]} (reset has priority over enable; without enable the value "
                      f"is held)", blk.lineno)
    r.require_floor(14)
    return r


# ---------------------------------------------------------------------------
def rule_siblings(repo):
    r = RuleResult('R-C19-siblings', "RoundRobinArbiter and RoundRobinArbiterEn declare the same signals (up to en) and agree on "
                                     "grants / next pointer for every request vector and every one-hot pointer when en=1; en=0 holds")
    mod = repo.mod(ARB)
    (c0, _), (c1, _) = CLASSES
    for n in SMALL:
        a0, a1 = _arb(repo, c0, n), _arb(repo, c1, n)
        s0 = dict(a0.model.sig)
        s1 = {k: v for k, v in a1.model.sig.items() if k != f'{a1.model.me}.en'}
        s0 = {k.split('.', 1)[1]: v for k, v in s0.items()}
        s1 = {k.split('.', 1)[1]: v for k, v in s1.items()}
        cons = f'signal declarations (nreqs={n})'
        if s0 == s1 and f'{a1.model.me}.en' in a1.model.sig and a1.model.sig[f'{a1.model.me}.en'] == ('InPort', 1):
            r.ok(mod, f'{c0} / {c1}', cons)
        else:
            diff = sorted(set(s0.items()) ^ set(s1.items()))
            r.bad(mod, f'{c0} / {c1}', cons, f"the two arbiters declare different signals: {diff[:4]}", a1.con.lineno)
        bad = None
        hold = None
        for reqs, prio in itertools.product(range(1 << n), [1 << k for k in range(n)]):
            r0 = a0.step(reqs, prio, 1, 0)
            r1 = a1.step(reqs, prio, 1, 0)
            rh = a1.step(reqs, prio, 0, 0)
            r.evaluations += 3
            if r0 != r1 and bad is None:
                bad = (reqs, prio, r0, r1)
            if hold is None and (isinstance(rh, str) or rh[2] != prio or (not isinstance(r1, str) and rh[0] != r1[0])):
                hold = (reqs, prio, rh, r1)
        cons = f'agreement with en=1 (nreqs={n}, {n << n} points)'
        if bad:
            r.bad(mod, f'{c0} / {c1}', cons, f"reqs={_b(n, bad[0])}, pointer={_b(n, bad[1])}: {c0} gives (grants, enable, next) = "
                  f"{bad[2]}, {c1} with en=1 gives {bad[3]}", a1.con.lineno)
        else:
            r.ok(mod, f'{c0} / {c1}', cons)
        cons = f'en=0 holds the pointer, grants unaffected (nreqs={n})'
        if hold:
            r.bad(mod, c1, cons, f"reqs={_b(n, hold[0])}, pointer={_b(n, hold[1])}, en=0: (grants, enable, next) = {hold[2]}; the "
                  f"pointer must stay {_b(n, hold[1])} and grants must equal the en=1 grants", a1.con.lineno)
        else:
            r.ok(mod, c1, cons)
    r.require_floor(8)
    return r


# ---------------------------------------------------------------------------
# "reset restores priority to input 0" / "priority advances at the edge": the register only sees what the simulator drives.
GROUPS = ['pymtl3/passes/PassGroups.py', 'pymtl3/passes/mamba/PassGroups.py']


def rule_options(repo):
    r = RuleResult('R-C19-sim-options', "every simulation pass group hands its own option to the same-named option of the pass it "
                                        "configures (reset polarity, line trace): sim_reset() then drives the reset level the registers test")
    for rel in GROUPS:
        m = repo.mod(rel)
        for cname, cls in m.classes.items():
            meths = m.methods(cname)
            init, call = meths.get('__init__'), meths.get('__call__')
            if call is None:
                continue
            me = call.args.args[0].arg
            opts = {}          # attribute name -> __init__ parameter it stores
            if init is not None:
                ime = init.args.args[0].arg
                params = {a.arg for a in init.args.args[1:] + init.args.kwonlyargs}
                for st in ast.walk(init):
                    if isinstance(st, ast.Assign) and len(st.targets) == 1 and isinstance(st.targets[0], ast.Attribute) \
                            and norm(st.targets[0].value) == ime:
                        opts[st.targets[0].attr] = st.value.id if isinstance(st.value, ast.Name) and st.value.id in params else None
            own = {v for v in opts.values() if v}
            for c in ast.walk(call):
                if not (isinstance(c, ast.Call) and isinstance(c.func, ast.Name)):
                    continue
                rc = repo.resolve_class(m, c.func)
                if rc is None:
                    continue
                hit = repo.lookup_method(rc[0], rc[1], '__init__')
                if hit is None:
                    continue
                cinit = hit[2]
                cparams = [a.arg for a in cinit.args.args[1:]] + [a.arg for a in cinit.args.kwonlyargs]
                given = {}
                for i, a in enumerate(c.args):
                    if i < len(cinit.args.args) - 1:
                        given[cinit.args.args[1 + i].arg] = a
                for k in c.keywords:
                    if k.arg:
                        given[k.arg] = k.value
                for pn in cparams:
                    fq = f"{cname}.__call__"
                    cons = f"{c.func.id}({pn}=...)"
                    if pn in given:
                        a = given[pn]
                        if isinstance(a, ast.Attribute) and norm(a.value) == me and a.attr in opts:
                            src = opts[a.attr]
                            if pn in own and src != pn:
                                r.bad(m, fq, cons, f"`{pn}` of {c.func.id} is fed from the group's option `{src or a.attr}` although the group "
                                      f"has its own `{pn}` option: the pass runs with the wrong setting (e.g. sim_reset() drives the wrong "
                                      f"reset level and the registers are never / always reset)", c.lineno)
                            else:
                                r.ok(m, fq, cons + f" <- {me}.{a.attr}")
                        else:
                            r.ok(m, fq, cons + f" <- {norm(a)}")
                    elif pn in own:
                        r.bad(m, fq, cons, f"the group's option `{pn}` is not handed to {c.func.id}, which has an option of that name "
                              f"(its default is used whatever the user asked for)", c.lineno)
    r.require_floor(8)
    return r


def rule_clocking(repo):
    """the priority register is an update_ff block: it advances only if every update_ff block is run once per edge, before
    the flip, and the grant logic is re-evaluated after it -- shared with C07 (R-tick-order, R-C07-ffset)"""
    from rules.c07 import rule_tick_order
    return rule_tick_order(repo)


def rule_clocking_ffset(repo):
    from rules.c07 import rule_ffset
    return rule_ffset(repo)


# the arbiter's rotate-left is built from SLICE connections (grants[0:n-1] -> priority_reg.in_[1:n], grants[n-1] -> in_[0]) and its
# pointer is a flopped signal: the wiring R-C19-wiring extracts only exists in simulation if slice nets are resolved, given a
# net block that drives every reader, and the register is flipped -- also when the arbiter sits deeper in the hierarchy or is
# installed / wired after elaboration.  These clauses are decided by C08 / C07 and run here by dependency.
def rule_slice_nets_collected(repo):
    from rules.c08 import rule_collectors
    return rule_collectors(repo)


def rule_slice_nets_driven(repo):
    from rules.c08 import rule_residence
    return rule_residence(repo)


def rule_late_connections(repo):
    from rules.c08 import rule_symmetric
    return rule_symmetric(repo)


def rule_pointer_flipped(repo):
    from rules.c07 import rule_flip_cover
    return rule_flip_cover(repo)


def rule_installed_late(repo):
    """an arbiter put in place with replace_component has a CHILD (the priority register): its update_ff block, constraints and
    connections only exist at the top level if every component of the added subtree is registered -- decided by C15 (R-C15-sites)"""
    from rules.c15 import rule_sites
    r = rule_sites(repo)
    return r


def rule_cycle_settles(repo):
    """when the arbiter sits in a block-level cycle (a parent block drives reqs and reads grants) the grants equal the round-robin
    grant of the requests only if the fixed-point loop watches every signal written inside the cycle, also those written bit by
    bit (reqs[i] @= ...) -- decided by C11 (R-C11-watch)"""
    from rules.c11 import rule_watch
    return rule_watch(repo)


def rule_cycle_loop_repeats(repo):
    """with the arbiter inside a block-level cycle (one control block writes reqs / en and reads grants) the grants follow the
    requests only if the generated fixed-point loop repeats while ANY watched signal changed, under every scheduler that
    generates one -- decided by C11 (R-C11-template)"""
    from rules.c11 import rule_template
    return rule_template(repo)


def rule_request_slices_ordered(repo):
    """request inputs wired from bits / sub-ranges of a vector that update blocks write in chunks: the net block that feeds the
    arbiter runs after the blocks computing the vector only if a read slice overlapping a different written slice yields a
    writer-before-reader edge -- decided by C02 (R-C02-pairing)"""
    from rules.c02 import rule_pairing
    return rule_pairing(repo)


def rule_eval_comb_is_the_comb_schedule(repo):
    """set inputs / sim_eval_combinational() / sample grants: under every pass group the evaluation runs exactly the
    combinational schedule (all of it, nothing else) -- decided by C01 (R-C01-agree)"""
    from rules.c01 import rule_agree
    return rule_agree(repo)


def rule_every_register_clocked(repo):
    """the arbiter's priority register is an update_ff block inside a generated meta block (Mamba): the generated function must
    call every block of the meta block, or only the first arbiter of a design is ever clocked -- decided by C07
    (R-C07-meta-block-codegen)"""
    from rules.c07 import rule_meta_block_codegen
    return rule_meta_block_codegen(repo)


def rule_every_cycle_group_runs(repo):
    """several arbiters each in their own block-level cycle (or one large cycle around two arbiters): every group is re-evaluated
    by its own generated loop over its own blocks -- decided by C11 (R-C11-cover, R-C11-once, R-C11-metaname)"""
    import rules.c11 as c11
    out = []
    for rl in (c11.rule_cover, c11.rule_once, c11.rule_metaname):
        res = rl(repo)
        out.extend(res if isinstance(res, list) else [res])
    return out


def rule_no_block_dropped(repo):
    """a very branchy block upstream of the arbiter (a command decoder) must not make the scheduler drop its successors: every
    scheduler is a topological sort that loses no block -- decided by C02 (R-kahn)"""
    from rules.c02 import rule_kahn
    return rule_kahn(repo)


def rule_each_instance_wired(repo):
    """two arbiters of the same class: the net blocks that drive priority_reg.in_ from the grant slices are compiled per net
    against their own instance -- decided by C08 (R-C08-netblock)"""
    from rules.c08 import rule_netblock
    return rule_netblock(repo)


def rule_widest_arbiter_is_built(repo):
    """a round-robin arbiter of n requesters uses a 2n+1-bit kill chain: the widest arbiter the datatype admits (n = 511) needs
    every width up to 1023 to be constructible -- the bound tables of Bits cover exactly the widths the constructor accepts
    (shared with C04: R-C04-tables)"""
    from rules.c04 import rule_tables
    return rule_tables(repo)


RULES = [rule_widest_arbiter_is_built, rule_every_register_clocked, rule_every_cycle_group_runs, rule_no_block_dropped, rule_each_instance_wired, rule_cycle_loop_repeats, rule_request_slices_ordered, rule_eval_comb_is_the_comb_schedule, rule_wiring, rule_grant, rule_siblings, rule_options, rule_clocking, rule_clocking_ffset,
         rule_slice_nets_collected, rule_slice_nets_driven, rule_late_connections, rule_pointer_flipped,
         rule_installed_late, rule_cycle_settles]
THOROUGH_RULES = [rule_grant_larger]


# ---------------------------------------------------------------------------
def _m(name, old, new, rule=None, file=ARB, count=1):
    return dict(name=name, file=file, old=old, new=new, rule=rule, count=count)


_EN_PEN = "      s.priority_en @= ( s.grants != 0 ) & s.en\n"
_EN_TAIL = """      s.priority_en @= ( s.grants != 0 ) & s.en

    @update
    def comb_priority_int():
      s.priority_int[    0:nreqs  ] @= s.priority_reg.out
      s.priority_int[nreqs:nreqsX2] @= 0

    @update
    def comb_kills():
      s.kills[0] @= 1
      for i in range( nreqsX2 ):
        if s.priority_int[i]:
          s.kills[i+1] @= s.reqs_int[i]
        else:
          s.kills[i+1] @= s.kills[i] | ( ~s.kills[i] & s.reqs_int[i] )

    @update
    def comb_grants_int():
      for i in range( nreqsX2 ):
        if s.priority_int[i]:
          s.grants_int[i] @= s.reqs_int[i]
        else:
          s.grants_int[i] @= ~s.kills[i] & s.reqs_int[i]
"""

MUTANTS = [
    _m('group-reset-polarity-from-linetrace', "    HeuristicTopoPass(print_line_trace=s.print_line_trace,\n                      reset_active_high=s.reset_active_high)( top )",
       "    HeuristicTopoPass(print_line_trace=s.print_line_trace,\n                      reset_active_high=s.print_line_trace)( top )", 'R-C19-sim-options', file=GROUPS[1]),
    _m('group-reset-polarity-dropped', "    PrepareSimPass(print_line_trace=s.linetrace,\n                   reset_active_high=s.reset_active_high)( top )",
       "    PrepareSimPass(print_line_trace=s.linetrace)( top )", 'R-C19-sim-options', file=GROUPS[0]),
    _m('tick-pre-edge-comb-replaced-by-linetrace', "      final_schedule.append( top.print_line_trace )\n    final_schedule += self.collect_ff_funcs( top )\n    final_schedule += top._sched.update_schedule\n    final_schedule.append( top._sim.check_top_level_inports )\n    top.sim_tick = SimpleTickPass",
       "      final_schedule = [ top.print_line_trace ]\n    final_schedule += self.collect_ff_funcs( top )\n    final_schedule += top._sched.update_schedule\n    final_schedule.append( top._sim.check_top_level_inports )\n    top.sim_tick = SimpleTickPass", 'R-tick-order', file='pymtl3/passes/sim/PrepareSimPass.py'),
    _m('reset-value-zero', "RegEnRst( Type, reset_value = 1 )", "RegEnRst( Type, reset_value = 0 )", 'R-C19-wiring'),
    _m('en-reset-value-two', "RegEnRst( mk_bits( nreqs ), reset_value = 1 )", "RegEnRst( mk_bits( nreqs ), reset_value = 2 )", 'R-C19-wiring'),
    _m('reset-value-msb', "RegEnRst( Type, reset_value = 1 )", "RegEnRst( Type, reset_value = 1 << (nreqs-1) )", 'R-C19'),
    _m('wrap-bit-from-grant0', "connect( m.in_[0],       s.grants[nreqs-1] )", "connect( m.in_[0],       s.grants[0] )", 'R-C19-wiring'),
    _m('en-no-rotation', "    m.in_[1:nreqs] //= s.grants[0:nreqs-1]\n    m.in_[0]       //= s.grants[nreqs-1]", "    m.in_[0:nreqs-1] //= s.grants[0:nreqs-1]\n    m.in_[nreqs-1]   //= s.grants[nreqs-1]", 'R-C19-wiring'),
    _m('rotate-slice-short', "connect( m.in_[1:nreqs], s.grants[0:nreqs-1] )", "connect( m.in_[1:nreqs-1], s.grants[0:nreqs-2] )", 'R-C19-wiring'),
    _m('rotation-missing-for-two-requesters', "    connect( m.in_[1:nreqs], s.grants[0:nreqs-1] )\n", "    if nreqs > 2:\n      connect( m.in_[1:nreqs], s.grants[0:nreqs-1] )\n", 'R-C19-wiring'),
    _m('en-rotation-missing-above-twenty', "    m.in_[1:nreqs] //= s.grants[0:nreqs-1]\n", "    if nreqs <= 20:\n      m.in_[1:nreqs] //= s.grants[0:nreqs-1]\n    else:\n      m.in_[1:nreqs] //= s.grants[1:nreqs]\n", 'R-C19-wiring'),
    _m('en-enable-from-en-only', "    m.en           //= s.priority_en", "    m.en           //= s.en", 'R-C19-wiring'),
    _m('register-without-enable', None, None, 'R-C19-wiring'),
    _m('en-priority-en-or', _EN_PEN, "      s.priority_en @= ( s.grants != 0 ) | s.en\n", 'R-C19-grant'),
    _m('en-priority-en-ignores-en', _EN_PEN, "      s.priority_en @= ( s.grants != 0 )\n", 'R-C19-grant'),
    _m('priority-en-always', "      s.priority_en @= s.grants != 0\n", "      s.priority_en @= 1\n", 'R-C19-grant'),
    _m('kill-chain-starts-open', "      s.kills[0] @= 1\n", "      s.kills[0] @= 0\n", 'R-C19-grant', count='first'),
    _m('kill-chain-and', "s.kills[i+1] @= s.kills[i] | ( ~s.kills[i] & s.reqs_int[i] )", "s.kills[i+1] @= s.kills[i] & ( ~s.kills[i] | s.reqs_int[i] )", 'R-C19-grant', count='first'),
    _m('priority-position-kills-always', "          s.kills[i+1] @= s.reqs_int[i]\n", "          s.kills[i+1] @= 1\n", 'R-C19-grant', count='first'),
    _m('grant-ignores-kill', "          s.grants_int[i] @= ~s.kills[i] & s.reqs_int[i]", "          s.grants_int[i] @= s.reqs_int[i]", 'R-C19-grant', count='first'),
    _m('grant-uses-next-kill', "          s.grants_int[i] @= ~s.kills[i] & s.reqs_int[i]", "          s.grants_int[i] @= ~s.kills[i+1] & s.reqs_int[i]", 'R-C19-grant', count='first'),
    _m('wraparound-half-dropped', "        s.grants[i] @= s.grants_int[i] | s.grants_int[nreqs+i]", "        s.grants[i] @= s.grants_int[i]", 'R-C19-grant', count='first'),
    _m('doubled-requests-zeroed', "      s.reqs_int [nreqs:nreqsX2] @= s.reqs", "      s.reqs_int [nreqs:nreqsX2] @= 0", 'R-C19-grant', count='first'),
    _m('kill-loop-half', "    def comb_kills():\n      s.kills[0] @= 1\n      for i in range( nreqsX2 ):", "    def comb_kills():\n      s.kills[0] @= 1\n      for i in range( nreqs ):", 'R-C19-grant', count='first'),
    _m('kill-loop-descending', "    def comb_kills():\n      s.kills[0] @= 1\n      for i in range( nreqsX2 ):", "    def comb_kills():\n      s.kills[0] @= 1\n      for i in range( nreqsX2-1, -1, -1 ):", 'R-C19-grant', count='first'),
    _m('grants-loop-skips-last', "    def comb_grants():\n      for i in range( nreqs ):", "    def comb_grants():\n      for i in range( nreqs-1 ):", 'R-C19-grant', count='first'),
    _m('kills-wire-too-narrow', "    s.kills        = Wire( 2*nreqs + 1 )", "    s.kills        = Wire( 2*nreqs )", 'R-C19', count='first'),
    _m('en-variant-only-grant-ignores-kill', _EN_TAIL, _EN_TAIL.replace("s.grants_int[i] @= ~s.kills[i] & s.reqs_int[i]", "s.grants_int[i] @= s.reqs_int[i]"), 'R-C19-siblings'),
    _m('en-variant-only-kill-chain', _EN_TAIL, _EN_TAIL.replace("s.kills[i] | ( ~s.kills[i] & s.reqs_int[i] )", "s.kills[i]"), 'R-C19-grant'),
    _m('regenrst-enable-over-reset', "      elif s.en:  s.out <<= s.in_", "      if s.en:  s.out <<= s.in_", 'R-C19-wiring', file=REG),
    _m('regenrst-reset-to-zero', "      if s.reset: s.out <<= reset_value\n      elif s.en:", "      if s.reset: s.out <<= 0\n      elif s.en:", 'R-C19', file=REG),
    _m('regenrst-always-loads', "      elif s.en:  s.out <<= s.in_", "      else:       s.out <<= s.in_", 'R-C19-wiring', file=REG),
    _m('regenrst-enable-inverted', "      elif s.en:  s.out <<= s.in_", "      elif ~s.en: s.out <<= s.in_", 'R-C19-wiring', file=REG),
    _m('regenrst-loads-old-value', "      elif s.en:  s.out <<= s.in_", "      elif s.en:  s.out <<= s.out", 'R-C19-wiring', file=REG),
]
for _x in MUTANTS:
    if _x['name'] == 'register-without-enable':
        _x.pop('old'); _x.pop('new'); _x.pop('count'); _x.pop('file')
        _x['file'] = ARB
        _x['edits'] = [dict(file=ARB, old="from .registers import RegEnRst", new="from .registers import RegEnRst, RegRst"),
                       dict(file=ARB, old="s.priority_reg = m = RegEnRst( Type, reset_value = 1 )\n\n    connect( m.en,           s.priority_en )\n",
                            new="s.priority_reg = m = RegRst( Type, reset_value = 1 )\n\n")]

EQUIV = [
    _m('priority-en-from-reqs', "      s.priority_en @= s.grants != 0\n", "      s.priority_en @= s.reqs != 0\n"),
    _m('kill-chain-simplified', "s.kills[i+1] @= s.kills[i] | ( ~s.kills[i] & s.reqs_int[i] )", "s.kills[i+1] @= s.kills[i] | s.reqs_int[i]", count=2),
    _m('connect-operator-syntax', "connect( m.en,           s.priority_en )", "m.en //= s.priority_en"),
    _m('connect-operands-swapped', "connect( m.in_[0],       s.grants[nreqs-1] )", "connect( s.grants[nreqs-1], m.in_[0] )"),
    _m('rotation-bit-by-bit', "    connect( m.in_[1:nreqs], s.grants[0:nreqs-1] )\n    connect( m.in_[0],       s.grants[nreqs-1] )", "    for k in range( nreqs ):\n      connect( m.in_[(k+1) % nreqs], s.grants[k] )"),
    _m('register-args-positional', "RegEnRst( Type, reset_value = 1 )", "RegEnRst( mk_bits( nreqs ), 1 )"),
    _m('grant-or-commuted', "s.grants_int[i] | s.grants_int[nreqs+i]", "s.grants_int[nreqs+i] | s.grants_int[i]", count=2),
    _m('kill-branches-swapped', "        if s.priority_int[i]:\n          s.kills[i+1] @= s.reqs_int[i]\n        else:\n          s.kills[i+1] @= s.kills[i] | ( ~s.kills[i] & s.reqs_int[i] )",
       "        if ~s.priority_int[i]:\n          s.kills[i+1] @= s.kills[i] | ( ~s.kills[i] & s.reqs_int[i] )\n        else:\n          s.kills[i+1] @= s.reqs_int[i]", count='first'),
    _m('regenrst-nested-if', "      if s.reset: s.out <<= reset_value\n      elif s.en:  s.out <<= s.in_", "      if s.reset:\n        s.out <<= reset_value\n      else:\n        if s.en:\n          s.out <<= s.in_", file=REG),
    _m('pointer-copied-to-upper-half', "      s.priority_int[nreqs:nreqsX2] @= 0", "      s.priority_int[nreqs:nreqsX2] @= s.priority_reg.out", count='first'),
    _m('construct-helper-locals', "    nreqsX2 = nreqs * 2\n    Type    = mk_bits( nreqs )\n\n    s.reqs   = InPort ( Type )",
       "    assert nreqs >= 2\n    s.nreqs = nreqs\n    nreqsX2, last = nreqs * 2, nreqs - 1\n    Type    = mk_bits( s.nreqs )\n\n    s.reqs   = InPort ( Type )"),
    _m('grant-block-locals-ifexp', "        if s.priority_int[i]:\n          s.grants_int[i] @= s.reqs_int[i]\n        else:\n          s.grants_int[i] @= ~s.kills[i] & s.reqs_int[i]",
       "        req = s.reqs_int[i]\n        killed = s.kills[i]\n        s.grants_int[i] @= req if s.priority_int[i] else ~killed & req", count='first'),
    _m('rotation-guarded-correctly', "    connect( m.in_[1:nreqs], s.grants[0:nreqs-1] )\n", "    if nreqs > 1:\n      connect( m.in_[1:nreqs], s.grants[0:nreqs-1] )\n"),
    _m('en-conjuncts-swapped', _EN_PEN, "      s.priority_en @= s.en & ( s.grants != 0 )\n"),
    _m('doubling-constant-form', "    nreqsX2 = nreqs * 2\n", "    nreqsX2 = nreqs + nreqs\n", count=2),
]

LEVEL_TEXT = ("Static analysis of the arbiters' construct(): wiring facts for every nreqs (register class and reset value, "
              "rotate-left-by-one tiling evaluated for nreqs 2..16, enable connection, RegEnRst reset/enable/hold cases) and a "
              "small-scope exhaustive decision of the combinational grant function and the next-pointer function obtained by "
              "abstractly evaluating the update blocks as written over 1-bit/fixed-width values for nreqs in {2,3,4,5} (thorough "
              "tier also 6,7): all request vectors x all one-hot pointers x en. One-hotness/fairness for all nreqs and over "
              "request histories are not decided; nothing is executed or simulated.")
LEVEL_NOTE = ("Small-scope decision, not a proof for all nreqs; relies on the code being uniform in nreqs (checked; otherwise "
              "ANALYSIS-ERROR). Trusted: Bits operator semantics, scheduling to the combinational fixed point, connect(), "
              "non-blocking assignment; fairness follows from the decided grant/next-pointer functions by a mathematical argument.")
TECHNIQUE = ("partial evaluation of construct() (signals, child register, connections) + finite abstract evaluation of the update "
             "blocks (sa.minieval extended) in pymtl3's single-pass topological schedule from two opposite initial wire states, "
             "exhaustive over request x pointer x enable; sibling comparison by evaluation")
