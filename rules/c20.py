"""C20 -- FL, CL and RTL example processors agree with the ISA on every program.

Only CLAUSES of the property are decided here (table / sibling agreement of the three processor models, the
decoders, the assembler table and the ISA document, one instruction at a time; and the arithmetic of the three
checksum models).  Agreement of *executions* -- every program, every instruction adjacency, every memory latency /
stall probability / source-sink delay, i.e. the pipeline control (stalls, bypasses, squashes) -- is NOT decided.
"""
import ast
import copy

from sa.astutil import norm
from sa.errors import AnalysisError
from sa.report import RuleResult
from sa import c20_util as U
from sa.c20_util import (Cube, BV, Sym, Ext, Rec, Model, Interp, Ctx, Design, Eval, IsaDoc, MISSING, PyFunc,
                         termof, explore, instvec, Raised, Undetermined, Fork)

PID = 'C20'
DIR = 'examples/ex03_proc/'
ENC = DIR + 'tinyrv0_encoding.py'
ISA = DIR + 'tinyrv0-isa.md'
FL = DIR + 'ProcFL.py'
CL = DIR + 'ProcCL.py'
RTL = DIR + 'ProcRTL.py'
CTRL = DIR + 'ProcCtrlRTL.py'
DPATH = DIR + 'ProcDpathRTL.py'
MISC = DIR + 'MiscRTL.py'
INSTRTL = DIR + 'TinyRV0InstRTL.py'
CKDIR = 'examples/ex02_cksum/'
CK_FL = CKDIR + 'ChecksumFL.py'
CK_CL = CKDIR + 'ChecksumCL.py'
CK_RTL = CKDIR + 'ChecksumRTL.py'
CK_UTILS = CKDIR + 'utils.py'

# ---------------------------------------------------------------------------
# The frozen reference: the TinyRV0 ISA as written in examples/ex03_proc/tinyrv0-isa.md (the specification).
# name -> (instruction type, immediate type, semantics in the notation of the document, opcode, funct3, funct7)
REFERENCE = {
    'csrr': ('I', 'I', 'R[rd] = CSR[csr]', 0b1110011, 0b010, None),
    'csrw': ('I', 'I', 'CSR[csr] = R[rs1]', 0b1110011, 0b001, None),
    'add':  ('R', None, 'R[rd] = R[rs1] + R[rs2]', 0b0110011, 0b000, 0),
    'and':  ('R', None, 'R[rd] = R[rs1] & R[rs2]', 0b0110011, 0b111, 0),
    'sll':  ('R', None, 'R[rd] = R[rs1] << R[rs2][4:0]', 0b0110011, 0b001, 0),
    'srl':  ('R', None, 'R[rd] = R[rs1] >> R[rs2][4:0]', 0b0110011, 0b101, 0),
    'addi': ('I', 'I', 'R[rd] = R[rs1] + sext(imm)', 0b0010011, 0b000, None),
    'lw':   ('I', 'I', 'R[rd] = M_4B[ R[rs1] + sext(imm) ]', 0b0000011, 0b010, None),
    'sw':   ('S', 'S', 'M_4B[ R[rs1] + sext(imm) ] = R[rs2]', 0b0100011, 0b010, None),
    'bne':  ('S', 'B', 'PC = ( R[rs1] != R[rs2] ) ? PC + sext(imm) : PC + 4', 0b1100011, 0b001, None),
}
# field positions (hi, lo) of the three instruction types and the source instruction bit of every immediate bit
REF_TYPES = {
    'R': {'funct7': (31, 25), 'rs2': (24, 20), 'rs1': (19, 15), 'funct3': (14, 12), 'rd': (11, 7), 'opcode': (6, 0)},
    'I': {'imm': (31, 20), 'rs1': (19, 15), 'funct3': (14, 12), 'rd': (11, 7), 'opcode': (6, 0)},
    'S': {'rs2': (24, 20), 'rs1': (19, 15), 'funct3': (14, 12), 'opcode': (6, 0)},
}
REF_IMM = {    # bit 0 .. bit 31 of the sign-extended immediate: instruction bit or 'z'
    'I': [20, 21, 22, 23, 24, 25, 26, 27, 28, 29, 30] + [31] * 21,
    'S': [7, 8, 9, 10, 11, 25, 26, 27, 28, 29, 30] + [31] * 21,
    'B': ['z', 8, 9, 10, 11, 25, 26, 27, 28, 29, 30, 7] + [31] * 20,
}
# "csrr rd, csr == csrrs rd, csr, x0" and "csrw csr, rs1 == csrrw x0, csr, rs1": the unused register field is x0
REF_PSEUDO = {'csrr': ('rs1', 0), 'csrw': ('rd', 0)}
REF_CSR = {'proc2mngr': 0x7C0, 'mngr2proc': 0xFC0, 'xcel_lo': 0x7E0, 'xcel_hi': 0x7FF}
REF_RESET_VECTOR = 0x200
# the architectural no-op of RISC-V, listed in the encoding table: addi x0, x0, 0
NOP_WORD = 0b10011

EXPLANATION = "..."
ASSUMPTIONS = []


# ---------------------------------------------------------------------------
# effects of one instruction: the common normal form of the specification and of the three models
def new_eff():
    return dict(reg=[], mem=[], load=[], send=[], get=0, xw=[], xr=[], npc=None, illegal=None, notes=[], fetch=[])


def T(v):
    """data term with its width"""
    return (termof(v), U.widthof(v))


def _subst(t, mapping):
    if isinstance(t, tuple):
        if t in mapping:
            return mapping[t]
        return tuple(_subst(x, mapping) for x in t)
    return t


def finish(e):
    """raw event record -> comparable normal form"""
    out = {}
    notes = list(e['notes'])
    mapping = {}
    if len(e['load']) == 1:
        mapping[('dmemresp',)] = ('M', e['load'][0][0])
    elif len(e['load']) > 1:
        notes.append('more than one load request')
    if len(e['xr']) == 1:
        mapping[('xcelresp',)] = ('xcelread', e['xr'][0][0])
    elif len(e['xr']) > 1:
        notes.append('more than one accelerator read')
    regs = []
    for dest, val in e['reg']:
        if all(b == 0 for b in dest):
            continue                       # x0 is hard-wired to zero: the write has no effect
        regs.append((dest, (_subst(val[0], mapping), val[1])))
    if len(regs) > 1:
        notes.append('more than one register write')
    out['reg'] = regs[0] if regs else None
    out['mem'] = tuple(e['mem']) if e['mem'] else None
    out['load'] = tuple(e['load']) if e['load'] else None
    out['send'] = tuple(e['send']) if e['send'] else None
    out['get'] = e['get']
    out['xw'] = tuple(e['xw']) if e['xw'] else None
    out['xr'] = tuple(e['xr']) if e['xr'] else None
    out['npc'] = e['npc']
    out['illegal'] = e['illegal']
    out['notes'] = tuple(notes) if notes else None
    if e.get('resp') is not None:
        out['_resp'] = e['resp']
    return out


SLOTS = ('illegal', 'reg', 'load', 'mem', 'send', 'get', 'xw', 'xr', 'npc', 'notes')
SLOT_TEXT = {'reg': 'register write-back', 'mem': 'store', 'load': 'load request', 'send': 'proc2mngr message',
             'get': 'mngr2proc dequeue', 'xw': 'accelerator write', 'xr': 'accelerator read', 'npc': 'next PC',
             'illegal': 'illegal-instruction outcome', 'notes': 'access shape'}


def merge_paths(leaves):
    """[(trail, eff)] of one cube -> eff whose slots are if-then-else terms over the trail conditions"""
    if len(leaves) == 1:
        return leaves[0][1]
    cond = leaves[0][0][0][0]
    yes = [(tr[1:], e) for tr, e in leaves if tr and tr[0] == (cond, True)]
    no = [(tr[1:], e) for tr, e in leaves if tr and tr[0] == (cond, False)]
    if len(yes) + len(no) != len(leaves) or not yes or not no:
        raise AnalysisError("inconsistent path conditions in the case analysis")
    a, b = merge_paths(yes), merge_paths(no)
    out = {}
    for k in set(a) | set(b):
        out[k] = a.get(k) if a.get(k) == b.get(k) else ('ite', cond, a.get(k), b.get(k))
    return out


def show(t, depth=0):
    """readable rendering of a normal-form value"""
    if isinstance(t, tuple) and t and isinstance(t[0], str):
        h = t[0]
        if h == 'const':
            return hex(t[1]) if t[1] > 9 else str(t[1])
        if h == 'bv':
            return 'inst{' + bits_str(t[1]) + '}'
        if h == 'R':
            return 'R[' + bits_str(t[1]) + ']'
        if h == 'mod':
            return f"({show(t[2])} mod 2^{t[1]})"
        if h in ('add', 'and', 'or', 'xor', 'eq', 'ne', 'sub', 'shl', 'shr'):
            sym = {'add': '+', 'and': '&', 'or': '|', 'xor': '^', 'eq': '==', 'ne': '!=', 'sub': '-', 'shl': '<<', 'shr': '>>'}[h]
            return '(' + f" {sym} ".join(show(x) for x in t[1:]) + ')'
        if h == 'ite':
            return f"({show(t[1])} ? {show(t[2])} : {show(t[3])})"
        if h == 'M':
            return f"M[{show(t[1])}]"
        return h + '(' + ', '.join(show(x) for x in t[1:]) + ')'
    if isinstance(t, tuple):
        return '(' + ', '.join(show(x) for x in t) + ')'
    return str(t)


def bits_str(bits):
    """compact rendering of a source-bit vector (LSB first) as ranges"""
    out, i = [], 0
    bits = list(bits)
    while i < len(bits):
        b = bits[i]
        if isinstance(b, tuple):
            j = i
            while j + 1 < len(bits) and isinstance(bits[j + 1], tuple) and bits[j + 1][0] == b[0] and bits[j + 1][1] == bits[j][1] + 1:
                j += 1
            rep = i
            while rep + 1 < len(bits) and bits[rep + 1] == b:
                rep += 1
            if rep > i and rep - i >= j - i:
                out.append(f"{b[1]}x{rep - i + 1}")
                i = rep + 1
            else:
                out.append(f"{bits[j][1]}:{b[1]}" if j > i else f"{b[1]}")
                i = j + 1
        else:
            out.append(str(b))
            i += 1
    return ','.join(reversed(out))


# ---------------------------------------------------------------------------
# shared register-file / event model of the FL and CL processors and of the specification
class ProcModel(Model):
    def __init__(self, inst):
        self.inst = inst
        self.e = new_eff()
        self.attrs = {}

    def regidx(self, idx, what):
        if isinstance(idx, (int, bool)):
            idx = BV.const(int(idx), 5)
        if not isinstance(idx, BV) or idx.n != 5:
            raise AnalysisError(f"register file indexed by {idx!r} in {what}")
        return idx.bits

    def reg_read(self, idx, what='R[...]'):
        return Sym(('R', self.regidx(idx, what)), 32)

    def reg_write(self, idx, v, what='R[...] = '):
        if U.widthof(v) not in (32, None):
            raise AnalysisError(f"register written with a Bits{U.widthof(v)} value")
        self.e['reg'].append((self.regidx(idx, what), (termof(v), 32)))


# ---------------------------------------------------------------------------
# the specification: the semantics line of the ISA document evaluated on the fields of its diagrams
class Spec:
    def __init__(self, types, imms, csr, insts, reset_vector=None):
        self.types, self.imms, self.csr, self.insts = types, imms, csr, insts
        self.reset_vector = reset_vector

    def cube(self, name):
        """words of the instruction: fixed cells of its diagram (+ the x0 of the pseudo-instruction)"""
        c = U.FULL
        d = self.insts[name]
        for hi, lo, text in d['cells']:
            if text and all(ch in '01' for ch in text):
                if len(text) != hi - lo + 1:
                    raise AnalysisError(f"fixed field `{text}` of {name} does not fill bits {hi}:{lo}")
                c = c.fix(lo, hi + 1, int(text, 2))
        if name in REF_PSEUDO:
            fld, val = REF_PSEUDO[name]
            hi, lo = self.field(name, fld)
            c = c.fix(lo, hi + 1, val)
        return c

    def field(self, name, fld):
        for hi, lo, text in self.insts[name]['cells']:
            if text == fld:
                return hi, lo
        raise AnalysisError(f"instruction {name} has no field {fld} in the ISA document")

    def imm_vec(self, name, inst):
        it = self.insts[name]['imm']
        if it is None:
            return None
        return BV(0 if s == 'z' else inst.bits[s] for s in self.imms[it])

    def csr_class(self, v):
        """classify a (possibly partially free) 12-bit csr number"""
        lo, hi = v.lo(), v.hi()
        if lo == hi == self.csr['proc2mngr']:
            return 'proc2mngr'
        if lo == hi == self.csr['mngr2proc']:
            return 'mngr2proc'
        if self.csr['xcel_lo'] <= lo and hi <= self.csr['xcel_hi']:
            return 'xcel'
        return None

    def cases(self, name):
        """sub-cubes of an instruction on which its semantics is defined by the document"""
        c = self.cube(name)
        if 'CSR[' not in self.insts[name]['semantics'].replace(' ', ''):
            return [('', c)]
        hi, lo = self.field(name, 'csr')
        out = []
        writes = self.insts[name]['semantics'].replace(' ', '').startswith('CSR[')
        single = self.csr['proc2mngr'] if writes else self.csr['mngr2proc']
        out.append(('@proc2mngr' if writes else '@mngr2proc', c.fix(lo, hi + 1, single)))
        xl, xh = self.csr['xcel_lo'], self.csr['xcel_hi']
        free = (xl ^ xh)
        if free & (free + 1) or xl & free:
            raise AnalysisError("accelerator CSR range is not an aligned power-of-two block")
        k = free.bit_length()
        out.append(('@xcel', c.fix(lo + k, hi + 1, xl >> k)))
        return out

    def run(self, repo, name, cube, ctx):
        inst = instvec(cube)
        d = self.insts[name]
        spec = self
        pm = ProcModel(inst)
        pc = Sym(('pc',), 32)
        env = {}
        for hi, lo, text in d['cells']:
            if text and text not in ('imm',) and not all(ch in '01' for ch in text):
                env[text] = BV(inst.bits[lo:hi + 1])
        imm = self.imm_vec(name, inst)
        if imm is not None and 'csr' not in env:
            env['imm'] = imm
        env['PC'] = pc

        class M(Model):
            def name(self_, n):
                if n in ('R', 'M_4B', 'CSR'):
                    return Ext(n)
                if n == 'sext':
                    def sx(v):
                        if not isinstance(v, BV) or v.n != 32:
                            raise AnalysisError("sext() of the document applied to something else than the immediate")
                        return v
                    return PyFunc(sx)
                return MISSING

            def getitem(self_, path, idx):
                if path == 'R':
                    return pm.reg_read(idx)
                if path == 'M_4B':
                    pm.e['load'].append((T(idx),))
                    return Sym(('dmemresp',), 32)
                if path == 'CSR':
                    k = spec.csr_class(idx)
                    if k == 'mngr2proc':
                        pm.e['get'] += 1
                        return Sym(('mngr2proc',), 32)
                    if k == 'xcel':
                        pm.e['xr'].append((T(U.do_slice(idx, 0, 5)),))
                        return Sym(('xcelresp',), 32)
                    raise AnalysisError(f"CSR read of {idx!r} is not defined by the document")
                raise AnalysisError(path)

            def setitem(self_, path, idx, v):
                if path == 'R':
                    pm.reg_write(idx, v)
                elif path == 'M_4B':
                    pm.e['mem'].append((T(idx), T(v)))
                elif path == 'CSR':
                    k = spec.csr_class(idx)
                    if k == 'proc2mngr':
                        pm.e['send'].append(T(v))
                    elif k == 'xcel':
                        pm.e['xw'].append((T(U.do_slice(idx, 0, 5)), T(v)))
                    else:
                        raise AnalysisError(f"CSR write of {idx!r} is not defined by the document")
                else:
                    raise AnalysisError(path)

        it = Interp(repo, repo.mod(ENC), ctx, M(), env, doc_slices=True, self_name=None)
        it.stmt(d['ast'])
        npc = it.env['PC']
        if npc is pc:
            npc = U.binop('add', pc, 4)         # "Unless otherwise specified assume instruction updates PC with PC+4"
        pm.e['npc'] = T(npc)
        pm.e['illegal'] = None
        return finish(pm.e)


def reference_spec():
    insts = {}
    for name, (ty, imm, sem, opc, f3, f7) in REFERENCE.items():
        fields = dict(REF_TYPES[ty])
        cells = []
        for fld, (hi, lo) in fields.items():
            text = fld
            if fld == 'opcode':
                text = format(opc, '07b')
            elif fld == 'funct3':
                text = format(f3, '03b')
            elif fld == 'funct7':
                text = format(f7, '07b')
            elif fld == 'imm' and 'CSR' in sem:
                text = 'csr'
            cells.append((hi, lo, text))
        insts[name] = dict(cells=cells, imm=imm, semantics=sem, ast=U.parse_semantics(sem), type=ty)
    return Spec(REF_TYPES, REF_IMM, dict(REF_CSR), insts, REF_RESET_VECTOR)


_doc_cache = {}


def doc_spec(repo):
    text = repo.src(ISA)
    key = hash(text)
    if key in _doc_cache:
        return _doc_cache[key]
    doc = IsaDoc(text)
    types = {}
    for ty in ('R', 'I', 'S'):
        types[ty] = {text: (hi, lo) for hi, lo, text in IsaDoc.diagram(doc.section(ty + '-type')) if text != 'imm' or ty == 'I'}
    imms = {}
    for it in ('I', 'S', 'B'):
        vec = [None] * 32
        for hi, lo, text in IsaDoc.diagram(doc.section(it + '-immediate')):
            n = hi - lo + 1
            if text.startswith('<--'):
                src = [int(text[3:].strip())] * n
            elif text == 'z':
                src = ['z'] * n
            elif ':' in text:
                a, b = (int(x) for x in text.split(':'))
                src = list(range(b, a + 1))
            else:
                src = [int(text)]
            if len(src) != n:
                raise AnalysisError(f"{it}-immediate cell `{text}` does not fill bits {hi}:{lo}")
            vec[lo:hi + 1] = src
        if None in vec:
            raise AnalysisError(f"{it}-immediate diagram does not cover 32 bits")
        imms[it] = vec
    table = doc.csr_table()
    xc = sorted(v for k, (_, v) in table.items() if k.startswith('xcelreg'))
    for k in ('proc2mngr', 'mngr2proc'):
        if k not in table:
            raise AnalysisError(f"anchor vanished: CSR {k} in the ISA document")
    if not xc:
        raise AnalysisError("anchor vanished: accelerator CSRs in the ISA document")
    csr = dict(proc2mngr=table['proc2mngr'][1], mngr2proc=table['mngr2proc'][1], xcel_lo=xc[0], xcel_hi=xc[-1])
    insts = {}
    for name in doc.detailed_instructions():
        d = doc.instruction(name)
        fmt = [x.strip() for x in d['format'].split(',')]
        ty = fmt[0].split('-')[0]
        imm = fmt[1].split('-')[0] if len(fmt) > 1 else None
        insts[name] = dict(cells=d['diagram'], imm=imm, semantics=d['semantics'], ast=U.parse_semantics(d['semantics']),
                           type=ty)
    rv = None
    for ln in doc.section('Reset Vector'):
        import re
        m = re.search(r'reset vector at\s+(0x[0-9a-fA-F]+)', ln)
        if m:
            rv = int(m.group(1), 16)
    sp = Spec(types, imms, csr, insts, rv)
    sp.listed = doc.instruction_list()
    _doc_cache[key] = sp
    return sp


# ---------------------------------------------------------------------------
# the assembler / disassembler table
def encoding_table(repo):
    m = repo.mod(ENC)
    node = m.assigns.get('tinyrv0_encoding_table')
    if node is None:
        raise AnalysisError("anchor vanished: tinyrv0_encoding_table")
    rows = Interp(repo, m, self_name=None).ev(node)
    out = []
    for row in rows:
        if not (isinstance(row, list) and len(row) == 3 and isinstance(row[0], str) and
                all(isinstance(x, int) for x in row[1:])):
            raise AnalysisError("row of tinyrv0_encoding_table is not [template, mask, match]")
        name = row[0].partition(' ')[0]
        if row[2] & ~row[1]:
            out.append((name, row[0], None, row[1], row[2]))
        else:
            out.append((name, row[0], Cube(row[1], row[2]), row[1], row[2]))
    return m, out


# ---------------------------------------------------------------------------
# FL processor
class FLModel(ProcModel):
    def __init__(self, inst):
        super().__init__(inst)
        self.pc = Sym(('pc',), 32)

    def get(self, path):
        if path == 's.reset':
            return 0
        if path == 's.PC':
            return self.pc
        return self.attrs.get(path, MISSING)

    def set(self, path, v):
        if path == 's.PC':
            self.pc = v
        else:
            self.attrs[path] = v

    def sig_write(self, path, v, ff):
        self.attrs[path] = v

    def getitem(self, path, idx):
        if path == 's.R':
            return self.reg_read(idx)
        raise AnalysisError(f"subscript of {path} in the FL processor")

    def setitem(self, path, idx, v):
        if path == 's.R':
            return self.reg_write(idx, v)
        raise AnalysisError(f"subscript assignment to {path} in the FL processor")

    def call(self, path, args, kwargs):
        e = self.e
        if kwargs:
            raise AnalysisError(f"keyword arguments in the call of {path}")
        if path == 's.imem.read' and len(args) == 2:
            e['fetch'].append((T(args[0]), args[1]))
            return self.inst
        if path == 's.dmem.read' and len(args) == 2:
            if args[1] != 4:
                e['notes'].append(f"load of {args[1]} bytes")
            e['load'].append((T(args[0]),))
            return Sym(('dmemresp',), 32)
        if path == 's.dmem.write' and len(args) == 3:
            if args[1] != 4:
                e['notes'].append(f"store of {args[1]} bytes")
            e['mem'].append((T(args[0]), T(args[2])))
            return None
        if path == 's.proc2mngr' and len(args) == 1:
            e['send'].append(T(args[0]))
            return None
        if path == 's.mngr2proc' and not args:
            e['get'] += 1
            return Sym(('mngr2proc',), 32)
        if path == 's.xcel.read' and len(args) == 1:
            e['xr'].append((T(args[0]),))
            return Sym(('xcelresp',), 32)
        if path == 's.xcel.write' and len(args) == 2:
            e['xw'].append((T(args[0]), T(args[1])))
            return None
        raise AnalysisError(f"call of {path} with {len(args)} arguments outside the FL interface model")


def fl_block(repo):
    m = repo.mod(FL)
    construct = m.get_func('ProcFL.construct')
    blocks = [st for st in construct.body if isinstance(st, ast.FunctionDef) and
              any(norm(d).split('.')[-1].startswith('update') for d in st.decorator_list)]
    if len(blocks) != 1:
        raise AnalysisError(f"ProcFL.construct has {len(blocks)} update blocks, expected the single execute block")
    return m, construct, blocks[0]


def run_fl(repo, cube, ctx):
    m, construct, blk = fl_block(repo)
    model = FLModel(instvec(cube))
    it = Interp(repo, m, ctx, model, self_name=construct.args.args[0].arg)
    e = model.e
    try:
        try:
            it.run(blk.body)
        except U._Return:
            e['notes'].append('execute block returns early')
    except Raised as r:
        e['illegal'] = 'raises'
    pc = Sym(('pc',), 32)
    if e['illegal'] is None:
        if len(e['fetch']) != 1 or e['fetch'][0] != (T(pc), 4):
            e['notes'].append('instruction fetch is not a 4-byte read at PC')
    e['npc'] = T(model.pc)
    return finish(e)


# ---------------------------------------------------------------------------
# message constructors (field order read from the message definitions)
def msg_fields(repo, mod, factory):
    """mk_mem_msg / mk_xcel_msg -> field names of the *request* message in declaration order"""
    r = repo.resolve(mod, factory)
    if r is None or not isinstance(r[1], ast.FunctionDef):
        raise AnalysisError(f"cannot resolve {factory}")
    fm, f = r
    ret = [n for n in ast.walk(f) if isinstance(n, ast.Return)]
    if len(ret) != 1 or not isinstance(ret[0].value, ast.Tuple) or not isinstance(ret[0].value.elts[0], ast.Call):
        raise AnalysisError(f"{factory} does not return (request type, response type)")
    r2 = repo.resolve(fm, norm(ret[0].value.elts[0].func))
    if r2 is None or not isinstance(r2[1], ast.FunctionDef):
        raise AnalysisError(f"cannot resolve the request-message factory of {factory}")
    cls = [n for n in ast.walk(r2[1]) if isinstance(n, ast.ClassDef)]
    if len(cls) != 1:
        raise AnalysisError(f"request-message factory of {factory} does not define one class")
    fields = [st.target.id for st in cls[0].body if isinstance(st, ast.AnnAssign) and isinstance(st.target, ast.Name)]
    if not fields:
        raise AnalysisError(f"request message of {factory} has no fields")
    return fields


def msg_ctor(kind, fields):
    def mk(*args, **kwargs):
        if len(args) > len(fields):
            raise AnalysisError(f"{kind} message built with {len(args)} positional arguments")
        d = {f: 0 for f in fields}
        d.update(dict(zip(fields, args)))
        for k, v in kwargs.items():
            if k not in d:
                raise AnalysisError(f"{kind} message has no field {k}")
            d[k] = v
        return Rec(kind, **d)
    return PyFunc(mk)


def msg_names(repo, mod, construct):
    """local names bound to request-message classes in a construct: name -> PyFunc"""
    out = {}
    for st in construct.body:
        if isinstance(st, ast.Assign) and isinstance(st.value, ast.Call) and isinstance(st.targets[0], ast.Tuple):
            fn = norm(st.value.func)
            if fn in ('mk_mem_msg', 'mk_xcel_msg') and isinstance(st.targets[0].elts[0], ast.Name):
                kind = 'memreq' if fn == 'mk_mem_msg' else 'xcelreq'
                out[st.targets[0].elts[0].id] = msg_ctor(kind, msg_fields(repo, mod, fn))
    return out


def record_memreq(e, msg, ifc):
    """a request message sent on the data-memory / accelerator interface -> events"""
    if not isinstance(msg, Rec):
        raise AnalysisError(f"{ifc} request is not a message object")
    ty = msg.fields.get('type_')
    if isinstance(ty, BV):
        if not ty.concrete():
            raise Undetermined(ty.first_free())
        ty = ty.value()
    if not isinstance(ty, int):
        raise AnalysisError(f"{ifc} request type is not a constant")
    if msg.kind == 'memreq':
        ln = msg.fields.get('len', 0)
        if isinstance(ln, BV) and ln.concrete():
            ln = ln.value()
        if ln not in (0, 4):
            e['notes'].append(f"memory access of length {ln}")
        if ty == 0:
            e['load'].append((T(msg.fields['addr']),))
        elif ty == 1:
            e['mem'].append((T(msg.fields['addr']), T(msg.fields['data'])))
        else:
            e['notes'].append(f"memory request of type {ty}")
    else:
        if ty == 0:
            e['xr'].append((T(msg.fields['addr']),))
        elif ty == 1:
            e['xw'].append((T(msg.fields['addr']), T(msg.fields['data'])))
        else:
            e['notes'].append(f"accelerator request of type {ty}")


# ---------------------------------------------------------------------------
# CL processor: one instruction flows through fetch -> execute -> write-back -> next fetch
_design_cache = {}


def design(repo, rel, cls):
    key = (id(repo), rel, cls)
    if key not in _design_cache:
        _design_cache[key] = Design(repo, rel, cls)
    return _design_cache[key]


class CLModel(ProcModel):
    def __init__(self, inst, d, names):
        super().__init__(inst)
        self.d = d
        self.names = names
        top = d.top
        self.attrs = {'s.' + k[1:]: v for k, v in top.consts.items() if k.startswith('@') and
                      (isinstance(v, (int, BV, U.EnumTok)) or v is None)}
        self.pc_attr = None
        self.queues = {}
        self.roles = {}
        for p, info in d.insts.items():
            if p and info.kind == 'opaque':
                for mname, sl in d.members((p + '.enq', None)):
                    if mname in ('imem.resp', 'dmem.resp', 'xcel.resp', 'mngr2proc'):
                        self.roles['s.' + p] = mname
        self.outstanding = {'imem.resp': 0, 'dmem.resp': 0, 'xcel.resp': 0}
        self.e['resp'] = {'dmem.resp': 0, 'xcel.resp': 0}

    def name(self, n):
        return self.names.get(n, MISSING)

    def get(self, path):
        if path == 's.reset':
            return 0
        return self.attrs.get(path, MISSING)

    def set(self, path, v):
        self.attrs[path] = v

    def sig_write(self, path, v, ff):
        self.attrs[path] = v

    def getitem(self, path, idx):
        if path == 's.R':
            return self.reg_read(idx)
        raise AnalysisError(f"subscript of {path} in the CL processor")

    def setitem(self, path, idx, v):
        if path == 's.R':
            return self.reg_write(idx, v)
        raise AnalysisError(f"subscript assignment to {path} in the CL processor")

    def _avail(self, q):
        if self.queues.get(q):
            return True
        role = self.roles.get(q)
        if role == 'mngr2proc':
            return True
        return bool(role) and self.outstanding[role] > 0

    def _head(self, q, pop):
        if self.queues.get(q):
            return self.queues[q].pop(0) if pop else self.queues[q][0]
        role = self.roles.get(q)
        if role == 'mngr2proc':
            if pop:
                self.e['get'] += 1
            return Sym(('mngr2proc',), 32)
        if role and self.outstanding[role] > 0:
            if pop:
                self.outstanding[role] -= 1
                if role in self.e['resp']:
                    self.e['resp'][role] += 1
            data = {'imem.resp': self.inst, 'dmem.resp': Sym(('dmemresp',), 32), 'xcel.resp': Sym(('xcelresp',), 32)}[role]
            return Rec(role, data=data)
        raise AnalysisError(f"{q} is read while it is empty in the single-instruction flow")

    def call(self, path, args, kwargs):
        e = self.e
        if kwargs:
            raise AnalysisError(f"keyword arguments in the call of {path}")
        if path.endswith('.deq.rdy') and not args:
            return self._avail(path[:-len('.deq.rdy')])
        if path.endswith('.rdy') and not args:
            return True
        if path.endswith('.enq') and len(args) == 1:
            self.queues.setdefault(path[:-4], []).append(args[0])
            return None
        if path.endswith('.peek') and not args:
            return self._head(path[:-5], False)
        if path.endswith('.deq') and not args:
            return self._head(path[:-4], True)
        if path == 's.imem.req' and len(args) == 1:
            msg = args[0]
            if not isinstance(msg, Rec) or msg.fields.get('type_') != 0:
                e['notes'].append('instruction fetch is not a read request')
            e['fetch'].append((T(msg.fields['addr']), 4))
            self.outstanding['imem.resp'] += 1
            return None
        if path == 's.dmem.req' and len(args) == 1:
            record_memreq(e, args[0], 'dmem')
            self.outstanding['dmem.resp'] += 1
            return None
        if path == 's.xcel.req' and len(args) == 1:
            record_memreq(e, args[0], 'xcel')
            self.outstanding['xcel.resp'] += 1
            return None
        if path == 's.proc2mngr' and len(args) == 1:
            e['send'].append(T(args[0]))
            return None
        raise AnalysisError(f"call of {path} with {len(args)} arguments outside the CL interface model")


def cl_blocks(repo):
    d = design(repo, CL, 'ProcCL')
    m = repo.mod(CL)
    construct = m.get_func('ProcCL.construct')
    fetch = execute = wb = None
    for b in d.top.blocks:
        calls = [norm(n.func) for n in ast.walk(b.func) if isinstance(n, ast.Call)]
        sname = construct.args.args[0].arg
        if f'{sname}.imem.req' in calls:
            fetch = b
        elif any(c.endswith('TinyRV0Inst') for c in calls):
            execute = b
        else:
            wb = b
    if not (fetch and execute and wb) or len(d.top.blocks) != 3:
        raise AnalysisError("ProcCL no longer consists of a fetch, an execute and a write-back block")
    return d, m, construct, fetch, execute, wb


def cl_pc_attr(fetch, sname):
    """the program counter of the CL model: the attribute the fetch block advances"""
    cands = {norm(n.target) for n in ast.walk(fetch.func) if isinstance(n, ast.AugAssign) and isinstance(n.op, ast.Add)
             and isinstance(n.target, ast.Attribute) and norm(n.target.value) == sname}
    if len(cands) != 1:
        raise AnalysisError("cannot identify the program counter of ProcCL (the attribute its fetch block advances)")
    return cands.pop()


def run_cl(repo, cube, ctx):
    d, m, construct, fetch, execute, wb = cl_blocks(repo)
    names = msg_names(repo, m, construct)
    model = CLModel(instvec(cube), d, names)
    sname = construct.args.args[0].arg
    model.pc_attr = cl_pc_attr(fetch, sname)
    model.attrs[model.pc_attr] = Sym(('pc',), 32)
    e = model.e
    pc = Sym(('pc',), 32)

    def go(b):
        it = Interp(repo, m, ctx, model, self_name=sname)
        try:
            it.run(b.func.body)
        except U._Return:
            pass

    try:
        go(fetch)
        if e['fetch'] != [(T(pc), 4)]:
            e['notes'].append('instruction fetch is not a read request at pc')
        go(execute)
        go(wb)
        n_before = len(e['fetch'])
        go(fetch)
        if len(e['fetch']) != n_before + 1:
            e['notes'].append('no fetch follows the instruction')
        else:
            e['npc'] = e['fetch'][-1][0]
    except Raised:
        e['illegal'] = 'raises'
    for q, items in model.queues.items():
        # everything the instruction put into an internal queue must have been consumed by a later stage,
        # except the pc handed over by the *next* fetch
        pass
    fin = finish(e)
    for role, slot in (('dmem.resp', 'dmem'), ('xcel.resp', 'xcel')):
        sent = len(e['load']) + len(e['mem']) if role == 'dmem.resp' else len(e['xr']) + len(e['xw'])
        if e['resp'][role] != sent:
            fin['notes'] = (fin['notes'] or ()) + (f"{sent} {slot} requests but {e['resp'][role]} responses consumed",)
    fin.pop('_resp', None)
    return fin


# ---------------------------------------------------------------------------
# RTL processor: control row (ProcCtrl) composed with the datapath (ProcDpath) through ProcRTL's wiring
FLOW = (('val_', 1), ('stall_', 0), ('squash_', 0), ('ostall_', 0), ('osquash_', 0))


class RtlSetup:
    """what is fixed per source tree (not per case): the netlist, the role of every boundary signal"""
    def __init__(self, repo):
        self.repo = repo
        d = self.d = design(repo, RTL, 'ProcRTL')
        self.over = {}
        roles = {}
        for p, info in d.insts.items():
            if not p or '.' in p or info.kind != 'opaque':
                continue
            for end, names in (('.enq', ('imem.resp', 'dmem.resp', 'xcel.resp', 'mngr2proc')), ('.deq', ('imem.req',))):
                for mname, sl in d.members((p + end, None)):
                    if mname in names:
                        roles[mname] = p
        for need in ('imem.resp', 'dmem.resp', 'xcel.resp', 'mngr2proc', 'imem.req'):
            if need not in roles:
                raise AnalysisError(f"ProcRTL: no queue is connected to its {need} interface")
        self.roles = roles
        # ready inputs: everything flows
        for (name, sl) in list(d.parent):
            if sl is None and name.endswith('.rdy'):
                info, local = d.owner(name)
                if info.kind == 'opaque' or info.path == '':
                    self.over[name] = BV.const(1, 1)
        # steady-flow abstraction of the control unit's pipeline bookkeeping
        for p, info in d.insts.items():
            if info.kind == 'src':
                for b in info.blocks:
                    for w in b.writes:
                        for prefix, val in FLOW:
                            if w.startswith(prefix):
                                self.over[d._full(info, w)] = BV.const(val, 1)
        # the architectural program counter: the register that latches the fetch address
        fetch_addr = roles['imem.req'] + '.enq.msg.addr'
        self.fetch_addr = fetch_addr
        pcs = []
        for (name, sl) in d.members((fetch_addr, None)):
            info, local = d.owner(name)
            if info.kind == 'native' and local == 'in_' and info.cls.name.startswith('Reg'):
                pcs.append(info)
        if len(pcs) != 1:
            raise AnalysisError("ProcRTL: cannot identify the PC register (the register latching the fetch address)")
        self.pcreg = pcs[0]
        self.over[self.pcreg.path + '.out'] = Sym(('pc',), 32)
        rfs = [i for i in d.insts.values() if i.kind == 'native' and i.cls.name == 'RegisterFile']
        if len(rfs) != 1:
            raise AnalysisError("ProcRTL: expected exactly one register file")
        self.rf = rfs[0]
        self.incr = [i for i in d.insts.values() if i.kind == 'native' and i.cls.name == 'Incrementer']
        # operand bypass muxes (a mux with an input fed by a register-file read port) are assumed to deliver the
        # architectural register value: hazard resolution is pipeline control, which is not decided here
        self.alias = {}
        for i in d.insts.values():
            if i.kind == 'native' and i.cls.name == 'Mux':
                for (name, sl) in list(d.parent):
                    if sl is None and name.startswith(i.path + '.in_['):
                        for mname, msl in d.members((name, None)):
                            if msl is None and mname.startswith(self.rf.path + '.rdata['):
                                self.alias[i.path + '.out'] = mname
        self.bypass_muxes = sorted(self.alias)


_rtl_setup = {}


def rtl_setup(repo):
    if id(repo) not in _rtl_setup:
        _rtl_setup[id(repo)] = RtlSetup(repo)
    return _rtl_setup[id(repo)]


def _bit(v, what):
    if isinstance(v, (int, bool)):
        return int(v)
    if isinstance(v, BV):
        if not v.concrete():
            raise Undetermined(v.first_free())
        return v.value()
    raise AnalysisError(f"{what} is not a constant in the evaluated case: {v!r}")


def run_rtl(repo, cube, ctx):
    st = rtl_setup(repo)
    d = st.d
    over = dict(st.over)
    q = st.roles
    over[q['imem.resp'] + '.deq.ret.data'] = instvec(cube)
    over[q['dmem.resp'] + '.deq.ret.data'] = Sym(('dmemresp',), 32)
    over[q['xcel.resp'] + '.deq.ret.data'] = Sym(('xcelresp',), 32)
    over[q['mngr2proc'] + '.deq.ret'] = Sym(('mngr2proc',), 32)
    ev = Eval(d, over, ctx, alias=st.alias)
    for p in d.insts:
        ev.over[(p + '.reset') if p else 'reset'] = BV.const(0, 1)
    e = new_eff()
    rf = st.rf.path
    if _bit(ev.value(rf + '.wen[0]'), 'register-file write enable'):
        waddr = ev.value(rf + '.waddr[0]')
        if not isinstance(waddr, BV) or waddr.n != 5:
            raise AnalysisError("register-file write address is not a 5-bit instruction field")
        e['reg'].append((waddr.bits, T(ev.value(rf + '.wdata[0]'))))
    if _bit(ev.value('dmem.req.en'), 'dmem request enable'):
        msg = Rec('memreq', type_=ev.value('dmem.req.msg.type_'), addr=ev.value('dmem.req.msg.addr'),
                  data=ev.value('dmem.req.msg.data'), len=0)
        record_memreq(e, msg, 'dmem')
    if _bit(ev.value('xcel.req.en'), 'xcel request enable'):
        msg = Rec('xcelreq', type_=ev.value('xcel.req.msg.type_'), addr=ev.value('xcel.req.msg.addr'),
                  data=ev.value('xcel.req.msg.data'))
        record_memreq(e, msg, 'xcel')
    if _bit(ev.value('proc2mngr.en'), 'proc2mngr enable'):
        e['send'].append(T(ev.value('proc2mngr.msg')))
    if _bit(ev.value(q['mngr2proc'] + '.deq.en'), 'mngr2proc dequeue enable'):
        e['get'] += 1
    e['npc'] = T(ev.value(st.fetch_addr))
    e['illegal'] = None
    fin = finish(e)
    for role, slot, sent in (('dmem.resp', 'dmem', len(e['load']) + len(e['mem'])),
                             ('xcel.resp', 'xcel', len(e['xr']) + len(e['xw']))):
        got = _bit(ev.value(q[role] + '.deq.en'), f'{slot} response dequeue enable')
        if got != sent:
            fin['notes'] = (fin['notes'] or ()) + (f"{sent} {slot} requests but {got} responses consumed",)
    fin['_blocks'] = ev.blocks_run
    return fin


# ---------------------------------------------------------------------------
# comparison machinery
def diff_eff(want, got):
    out = []
    for k in SLOTS:
        if want.get(k) != got.get(k):
            out.append((k, want.get(k), got.get(k)))
    return out


def compare_case(cube, run_want, run_got, stats):
    """refine `cube` until both evaluations are uniform on every part; returns [(part, diffs)]"""
    work, out = [cube], []
    while work:
        c = work.pop()
        a = explore(c, run_want)
        b = explore(c, run_got)
        stats[0] += len(a) + len(b)
        ca, cb = {x[0] for x in a}, {x[0] for x in b}
        if ca != {c} or cb != {c}:
            parts = cb if len(cb) > 1 else ca
            work.extend(sorted(parts))
            continue
        ea = merge_paths([(tr, e) for _, tr, e in a])
        eb = merge_paths([(tr, e) for _, tr, e in b])
        out.append((c, diff_eff(ea, eb)))
    return out


def describe(diffs):
    k, want, got = diffs[0]
    return (f"{SLOT_TEXT[k]} differs: the ISA gives {show(want) if want is not None else 'none'}, "
            f"the model gives {show(got) if got is not None else 'none'}"
            + (f" (+{len(diffs) - 1} more differing slots)" if len(diffs) > 1 else ''))


def spec_cases(spec):
    """all (instruction, case tag, cube) on which the document defines the behaviour + the no-op word"""
    out = []
    for name in spec.insts:
        for tag, c in spec.cases(name):
            out.append((name, tag, c))
    return out


def nop_cube(spec):
    """addi x0, x0, 0: the addi word whose free fields are all zero"""
    c = spec.cube('addi')
    return Cube((1 << 32) - 1, c.match)


def semantics_rule(repo, rid, clause, run_model, where_mod, where_fn, floor):
    r = RuleResult(rid, clause)
    spec = doc_spec(repo)
    stats = [0]
    mod = repo.mod(where_mod)
    cases = spec_cases(spec)
    if 'addi' in spec.insts:
        cases.append(('addi', ' (the no-op word addi x0,x0,0)', nop_cube(spec)))
    for name, tag, cube in cases:
        parts = compare_case(cube, lambda cu, ctx: spec.run(repo, name, cu, ctx),
                             lambda cu, ctx: run_model(repo, cu, ctx), stats)
        bad = [(c, d) for c, d in parts if d]
        cons = f"{name}{tag}: {spec.insts[name]['semantics']}"
        if bad:
            c, d = bad[0]
            r.bad(mod, where_fn, cons,
                  f"instruction words {c}: {describe(d)}. Every program executing such an instruction computes a "
                  f"different architectural state than the ISA interpreter.")
        else:
            r.ok(mod, where_fn, cons, note=f"{len(parts)} uniform sub-cubes")
    r.evaluations = stats[0]
    r.require_floor(floor)
    return r


def rule_fl(repo):
    return semantics_rule(repo, 'R-C20-fl',
                          "ProcFL: decode (TinyRV0Inst.name) + execute branch of every instruction denotes the ISA semantics "
                          "(same operation, operands, immediate bits, destination, memory/manager/accelerator access, next PC)",
                          run_fl, FL, 'ProcFL.construct.up_ProcFL', 13)


def rule_cl(repo):
    return semantics_rule(repo, 'R-C20-cl',
                          "ProcCL: one instruction flowing through fetch, execute and write-back denotes the ISA semantics",
                          run_cl, CL, 'ProcCL.construct', 13)


def rule_rtl(repo):
    r = semantics_rule(repo, 'R-C20-rtl',
                       "ProcRTL: decoder output -> control-table row -> datapath (immediate generator, operand muxes, ALU "
                       "function table, write-back mux, memory/manager/accelerator ports) composed through the wiring of "
                       "ProcRTL denotes the ISA semantics, in the steady-flow abstraction (no stall, no squash, no bypass)",
                       run_rtl, CTRL, 'ProcCtrl.construct.comb_control_table_D', 13)
    st = rtl_setup(repo)
    r.observations.append(f"steady-flow abstraction: {len(st.over)} boundary/bookkeeping signals fixed, operand bypass "
                          f"muxes treated as register reads: {', '.join(st.bypass_muxes)}")
    if len(st.bypass_muxes) < 2:
        raise AnalysisError("R-C20-rtl: the two operand paths from the register file were not found")
    return r
