"""C20 -- FL, CL and RTL example processors agree with the ISA on every program.

Only CLAUSES of the property are decided here (table / sibling agreement of the three processor models, the
decoders, the assembler table and the ISA document, one instruction at a time; and the arithmetic of the three
checksum models).  Agreement of *executions* -- every program, every instruction adjacency, every memory latency /
stall probability / source-sink delay, i.e. the pipeline control (stalls, bypasses, squashes) -- is NOT decided.
"""
import ast

from sa.astutil import norm
from sa.errors import AnalysisError
from sa.report import RuleResult
from sa import c20_util as U
from sa.c20_util import (Cube, BV, Sym, Ext, Rec, Model, Interp, Ctx, Design, Eval, IsaDoc, MISSING, PyFunc,
                         termof, explore, instvec, Raised, Undetermined, Fork)

PID = 'C20'
DIR = 'examples/ex03_proc/'
ENC = DIR + 'tinyrv0_encoding.py'
ISA = DIR + 'tinyrv0-isa.md'
FL = DIR + 'ProcFL.py'
CL = DIR + 'ProcCL.py'
RTL = DIR + 'ProcRTL.py'
CTRL = DIR + 'ProcCtrlRTL.py'
DPATH = DIR + 'ProcDpathRTL.py'
MISC = DIR + 'MiscRTL.py'
INSTRTL = DIR + 'TinyRV0InstRTL.py'
CKDIR = 'examples/ex02_cksum/'
CK_FL = CKDIR + 'ChecksumFL.py'
CK_CL = CKDIR + 'ChecksumCL.py'
CK_RTL = CKDIR + 'ChecksumRTL.py'
CK_UTILS = CKDIR + 'utils.py'

# ---------------------------------------------------------------------------
# The frozen reference: the TinyRV0 ISA as written in examples/ex03_proc/tinyrv0-isa.md (the specification).
# name -> (instruction type, immediate type, semantics in the notation of the document, opcode, funct3, funct7)
REFERENCE = {
    'csrr': ('I', 'I', 'R[rd] = CSR[csr]', 0b1110011, 0b010, None),
    'csrw': ('I', 'I', 'CSR[csr] = R[rs1]', 0b1110011, 0b001, None),
    'add':  ('R', None, 'R[rd] = R[rs1] + R[rs2]', 0b0110011, 0b000, 0),
    'and':  ('R', None, 'R[rd] = R[rs1] & R[rs2]', 0b0110011, 0b111, 0),
    'sll':  ('R', None, 'R[rd] = R[rs1] << R[rs2][4:0]', 0b0110011, 0b001, 0),
    'srl':  ('R', None, 'R[rd] = R[rs1] >> R[rs2][4:0]', 0b0110011, 0b101, 0),
    'addi': ('I', 'I', 'R[rd] = R[rs1] + sext(imm)', 0b0010011, 0b000, None),
    'lw':   ('I', 'I', 'R[rd] = M_4B[ R[rs1] + sext(imm) ]', 0b0000011, 0b010, None),
    'sw':   ('S', 'S', 'M_4B[ R[rs1] + sext(imm) ] = R[rs2]', 0b0100011, 0b010, None),
    'bne':  ('S', 'B', 'PC = ( R[rs1] != R[rs2] ) ? PC + sext(imm) : PC + 4', 0b1100011, 0b001, None),
}
# field positions (hi, lo) of the three instruction types and the source instruction bit of every immediate bit
REF_TYPES = {
    'R': {'funct7': (31, 25), 'rs2': (24, 20), 'rs1': (19, 15), 'funct3': (14, 12), 'rd': (11, 7), 'opcode': (6, 0)},
    'I': {'imm': (31, 20), 'rs1': (19, 15), 'funct3': (14, 12), 'rd': (11, 7), 'opcode': (6, 0)},
    'S': {'rs2': (24, 20), 'rs1': (19, 15), 'funct3': (14, 12), 'opcode': (6, 0)},
}
REF_IMM = {    # bit 0 .. bit 31 of the sign-extended immediate: instruction bit or 'z'
    'I': [20, 21, 22, 23, 24, 25, 26, 27, 28, 29, 30] + [31] * 21,
    'S': [7, 8, 9, 10, 11, 25, 26, 27, 28, 29, 30] + [31] * 21,
    'B': ['z', 8, 9, 10, 11, 25, 26, 27, 28, 29, 30, 7] + [31] * 20,
}
# "csrr rd, csr == csrrs rd, csr, x0" and "csrw csr, rs1 == csrrw x0, csr, rs1": the unused register field is x0
REF_PSEUDO = {'csrr': ('rs1', 0), 'csrw': ('rd', 0)}
REF_CSR = {'proc2mngr': 0x7C0, 'mngr2proc': 0xFC0, 'xcel_lo': 0x7E0, 'xcel_hi': 0x7FF}
REF_RESET_VECTOR = 0x200
# the architectural no-op of RISC-V, listed in the encoding table: addi x0, x0, 0
NOP_WORD = 0b10011

EXPLANATION = (
    "CLAUSES ONLY. C20 quantifies over program executions (every TinyRV0 program x every memory latency / stall probability / "
    "source-sink delay); that is NOT decided here and cannot be by static analysis: pipeline control of ProcRTL and ProcCL "
    "(stalls, bypass selection, squashes, queue back-pressure, ordering of in-flight requests), instruction adjacency / hazards, "
    "timing, termination and the interface adapters are outside every rule below. What IS decided, from the source alone (ast; "
    "nothing is imported, elaborated or run), is single-instruction table / sibling agreement, each a necessary condition of the "
    "property: "
    "R-C20-isa-doc: the ISA document tinyrv0-isa.md, parsed on every run (instruction list, Semantics/Format lines, type, "
    "immediate and encoding diagrams, CSR numbers, reset vector), states the frozen reference ISA. "
    "R-C20-encoding: tinyrv0_encoding_table (mask/match, operand order of the templates, row overlap) and the assemble_field_* "
    "placement of every operand bit agree with the document's diagrams. "
    "R-C20-isa-set: document list = document details = table rows = names TinyRV0Inst.name returns = execute branches of ProcFL = "
    "of ProcCL. "
    "R-C20-decode: on EVERY word of every row's cube (exhaustive case split on the tested instruction bits, never sampled) "
    "TinyRV0Inst.name returns the row's name and the RTL DecodeInstType yields one code per instruction, distinct between "
    "instructions. "
    "R-C20-fl / -cl / -rtl: for every instruction (CSR instructions: for every CSR number the ISA defines) the model's "
    "decode+execute code, evaluated symbolically over all words of the cube and symbolic register/memory values, denotes the same "
    "normal form as the document's semantics line: operation, operand registers (as instruction bit positions), every immediate "
    "bit, destination, load/store address and data, proc2mngr/mngr2proc/accelerator traffic, next PC incl. branch condition and "
    "target. For ProcRTL this composes DecodeInstType -> the control-table row (bit layout of concat / cs slices, pipeline "
    "hand-over of each control field) -> ImmGenRTL, operand muxes, AluRTL function table, write-back mux, port wiring of "
    "ProcDpath/ProcRTL, in a steady-flow abstraction (valid=1, no stall/squash, pipeline registers transparent, bypass muxes = "
    "register reads). For ProcCL one instruction flows fetch -> execute -> write-back -> next fetch with all queues ready. "
    "R-C20-arch: x0 hard-wired in all three register files; reset vector. "
    "R-C20-hazard-symmetry and R-C20-gating are two STRUCTURAL NECESSARY CONDITIONS inside ProcCtrl's pipeline control; they do not "
    "decide that the pipeline is correct (no hazard, stall or squash is simulated): (a) the stall / bypass-select logic of source "
    "operand 2 is that of operand 1 under rs1<->rs2, each bypass select compares the field its register port reads, and the operand "
    "enables of the control table are set for every instruction whose ISA semantics read that register; (b) every enable with an "
    "architecturally visible side effect (discovered from the port wiring) carries its stage's valid bit and the ~stall / ~squash "
    "terms that the stage's advance / commit condition and sibling enables carry (three frozen, reasoned exceptions). "
    "R-C20-stage-regs, a third necessary condition of the same kind: every datapath pipeline register is a RegEn/RegEnRst whose en is "
    "driven by the control unit's enable of its own stage (stage enables discovered from the valid-bit registers), and every pipeline "
    "field of the control unit is latched only under that enable. "
    "R-C20-stage-control, a fourth one: the stall / squash / enable / advance equations of every stage satisfy, for every valuation "
    "of registers and inputs (propositional search, intermediate signals expanded consistently), hold-when-stalled, accept-when-not-"
    "stalled, hand-over S->T only when T accepts, squashed => overwritten and not advancing, stall/squash/advance => valid, squash originated only when advancing. "
    "R-C20-cksum: ChecksumFL.checksum, ChecksumCL (unpack + same function) and ChecksumRTL (8 chained step units + combine) "
    "denote the same function of the 8 words in a modular-arithmetic normal form (word order, widths, modulus 2^16, sum2:sum1); "
    "this clause is complete for the checksum part of the property up to the trusted Bits arithmetic, queueing/timing excluded.")
ASSUMPTIONS = [
    "single-instruction semantics composes to program semantics only if the pipeline control is correct: stalls, bypasses, squashes, "
    "queue back-pressure and response ordering of ProcRTL/ProcCL are NOT analysed (steady-flow abstraction: valid=1, stall=squash=0, "
    "ready=1, pipeline registers hand their value to the next stage, operand bypass muxes deliver the register-file value)",
    "Bits arithmetic is exact modulo 2^n and slices/concat/sext/zext address the named bits (C04, C05); Python int/if/elif semantics",
    "stdlib components Mux, RegEnRst, Adder, Incrementer, RegisterFile(const_zero) behave as their names say; message field order is "
    "read from MemMsg.py / XcelMsg.py, MemMsgType/XcelMsgType READ=0 WRITE=1 are read from the source",
    "FL interface methods (imem/dmem.read/write, xcel.read/write, proc2mngr, mngr2proc) and CL queues deliver what was requested, in order",
    "CSR numbers other than proc2mngr, mngr2proc and the accelerator block are undefined by the ISA and not compared; illegal "
    "instruction words (outside every row of the encoding table) are not compared",
    "IsaImpl.assemble_inst / assemble() (generic assembler driver, label handling, data sections) are not analysed beyond the table and "
    "the field functions; the harness and the test memory are out of scope",
]

# ---------------------------------------------------------------------------
# effects of one instruction: the common normal form of the specification and of the three models
def new_eff():
    return dict(reg=[], mem=[], load=[], send=[], get=0, xw=[], xr=[], npc=None, illegal=None, notes=[], fetch=[])


def T(v):
    """data term with its width"""
    return (termof(v), U.widthof(v))


def _subst(t, mapping):
    if isinstance(t, tuple):
        if t in mapping:
            return mapping[t]
        return tuple(_subst(x, mapping) for x in t)
    return t


def finish(e):
    """raw event record -> comparable normal form"""
    out = {}
    notes = list(e['notes'])
    mapping = {}
    if len(e['load']) == 1:
        mapping[('dmemresp',)] = ('M', e['load'][0][0])
    elif len(e['load']) > 1:
        notes.append('more than one load request')
    if len(e['xr']) == 1:
        mapping[('xcelresp',)] = ('xcelread', e['xr'][0][0])
    elif len(e['xr']) > 1:
        notes.append('more than one accelerator read')
    regs = []
    for dest, val in e['reg']:
        if all(b == 0 for b in dest):
            continue                       # x0 is hard-wired to zero: the write has no effect
        regs.append((dest, (_subst(val[0], mapping), val[1])))
    if len(regs) > 1:
        notes.append('more than one register write')
    out['reg'] = regs[0] if regs else None
    out['mem'] = tuple(e['mem']) if e['mem'] else None
    out['load'] = tuple(e['load']) if e['load'] else None
    out['send'] = tuple(e['send']) if e['send'] else None
    out['get'] = e['get']
    out['xw'] = tuple(e['xw']) if e['xw'] else None
    out['xr'] = tuple(e['xr']) if e['xr'] else None
    out['npc'] = e['npc']
    out['illegal'] = e['illegal']
    out['notes'] = tuple(notes) if notes else None
    if e.get('resp') is not None:
        out['_resp'] = e['resp']
    return out


SLOTS = ('illegal', 'reg', 'load', 'mem', 'send', 'get', 'xw', 'xr', 'npc', 'notes')
SLOT_TEXT = {'reg': 'register write-back', 'mem': 'store', 'load': 'load request', 'send': 'proc2mngr message',
             'get': 'mngr2proc dequeue', 'xw': 'accelerator write', 'xr': 'accelerator read', 'npc': 'next PC',
             'illegal': 'illegal-instruction outcome', 'notes': 'access shape'}


def merge_paths(leaves):
    """[(trail, eff)] of one cube -> eff whose slots are if-then-else terms over the trail conditions"""
    if len(leaves) == 1:
        return leaves[0][1]
    cond = leaves[0][0][0][0]
    yes = [(tr[1:], e) for tr, e in leaves if tr and tr[0] == (cond, True)]
    no = [(tr[1:], e) for tr, e in leaves if tr and tr[0] == (cond, False)]
    if len(yes) + len(no) != len(leaves) or not yes or not no:
        raise AnalysisError("inconsistent path conditions in the case analysis")
    a, b = merge_paths(yes), merge_paths(no)
    out = {}
    for k in set(a) | set(b):
        out[k] = a.get(k) if a.get(k) == b.get(k) else ('ite', cond, a.get(k), b.get(k))
    return out


_HEADS = {'const', 'bv', 'R', 'mod', 'add', 'and', 'or', 'xor', 'eq', 'ne', 'sub', 'shl', 'shr', 'ite', 'M', 'pc', 'cat', 'bits',
          'shlc', 'shrc', 'sext', 'sint', 'xcelread', 'mngr2proc', 'dmemresp', 'xcelresp', 'msg', 'w', 'not', 'nothing', 'all', 'v'}


def _is_bit(b):
    return b == 0 or b == 1 or (isinstance(b, tuple) and len(b) == 2 and b[0] in ('i', 'm', 'w') and isinstance(b[1], int))


def show(t, depth=0):
    """readable rendering of a normal-form value"""
    if isinstance(t, tuple) and t and isinstance(t[0], str) and t[0] in _HEADS:
        h = t[0]
        if h == 'const':
            return hex(t[1]) if t[1] > 9 else str(t[1])
        if h == 'bv':
            return 'inst{' + bits_str(t[1]) + '}'
        if h == 'R':
            return 'R[inst{' + bits_str(t[1]) + '}]'
        if h == 'mod':
            return f"({show(t[2])} mod 2^{t[1]})"
        if h in ('add', 'and', 'or', 'xor', 'eq', 'ne', 'sub', 'shl', 'shr'):
            sym = {'add': '+', 'and': '&', 'or': '|', 'xor': '^', 'eq': '==', 'ne': '!=', 'sub': '-', 'shl': '<<', 'shr': '>>'}[h]
            return '(' + f" {sym} ".join(show(x) for x in t[1:]) + ')'
        if h == 'ite':
            return f"({show(t[1])} ? {show(t[2])} : {show(t[3])})"
        if h == 'M':
            return f"M[{show(t[1])}]"
        if h == 'bits':
            return f"{show(t[3])}[{t[1]}:{t[2]}]"
        if h == 'cat':
            return f"cat({show(t[1])}, {show(t[2])} :{t[3]} bits)"
        if len(t) == 1:
            return h
        return h + '(' + ', '.join(show(x) for x in t[1:]) + ')'
    if isinstance(t, tuple) and t and all(_is_bit(b) for b in t) and len(t) > 2:
        return 'inst{' + bits_str(t) + '}'
    if isinstance(t, tuple) and len(t) == 2 and isinstance(t[1], int) and isinstance(t[0], tuple):
        return show(t[0])
    if isinstance(t, tuple):
        return '(' + ', '.join(show(x) for x in t) + ')'
    return str(t)


def bits_str(bits):
    """compact rendering of a source-bit vector (LSB first) as ranges"""
    out, i = [], 0
    bits = list(bits)
    while i < len(bits):
        b = bits[i]
        if isinstance(b, tuple):
            j = i
            while j + 1 < len(bits) and isinstance(bits[j + 1], tuple) and bits[j + 1][0] == b[0] and bits[j + 1][1] == bits[j][1] + 1:
                j += 1
            rep = i
            while rep + 1 < len(bits) and bits[rep + 1] == b:
                rep += 1
            if rep > i and rep - i >= j - i:
                out.append(f"{b[1]}x{rep - i + 1}")
                i = rep + 1
            else:
                out.append(f"{bits[j][1]}:{b[1]}" if j > i else f"{b[1]}")
                i = j + 1
        else:
            out.append(str(b))
            i += 1
    return ','.join(reversed(out))


# ---------------------------------------------------------------------------
# shared register-file / event model of the FL and CL processors and of the specification
class ProcModel(Model):
    def __init__(self, inst):
        self.inst = inst
        self.e = new_eff()
        self.attrs = {}

    def regidx(self, idx, what):
        if isinstance(idx, U.PInt) and idx.bv is not None:
            if idx.neg:
                self.e['notes'].append("the register file is indexed with a negative Python integer (a register number read with "
                                       ".int()): Python wraps the index to another register")
            idx = idx.bv
        if isinstance(idx, (int, bool)):
            idx = BV.const(int(idx), 5)
        if not isinstance(idx, BV) or idx.n != 5:
            raise AnalysisError(f"register file indexed by {idx!r} in {what}")
        return idx.bits

    def reg_read(self, idx, what='R[...]'):
        return Sym(('R', self.regidx(idx, what)), 32)

    def reg_write(self, idx, v, what='R[...] = '):
        if U.widthof(v) not in (32, None):
            raise AnalysisError(f"register written with a Bits{U.widthof(v)} value")
        self.e['reg'].append((self.regidx(idx, what), (termof(v), 32)))


# ---------------------------------------------------------------------------
# the specification: the semantics line of the ISA document evaluated on the fields of its diagrams
class Spec:
    def __init__(self, types, imms, csr, insts, reset_vector=None):
        self.types, self.imms, self.csr, self.insts = types, imms, csr, insts
        self.reset_vector = reset_vector

    def cube(self, name):
        """words of the instruction: fixed cells of its diagram (+ the x0 of the pseudo-instruction)"""
        c = U.FULL
        d = self.insts[name]
        for hi, lo, text in d['cells']:
            if text and all(ch in '01' for ch in text):
                if len(text) != hi - lo + 1:
                    raise AnalysisError(f"fixed field `{text}` of {name} does not fill bits {hi}:{lo}")
                c = c.fix(lo, hi + 1, int(text, 2))
        if name in REF_PSEUDO:
            fld, val = REF_PSEUDO[name]
            hi, lo = self.field(name, fld)
            c = c.fix(lo, hi + 1, val)
        return c

    def field(self, name, fld):
        for hi, lo, text in self.insts[name]['cells']:
            if text == fld:
                return hi, lo
        raise AnalysisError(f"instruction {name} has no field {fld} in the ISA document")

    def imm_vec(self, name, inst):
        it = self.insts[name]['imm']
        if it is None:
            return None
        return BV(0 if s == 'z' else inst.bits[s] for s in self.imms[it])

    def csr_class(self, v):
        """classify a (possibly partially free) 12-bit csr number"""
        lo, hi = v.lo(), v.hi()
        if lo == hi == self.csr['proc2mngr']:
            return 'proc2mngr'
        if lo == hi == self.csr['mngr2proc']:
            return 'mngr2proc'
        if self.csr['xcel_lo'] <= lo and hi <= self.csr['xcel_hi']:
            return 'xcel'
        return None

    def cases(self, name):
        """sub-cubes of an instruction on which its semantics is defined by the document"""
        c = self.cube(name)
        if 'CSR[' not in self.insts[name]['semantics'].replace(' ', ''):
            return [('', c)]
        hi, lo = self.field(name, 'csr')
        out = []
        writes = self.insts[name]['semantics'].replace(' ', '').startswith('CSR[')
        single = self.csr['proc2mngr'] if writes else self.csr['mngr2proc']
        out.append(('@proc2mngr' if writes else '@mngr2proc', c.fix(lo, hi + 1, single)))
        xl, xh = self.csr['xcel_lo'], self.csr['xcel_hi']
        free = (xl ^ xh)
        if free & (free + 1) or xl & free:
            raise AnalysisError("accelerator CSR range is not an aligned power-of-two block")
        k = free.bit_length()
        out.append(('@xcel', c.fix(lo + k, hi + 1, xl >> k)))
        return out

    def run(self, repo, name, cube, ctx):
        inst = instvec(cube)
        d = self.insts[name]
        spec = self
        pm = ProcModel(inst)
        pc = Sym(('pc',), 32)
        env = {}
        for hi, lo, text in d['cells']:
            if text and text not in ('imm',) and not all(ch in '01' for ch in text):
                env[text] = BV(inst.bits[lo:hi + 1])
        imm = self.imm_vec(name, inst)
        if imm is not None and 'csr' not in env:
            env['imm'] = imm
        env['PC'] = pc

        class M(Model):
            def name(self_, n):
                if n in ('R', 'M_4B', 'CSR'):
                    return Ext(n)
                if n == 'sext':
                    def sx(v):
                        if not isinstance(v, BV) or v.n != 32:
                            raise AnalysisError("sext() of the document applied to something else than the immediate")
                        return v
                    return PyFunc(sx)
                return MISSING

            def getitem(self_, path, idx):
                if path == 'R':
                    return pm.reg_read(idx)
                if path == 'M_4B':
                    pm.e['load'].append((T(idx),))
                    return Sym(('dmemresp',), 32)
                if path == 'CSR':
                    k = spec.csr_class(idx)
                    if k == 'mngr2proc':
                        pm.e['get'] += 1
                        return Sym(('mngr2proc',), 32)
                    if k == 'xcel':
                        pm.e['xr'].append((T(U.do_slice(idx, 0, 5)),))
                        return Sym(('xcelresp',), 32)
                    raise AnalysisError(f"CSR read of {idx!r} is not defined by the document")
                raise AnalysisError(path)

            def setitem(self_, path, idx, v):
                if path == 'R':
                    pm.reg_write(idx, v)
                elif path == 'M_4B':
                    pm.e['mem'].append((T(idx), T(v)))
                elif path == 'CSR':
                    k = spec.csr_class(idx)
                    if k == 'proc2mngr':
                        pm.e['send'].append(T(v))
                    elif k == 'xcel':
                        pm.e['xw'].append((T(U.do_slice(idx, 0, 5)), T(v)))
                    else:
                        raise AnalysisError(f"CSR write of {idx!r} is not defined by the document")
                else:
                    raise AnalysisError(path)

        it = Interp(repo, repo.mod(ENC), ctx, M(), env, doc_slices=True, self_name=None)
        it.stmt(d['ast'])
        npc = it.env['PC']
        if npc is pc:
            npc = U.binop('add', pc, 4)         # "Unless otherwise specified assume instruction updates PC with PC+4"
        pm.e['npc'] = T(npc)
        pm.e['illegal'] = None
        return finish(pm.e)


def reference_spec():
    insts = {}
    for name, (ty, imm, sem, opc, f3, f7) in REFERENCE.items():
        fields = dict(REF_TYPES[ty])
        cells = []
        for fld, (hi, lo) in fields.items():
            text = fld
            if fld == 'opcode':
                text = format(opc, '07b')
            elif fld == 'funct3':
                text = format(f3, '03b')
            elif fld == 'funct7':
                text = format(f7, '07b')
            elif fld == 'imm' and 'CSR' in sem:
                text = 'csr'
            cells.append((hi, lo, text))
        insts[name] = dict(cells=cells, imm=imm, semantics=sem, ast=U.parse_semantics(sem), type=ty)
    return Spec(REF_TYPES, REF_IMM, dict(REF_CSR), insts, REF_RESET_VECTOR)


_doc_cache = {}


def doc_spec(repo):
    return spec_from_text(repo.src(ISA))


def spec_from_text(text):
    import re
    key = hash(text)
    if key in _doc_cache:
        return _doc_cache[key]
    doc = IsaDoc(text)
    types = {}
    for ty in ('R', 'I', 'S'):
        types[ty] = {}
        for hi, lo, cell in IsaDoc.diagram(doc.section(ty + '-type')):
            if cell != 'imm' or ty == 'I':
                types[ty][cell] = (hi, lo)
    imms = {}
    for it in ('I', 'S', 'B'):
        vec = [None] * 32
        for hi, lo, cell in IsaDoc.diagram(doc.section(it + '-immediate')):
            n = hi - lo + 1
            if cell.startswith('<--'):
                src = [int(cell[3:].strip())] * n
            elif cell == 'z':
                src = ['z'] * n
            elif ':' in cell:
                a, b = (int(x) for x in cell.split(':'))
                src = list(range(b, a + 1))
            elif cell.isdigit():
                src = [int(cell)]
            else:
                raise AnalysisError(f"cannot read cell `{cell}` of the {it}-immediate diagram")
            if len(src) != n:
                raise AnalysisError(f"{it}-immediate cell `{cell}` does not fill bits {hi}:{lo}")
            vec[lo:hi + 1] = src
        if None in vec:
            raise AnalysisError(f"{it}-immediate diagram does not cover 32 bits")
        imms[it] = vec
    table = doc.csr_table()
    xc = sorted(v for k, (_, v) in table.items() if k.startswith('xcelreg'))
    for k in ('proc2mngr', 'mngr2proc'):
        if k not in table:
            raise AnalysisError(f"anchor vanished: CSR {k} in the ISA document")
    if not xc:
        raise AnalysisError("anchor vanished: accelerator CSRs in the ISA document")
    csr = dict(proc2mngr=table['proc2mngr'][1], mngr2proc=table['mngr2proc'][1], xcel_lo=xc[0], xcel_hi=xc[-1])
    insts = {}
    for name in doc.detailed_instructions():
        d = doc.instruction(name)
        fmt = [x.strip() for x in d['format'].split(',')]
        ty = fmt[0].split('-')[0]
        imm = fmt[1].split('-')[0] if len(fmt) > 1 else None
        if imm is not None and imm not in imms:
            raise AnalysisError(f"{name}: unknown immediate type `{fmt[1]}` in the ISA document")
        insts[name] = dict(cells=d['diagram'], imm=imm, semantics=d['semantics'], ast=U.parse_semantics(d['semantics']),
                           type=ty, assembly=d.get('assembly'))
    rv = None
    m = re.search(r'reset vector at\s+(0x[0-9a-fA-F]+)', ' '.join(doc.section('Reset Vector')))
    if m:
        rv = int(m.group(1), 16)
    sp = Spec(types, imms, csr, insts, rv)
    sp.listed = doc.instruction_list()
    _doc_cache[key] = sp
    return sp


# ---------------------------------------------------------------------------
# the assembler / disassembler table
def encoding_table(repo):
    m = repo.mod(ENC)
    node = m.assigns.get('tinyrv0_encoding_table')
    if node is None:
        raise AnalysisError("anchor vanished: tinyrv0_encoding_table")
    rows = Interp(repo, m, self_name=None).ev(node)
    out = []
    for row in rows:
        if not (isinstance(row, list) and len(row) == 3 and isinstance(row[0], str) and
                all(isinstance(x, int) for x in row[1:])):
            raise AnalysisError("row of tinyrv0_encoding_table is not [template, mask, match]")
        name = row[0].partition(' ')[0]
        if row[2] & ~row[1]:
            out.append((name, row[0], None, row[1], row[2]))
        else:
            out.append((name, row[0], Cube(row[1], row[2]), row[1], row[2]))
    return m, out


# ---------------------------------------------------------------------------
# FL processor
class FLModel(ProcModel):
    def __init__(self, inst):
        super().__init__(inst)
        self.pc = Sym(('pc',), 32)

    def get(self, path):
        if path == 's.reset':
            return 0
        if path == 's.PC':
            return self.pc
        return self.attrs.get(path, MISSING)

    def set(self, path, v):
        if path == 's.PC':
            self.pc = v
        else:
            self.attrs[path] = v

    def sig_write(self, path, v, ff):
        self.attrs[path] = v

    def getitem(self, path, idx):
        if path == 's.R':
            return self.reg_read(idx)
        raise AnalysisError(f"subscript of {path} in the FL processor")

    def setitem(self, path, idx, v):
        if path == 's.R':
            return self.reg_write(idx, v)
        raise AnalysisError(f"subscript assignment to {path} in the FL processor")

    def call(self, path, args, kwargs):
        e = self.e
        if kwargs:
            raise AnalysisError(f"keyword arguments in the call of {path}")
        if path == 's.imem.read' and len(args) == 2:
            e['fetch'].append((T(args[0]), args[1]))
            return self.inst
        if path in ('s.dmem.read', 's.dmem.write') and args and isinstance(args[0], U.PInt):
            e['notes'].append("the effective address is an unbounded Python integer, not reduced modulo 2^32 (base 0xffffff00 plus a "
                              "positive offset leaves the 32-bit address space, a negative offset below base gives a negative address)")
        if path == 's.dmem.read' and len(args) == 2:
            if args[1] != 4:
                e['notes'].append(f"load of {args[1]} bytes")
            e['load'].append((T(args[0]),))
            return Sym(('dmemresp',), 32)
        if path == 's.dmem.write' and len(args) == 3:
            if args[1] != 4:
                e['notes'].append(f"store of {args[1]} bytes")
            e['mem'].append((T(args[0]), T(args[2])))
            return None
        if path == 's.proc2mngr' and len(args) == 1:
            e['send'].append(T(args[0]))
            return None
        if path == 's.mngr2proc' and not args:
            e['get'] += 1
            return Sym(('mngr2proc',), 32)
        if path == 's.xcel.read' and len(args) == 1:
            e['xr'].append((T(args[0]),))
            return Sym(('xcelresp',), 32)
        if path == 's.xcel.write' and len(args) == 2:
            e['xw'].append((T(args[0]), T(args[1])))
            return None
        raise AnalysisError(f"call of {path} with {len(args)} arguments outside the FL interface model")


def fl_block(repo):
    m = repo.mod(FL)
    construct = m.get_func('ProcFL.construct')
    blocks = [st for st in construct.body if isinstance(st, ast.FunctionDef) and
              any(norm(d).split('.')[-1].startswith('update') for d in st.decorator_list)]
    if len(blocks) != 1:
        raise AnalysisError(f"ProcFL.construct has {len(blocks)} update blocks, expected the single execute block")
    return m, construct, blocks[0]


def run_fl(repo, cube, ctx):
    m, construct, blk = fl_block(repo)
    model = FLModel(instvec(cube))
    it = Interp(repo, m, ctx, model, self_name=construct.args.args[0].arg)
    e = model.e
    try:
        try:
            it.run(blk.body)
        except U._Return:
            e['notes'].append('execute block returns early')
    except Raised:
        e['illegal'] = 'raises'
    pc = Sym(('pc',), 32)
    if e['illegal'] is None:
        if len(e['fetch']) != 1 or e['fetch'][0] != (T(pc), 4):
            e['notes'].append('instruction fetch is not a 4-byte read at PC')
    e['npc'] = T(model.pc)
    return finish(e)


# ---------------------------------------------------------------------------
# message constructors (field order read from the message definitions)
def msg_fields(repo, mod, factory):
    """mk_mem_msg / mk_xcel_msg -> field names of the *request* message in declaration order"""
    r = repo.resolve(mod, factory)
    if r is None or not isinstance(r[1], ast.FunctionDef):
        raise AnalysisError(f"cannot resolve {factory}")
    fm, f = r
    ret = [n for n in ast.walk(f) if isinstance(n, ast.Return)]
    if len(ret) != 1 or not isinstance(ret[0].value, ast.Tuple) or not isinstance(ret[0].value.elts[0], ast.Call):
        raise AnalysisError(f"{factory} does not return (request type, response type)")
    r2 = repo.resolve(fm, norm(ret[0].value.elts[0].func))
    if r2 is None or not isinstance(r2[1], ast.FunctionDef):
        raise AnalysisError(f"cannot resolve the request-message factory of {factory}")
    cls = [n for n in ast.walk(r2[1]) if isinstance(n, ast.ClassDef)]
    if len(cls) != 1:
        raise AnalysisError(f"request-message factory of {factory} does not define one class")
    fields = [st.target.id for st in cls[0].body if isinstance(st, ast.AnnAssign) and isinstance(st.target, ast.Name)]
    if not fields:
        raise AnalysisError(f"request message of {factory} has no fields")
    return fields


def msg_ctor(kind, fields):
    def mk(*args, **kwargs):
        if len(args) > len(fields):
            raise AnalysisError(f"{kind} message built with {len(args)} positional arguments")
        d = {f: 0 for f in fields}
        d.update(dict(zip(fields, args)))
        for k, v in kwargs.items():
            if k not in d:
                raise AnalysisError(f"{kind} message has no field {k}")
            d[k] = v
        return Rec(kind, **d)
    return PyFunc(mk)


def msg_names(repo, mod, construct):
    """local names bound to request-message classes in a construct: name -> PyFunc"""
    out = {}
    for st in construct.body:
        if isinstance(st, ast.Assign) and isinstance(st.value, ast.Call) and isinstance(st.targets[0], ast.Tuple):
            fn = norm(st.value.func)
            if fn in ('mk_mem_msg', 'mk_xcel_msg') and isinstance(st.targets[0].elts[0], ast.Name):
                kind = 'memreq' if fn == 'mk_mem_msg' else 'xcelreq'
                out[st.targets[0].elts[0].id] = msg_ctor(kind, msg_fields(repo, mod, fn))
    return out


def record_memreq(e, msg, ifc):
    """a request message sent on the data-memory / accelerator interface -> events"""
    if not isinstance(msg, Rec):
        raise AnalysisError(f"{ifc} request is not a message object")
    ty = msg.fields.get('type_')
    if isinstance(ty, BV):
        if not ty.concrete():
            raise Undetermined(ty.first_free())
        ty = ty.value()
    if not isinstance(ty, int):
        raise AnalysisError(f"{ifc} request type is not a constant")
    if msg.kind == 'memreq':
        ln = msg.fields.get('len', 0)
        if isinstance(ln, BV) and ln.concrete():
            ln = ln.value()
        if ln not in (0, 4):
            e['notes'].append(f"memory access of length {ln}")
        if ty == 0:
            e['load'].append((T(msg.fields['addr']),))
        elif ty == 1:
            e['mem'].append((T(msg.fields['addr']), T(msg.fields['data'])))
        else:
            e['notes'].append(f"memory request of type {ty}")
    else:
        if ty == 0:
            e['xr'].append((T(msg.fields['addr']),))
        elif ty == 1:
            e['xw'].append((T(msg.fields['addr']), T(msg.fields['data'])))
        else:
            e['notes'].append(f"accelerator request of type {ty}")


# ---------------------------------------------------------------------------
# CL processor: one instruction flows through fetch -> execute -> write-back -> next fetch
def design(repo, rel, cls):
    cache = repo.__dict__.setdefault('_c20_designs', {})      # per Repo object: safe with the self-test's overlays
    key = (rel, cls)
    if key not in cache:
        cache[key] = Design(repo, rel, cls)
    return cache[key]


class CLModel(ProcModel):
    def __init__(self, inst, d, names):
        super().__init__(inst)
        self.d = d
        self.names = names
        top = d.top
        self.attrs = {'s.' + k[1:]: v for k, v in top.consts.items() if k.startswith('@') and
                      (isinstance(v, (int, BV, U.EnumTok)) or v is None)}
        self.pc_attr = None
        self.queues = {}
        self.roles = {}
        for p, info in d.insts.items():
            if p and info.kind == 'opaque':
                for mname, sl in d.members((p + '.enq', None)):
                    if mname in ('imem.resp', 'dmem.resp', 'xcel.resp', 'mngr2proc'):
                        self.roles['s.' + p] = mname
        self.outstanding = {'imem.resp': 0, 'dmem.resp': 0, 'xcel.resp': 0}
        self.e['resp'] = {'dmem.resp': 0, 'xcel.resp': 0}

    def name(self, n):
        return self.names.get(n, MISSING)

    def get(self, path):
        if path == 's.reset':
            return 0
        return self.attrs.get(path, MISSING)

    def set(self, path, v):
        self.attrs[path] = v

    def sig_write(self, path, v, ff):
        self.attrs[path] = v

    def getitem(self, path, idx):
        if path == 's.R':
            return self.reg_read(idx)
        raise AnalysisError(f"subscript of {path} in the CL processor")

    def setitem(self, path, idx, v):
        if path == 's.R':
            return self.reg_write(idx, v)
        raise AnalysisError(f"subscript assignment to {path} in the CL processor")

    def _avail(self, q):
        if self.queues.get(q):
            return True
        role = self.roles.get(q)
        if role == 'mngr2proc':
            return True
        return bool(role) and self.outstanding[role] > 0

    def _head(self, q, pop):
        if self.queues.get(q):
            return self.queues[q].pop(0) if pop else self.queues[q][0]
        role = self.roles.get(q)
        if role == 'mngr2proc':
            if pop:
                self.e['get'] += 1
            return Sym(('mngr2proc',), 32)
        if role and self.outstanding[role] > 0:
            if pop:
                self.outstanding[role] -= 1
                if role in self.e['resp']:
                    self.e['resp'][role] += 1
            data = {'imem.resp': self.inst, 'dmem.resp': Sym(('dmemresp',), 32), 'xcel.resp': Sym(('xcelresp',), 32)}[role]
            return Rec(role, data=data)
        if role:
            # the model dequeues a response nobody requested: in the real model this blocks / raises; recorded as a
            # definite deviation instead of refusing the analysis
            self.e['notes'].append(f"{q.split('.', 1)[-1]} ({role}) dequeued although no such response is outstanding")
            return Rec(role, data=Sym(('nothing', role), 32))
        raise AnalysisError(f"{q} is read while it is empty in the single-instruction flow")

    def call(self, path, args, kwargs):
        e = self.e
        if kwargs:
            raise AnalysisError(f"keyword arguments in the call of {path}")
        if path.endswith('.deq.rdy') and not args:
            return self._avail(path[:-len('.deq.rdy')])
        if path.endswith('.rdy') and not args:
            return True
        if path.endswith('.enq') and len(args) == 1:
            for x in (args[0] if isinstance(args[0], tuple) else ()):
                if isinstance(x, U.PInt) and x.neg:
                    e['notes'].append(f"a register number is handed to the next stage as a signed Python integer (`.int()` of the "
                                      f"{x.bv.n}-bit field): it is negative for x{1 << (x.bv.n - 1)}..x{(1 << x.bv.n) - 1}, so a later "
                                      f"`rd > 0` test treats the instruction as having no destination and drops the write-back")
            self.queues.setdefault(path[:-4], []).append(args[0])
            return None
        if path.endswith('.peek') and not args:
            return self._head(path[:-5], False)
        if path.endswith('.deq') and not args:
            return self._head(path[:-4], True)
        if path == 's.imem.req' and len(args) == 1:
            msg = args[0]
            if not isinstance(msg, Rec) or msg.fields.get('type_') != 0:
                e['notes'].append('instruction fetch is not a read request')
            e['fetch'].append((T(msg.fields['addr']), 4))
            self.outstanding['imem.resp'] += 1
            return None
        if path == 's.dmem.req' and len(args) == 1:
            record_memreq(e, args[0], 'dmem')
            self.outstanding['dmem.resp'] += 1
            return None
        if path == 's.xcel.req' and len(args) == 1:
            record_memreq(e, args[0], 'xcel')
            self.outstanding['xcel.resp'] += 1
            return None
        if path == 's.proc2mngr' and len(args) == 1:
            e['send'].append(T(args[0]))
            return None
        raise AnalysisError(f"call of {path} with {len(args)} arguments outside the CL interface model")


def cl_blocks(repo):
    d = design(repo, CL, 'ProcCL')
    m = repo.mod(CL)
    construct = m.get_func('ProcCL.construct')
    fetch = execute = wb = None
    for b in d.top.blocks:
        calls = [norm(n.func) for n in ast.walk(b.func) if isinstance(n, ast.Call)]
        sname = construct.args.args[0].arg
        if f'{sname}.imem.req' in calls:
            fetch = b
        elif any(c.endswith('TinyRV0Inst') for c in calls):
            execute = b
        else:
            wb = b
    if not (fetch and execute and wb) or len(d.top.blocks) != 3:
        raise AnalysisError("ProcCL no longer consists of a fetch, an execute and a write-back block")
    return d, m, construct, fetch, execute, wb


def cl_pc_attr(fetch, sname):
    """the program counter of the CL model: the attribute the fetch block advances"""
    cands = {norm(n.target) for n in ast.walk(fetch.func) if isinstance(n, ast.AugAssign) and isinstance(n.op, ast.Add)
             and isinstance(n.target, ast.Attribute) and norm(n.target.value) == sname}
    if len(cands) != 1:
        raise AnalysisError("cannot identify the program counter of ProcCL (the attribute its fetch block advances)")
    return cands.pop()


def run_cl(repo, cube, ctx):
    d, m, construct, fetch, execute, wb = cl_blocks(repo)
    names = msg_names(repo, m, construct)
    model = CLModel(instvec(cube), d, names)
    sname = construct.args.args[0].arg
    model.pc_attr = cl_pc_attr(fetch, sname)
    model.attrs[model.pc_attr] = Sym(('pc',), 32)
    e = model.e
    pc = Sym(('pc',), 32)

    def go(b):
        it = Interp(repo, m, ctx, model, self_name=sname)
        try:
            it.run(b.func.body)
        except U._Return:
            pass

    try:
        go(fetch)
        if e['fetch'] != [(T(pc), 4)]:
            e['notes'].append('instruction fetch is not a read request at pc')
        go(execute)
        go(wb)
        n_before = len(e['fetch'])
        go(fetch)
        if len(e['fetch']) != n_before + 1:
            e['notes'].append('no fetch follows the instruction')
        else:
            e['npc'] = e['fetch'][-1][0]
    except Raised:
        e['illegal'] = 'raises'
    fin = finish(e)
    for role, slot in (('dmem.resp', 'dmem'), ('xcel.resp', 'xcel')):
        sent = len(e['load']) + len(e['mem']) if role == 'dmem.resp' else len(e['xr']) + len(e['xw'])
        if e['resp'][role] != sent:
            fin['notes'] = (fin['notes'] or ()) + (f"{sent} {slot} requests but {e['resp'][role]} responses consumed",)
    fin.pop('_resp', None)
    return fin


# ---------------------------------------------------------------------------
# RTL processor: control row (ProcCtrl) composed with the datapath (ProcDpath) through ProcRTL's wiring
FLOW = (('val_', 1), ('stall_', 0), ('squash_', 0), ('ostall_', 0), ('osquash_', 0))


class RtlSetup:
    """what is fixed per source tree (not per case): the netlist, the role of every boundary signal"""
    def __init__(self, repo):
        self.repo = repo
        d = self.d = design(repo, RTL, 'ProcRTL')
        self.over = {}
        roles = {}
        for p, info in d.insts.items():
            if not p or '.' in p or info.kind != 'opaque':
                continue
            for end, names in (('.enq', ('imem.resp', 'dmem.resp', 'xcel.resp', 'mngr2proc')), ('.deq', ('imem.req',))):
                for mname, sl in d.members((p + end, None)):
                    if mname in names:
                        roles[mname] = p
        for need in ('imem.resp', 'dmem.resp', 'xcel.resp', 'mngr2proc', 'imem.req'):
            if need not in roles:
                raise AnalysisError(f"ProcRTL: no queue is connected to its {need} interface")
        self.roles = roles
        # ready inputs: everything flows
        for (name, sl) in list(d.parent):
            if sl is None and name.endswith('.rdy'):
                info, local = d.owner(name)
                if info.kind == 'opaque' or info.path == '':
                    self.over[name] = BV.const(1, 1)
        # steady-flow abstraction of the control unit's pipeline bookkeeping
        for p, info in d.insts.items():
            if info.kind == 'src':
                for b in info.blocks:
                    for w in b.writes:
                        for prefix, val in FLOW:
                            if w.startswith(prefix):
                                self.over[d._full(info, w)] = BV.const(val, 1)
        # the architectural program counter: the register that latches the fetch address
        fetch_addr = roles['imem.req'] + '.enq.msg.addr'
        self.fetch_addr = fetch_addr
        pcs = []
        for (name, sl) in d.members((fetch_addr, None)):
            info, local = d.owner(name)
            if info.kind == 'native' and local == 'in_' and info.cls.name.startswith('Reg'):
                pcs.append(info)
        if len(pcs) != 1:
            raise AnalysisError("ProcRTL: cannot identify the PC register (the register latching the fetch address)")
        self.pcreg = pcs[0]
        self.over[self.pcreg.path + '.out'] = Sym(('pc',), 32)
        rfs = [i for i in d.insts.values() if i.kind == 'native' and i.cls.name == 'RegisterFile']
        if len(rfs) != 1:
            raise AnalysisError("ProcRTL: expected exactly one register file")
        self.rf = rfs[0]
        self.incr = [i for i in d.insts.values() if i.kind == 'native' and i.cls.name == 'Incrementer']
        # operand bypass muxes (a mux with an input fed by a register-file read port) are assumed to deliver the
        # architectural register value: hazard resolution is pipeline control, which is not decided here
        self.alias = {}
        for i in d.insts.values():
            if i.kind == 'native' and i.cls.name == 'Mux':
                for (name, sl) in list(d.parent):
                    if sl is None and name.startswith(i.path + '.in_['):
                        for mname, msl in d.members((name, None)):
                            if msl is None and mname.startswith(self.rf.path + '.rdata['):
                                self.alias[i.path + '.out'] = mname
        self.bypass_muxes = sorted(self.alias)


def rtl_setup(repo):
    if '_c20_rtl' not in repo.__dict__:
        repo.__dict__['_c20_rtl'] = RtlSetup(repo)
    return repo.__dict__['_c20_rtl']


def _bit(v, what):
    if isinstance(v, (int, bool)):
        return int(v)
    if isinstance(v, BV):
        if not v.concrete():
            raise Undetermined(v.first_free())
        return v.value()
    raise AnalysisError(f"{what} is not a constant in the evaluated case: {v!r}")


def run_rtl(repo, cube, ctx):
    st = rtl_setup(repo)
    d = st.d
    over = dict(st.over)
    q = st.roles
    over[q['imem.resp'] + '.deq.ret.data'] = instvec(cube)
    over[q['dmem.resp'] + '.deq.ret.data'] = Sym(('dmemresp',), 32)
    over[q['xcel.resp'] + '.deq.ret.data'] = Sym(('xcelresp',), 32)
    over[q['mngr2proc'] + '.deq.ret'] = Sym(('mngr2proc',), 32)
    ev = Eval(d, over, ctx, alias=st.alias)
    for p in d.insts:
        ev.over[(p + '.reset') if p else 'reset'] = BV.const(0, 1)
    try:
        return _run_rtl(st, ev, q)
    except Raised as ex:
        e = new_eff()
        e['illegal'] = 'raises'
        e['notes'].append(f"an update block raises {ex.what}")
        return finish(e)


def _run_rtl(st, ev, q):
    e = new_eff()
    rf = st.rf.path
    if _bit(ev.value(rf + '.wen[0]'), 'register-file write enable'):
        waddr = ev.value(rf + '.waddr[0]')
        if not isinstance(waddr, BV) or waddr.n != 5:
            raise AnalysisError("register-file write address is not a 5-bit instruction field")
        e['reg'].append((waddr.bits, T(ev.value(rf + '.wdata[0]'))))
    if _bit(ev.value('dmem.req.en'), 'dmem request enable'):
        msg = Rec('memreq', type_=ev.value('dmem.req.msg.type_'), addr=ev.value('dmem.req.msg.addr'),
                  data=ev.value('dmem.req.msg.data'), len=0)
        record_memreq(e, msg, 'dmem')
    if _bit(ev.value('xcel.req.en'), 'xcel request enable'):
        msg = Rec('xcelreq', type_=ev.value('xcel.req.msg.type_'), addr=ev.value('xcel.req.msg.addr'),
                  data=ev.value('xcel.req.msg.data'))
        record_memreq(e, msg, 'xcel')
    if _bit(ev.value('proc2mngr.en'), 'proc2mngr enable'):
        e['send'].append(T(ev.value('proc2mngr.msg')))
    if _bit(ev.value(q['mngr2proc'] + '.deq.en'), 'mngr2proc dequeue enable'):
        e['get'] += 1
    e['npc'] = T(ev.value(st.fetch_addr))
    e['illegal'] = None
    fin = finish(e)
    for role, slot, sent in (('dmem.resp', 'dmem', len(e['load']) + len(e['mem'])),
                             ('xcel.resp', 'xcel', len(e['xr']) + len(e['xw']))):
        got = _bit(ev.value(q[role] + '.deq.en'), f'{slot} response dequeue enable')
        if got != sent:
            fin['notes'] = (fin['notes'] or ()) + (f"{sent} {slot} requests but {got} responses consumed",)
    fin['_blocks'] = ev.blocks_run
    return fin


# ---------------------------------------------------------------------------
# comparison machinery
def _floor(r, n):
    """the instance count confirmed on the reference tree, exact: enforced when the rule is clean (a clean run that matched fewer
    instances has lost anchors -> analysis error); a run with findings reports them and only refuses to be empty"""
    if r.findings:
        r.floor = n
        r.require_floor(1)
        r.floor = n
    else:
        r.require_floor(n)


def diff_eff(want, got):
    out = []
    for k in SLOTS:
        if want.get(k) != got.get(k):
            out.append((k, want.get(k), got.get(k)))
    return out


def compare_case(cube, run_want, run_got, stats):
    """refine `cube` until both evaluations are uniform on every part; returns [(part, diffs)]"""
    work, out = [cube], []
    while work:
        c = work.pop()
        a = explore(c, run_want)
        b = explore(c, run_got)
        stats[0] += len(a) + len(b)
        ca, cb = {x[0] for x in a}, {x[0] for x in b}
        if ca != {c} or cb != {c}:
            parts = cb if len(cb) > 1 else ca
            work.extend(sorted(parts))
            continue
        ea = merge_paths([(tr, e) for _, tr, e in a])
        eb = merge_paths([(tr, e) for _, tr, e in b])
        out.append((c, diff_eff(ea, eb)))
    return out


def describe(diffs):
    k, want, got = diffs[0]
    notes = [g for kk, w, g in diffs[1:] if kk == 'notes' and g]
    return (f"{SLOT_TEXT[k]} differs: the ISA gives {show(want) if want is not None else 'none'}, "
            f"the model gives {show(got) if got is not None else 'none'}"
            + (f" (+{len(diffs) - 1} more differing slots)" if len(diffs) > 1 else '')
            + (f" -- {show(notes[0])}" if notes else ''))


def spec_cases(spec):
    """all (instruction, case tag, cube) on which the document defines the behaviour + the no-op word"""
    out = []
    for name in spec.insts:
        for tag, c in spec.cases(name):
            out.append((name, tag, c))
    return out


def nop_cube(spec):
    """addi x0, x0, 0: the addi word whose free fields are all zero"""
    c = spec.cube('addi')
    return Cube((1 << 32) - 1, c.match)


def semantics_rule(repo, rid, clause, run_model, where_mod, where_fn, floor):
    r = RuleResult(rid, clause)
    spec = doc_spec(repo)
    stats = [0]
    mod = repo.mod(where_mod)
    cases = spec_cases(spec)
    if 'addi' in spec.insts:
        cases.append(('addi', ' (the no-op word addi x0,x0,0)', nop_cube(spec)))
    for name, tag, cube in cases:
        parts = compare_case(cube, lambda cu, ctx: spec.run(repo, name, cu, ctx),
                             lambda cu, ctx: run_model(repo, cu, ctx), stats)
        bad = [(c, d) for c, d in parts if d]
        cons = f"{name}{tag}: {spec.insts[name]['semantics']}"
        if bad:
            c, d = bad[0]
            r.bad(mod, where_fn, cons,
                  f"instruction words {c}: {describe(d)}. Every program executing such an instruction computes a "
                  f"different architectural state than the ISA interpreter.")
        else:
            r.ok(mod, where_fn, cons, note=f"{len(parts)} uniform sub-cubes")
    r.evaluations = stats[0]
    _floor(r, floor)
    return r


def rule_fl(repo):
    return semantics_rule(repo, 'R-C20-fl',
                          "ProcFL: decode (TinyRV0Inst.name) + execute branch of every instruction denotes the ISA semantics "
                          "(same operation, operands, immediate bits, destination, memory/manager/accelerator access, next PC)",
                          run_fl, FL, 'ProcFL.construct.up_ProcFL', 13)


def cl_redirect_tests(repo, r):
    """the redirect register of ProcCL holds a sentinel or a branch target: every stage must read "a redirect is
    pending" as `value != sentinel`, for EVERY address (exhaustive over the abstract points sentinel / 0 / small / large)"""
    d, m, construct, fetch, execute, wb = cl_blocks(repo)
    sname = construct.args.args[0].arg
    pc_attr = cl_pc_attr(fetch, sname)
    cands = {norm(n.value) for n in ast.walk(fetch.func) if isinstance(n, ast.Assign) and len(n.targets) == 1 and
             norm(n.targets[0]) == pc_attr and isinstance(n.value, ast.Attribute) and norm(n.value.value) == sname}
    if len(cands) != 1:
        raise AnalysisError("cannot identify the redirect register of ProcCL (the attribute the fetch block loads the pc from)")
    red = cands.pop()
    sentinel = d.top.consts.get('@' + red.split('.', 1)[1])
    if not isinstance(sentinel, int) or isinstance(sentinel, bool):
        raise AnalysisError(f"{red} is not initialised to an integer sentinel")
    points = [('the sentinel', sentinel), ('address 0', BV.const(0, 32)), ('address 4', BV.const(4, 32)),
              ('address 0xfffffffc', BV.const(0xfffffffc, 32))]
    n = 0
    for b in (fetch, execute, wb):
        fn = 'ProcCL.construct.' + b.func.name
        for node in ast.walk(b.func):
            if isinstance(node, ast.Assign) and any(norm(t) == red for t in node.targets) and isinstance(node.value, (ast.Constant, ast.UnaryOp)):
                v = Interp(repo, m, self_name=None).ev(node.value)
                n += 1
                if v != sentinel:
                    r.bad(m, fn, norm(node), f"{red} is cleared to {v}, but its idle value (sentinel) is {sentinel}: the stages keep "
                                             f"seeing a pending redirect")
                else:
                    r.ok(m, fn, norm(node))
            if not (isinstance(node, ast.Compare) and any(norm(x) == red for x in [node.left] + node.comparators)):
                continue
            n += 1
            truth = []
            for what, val in points:
                class M(Model):
                    def get(self_, path):
                        return val if path == red else MISSING
                v = Interp(repo, m, Ctx(), M(), self_name=sname).ev(node)
                if isinstance(v, BV):
                    v = bool(v.value())
                if not isinstance(v, bool):
                    raise AnalysisError(f"test `{norm(node)}` on the redirect register is not decidable on the abstract points")
                truth.append(v)
            r.evaluations += len(points)
            want = [val is not sentinel for _, val in points]
            cons = f"`{norm(node)}` means: a redirect is pending"
            if truth == want or truth == [not x for x in want]:
                r.ok(m, fn, cons if truth == want else f"`{norm(node)}` means: no redirect is pending")
            else:
                k = next(i for i in range(len(points)) if truth[i] != (want[i] if truth[0] == want[0] else not want[i]))
                r.bad(m, fn, cons, f"for {points[k][0]} the test is {truth[k]} although the register "
                                   f"{'holds a branch target' if points[k][1] is not sentinel else 'is idle'} (sentinel {sentinel}): the "
                                   f"stages disagree on whether a redirect is pending -- a taken branch to that address is never "
                                   f"fetched and the execute stage waits for ever")
    if n < 3:
        raise AnalysisError("ProcCL: fewer than three uses of the redirect register found (fetch test, execute test, clearing)")


def rule_cl(repo):
    r = semantics_rule(repo, 'R-C20-cl',
                       "ProcCL: one instruction flowing through fetch, execute and write-back denotes the ISA semantics; the "
                       "redirect register is read as sentinel-or-address consistently by every stage",
                       run_cl, CL, 'ProcCL.construct', 13)
    cl_redirect_tests(repo, r)
    _floor(r, 16)
    return r


def rule_rtl(repo):
    r = semantics_rule(repo, 'R-C20-rtl',
                       "ProcRTL: decoder output -> control-table row -> datapath (immediate generator, operand muxes, ALU "
                       "function table, write-back mux, memory/manager/accelerator ports) composed through the wiring of "
                       "ProcRTL denotes the ISA semantics, in the steady-flow abstraction (no stall, no squash, no bypass)",
                       run_rtl, CTRL, 'ProcCtrl.construct.comb_control_table_D', 13)
    st = rtl_setup(repo)
    r.observations.append(f"steady-flow abstraction: {len(st.over)} boundary/bookkeeping signals fixed, operand bypass "
                          f"muxes treated as register reads: {', '.join(st.bypass_muxes)}")
    if len(st.bypass_muxes) < 2:
        raise AnalysisError("R-C20-rtl: the two operand paths from the register file were not found")
    return r


# ---------------------------------------------------------------------------
# R-C20-isa-doc: the document (parsed on every run) still says what the frozen reference says
def spec_differences(repo, ref, doc):
    """[(construct, message)] -- empty when the parsed document agrees with the reference"""
    out, checked = [], []
    listed = getattr(doc, 'listed', None)
    if listed is not None and set(listed) != set(doc.insts):
        out.append(('instruction list', f"the overview lists {sorted(listed)} but details are given for {sorted(doc.insts)}"))
    for name in ref.insts:
        if name not in doc.insts:
            out.append((name, f"instruction {name} of the reference ISA is not described in the document"))
            continue
        checked.append(name)
        if ref.cube(name) != doc.cube(name):
            out.append((f"{name} encoding", f"document encodes {name} as {doc.cube(name)}, the reference as {ref.cube(name)}"))
            continue
        for (tag, c), (tag2, c2) in zip(ref.cases(name), doc.cases(name)):
            if (tag, c) != (tag2, c2):
                out.append((f"{name}{tag} CSR numbers", f"document case {tag2} {c2}, reference {tag} {c}"))
                continue
            stats = [0]
            parts = compare_case(c, lambda cu, ctx: ref.run(repo, name, cu, ctx),
                                 lambda cu, ctx: doc.run(repo, name, cu, ctx), stats)
            bad = [(cc, d) for cc, d in parts if d]
            if bad:
                out.append((f"{name}{tag} semantics", f"document says `{doc.insts[name]['semantics']}` "
                            f"({doc.insts[name]['type']}-type, {doc.insts[name]['imm']}-immediate), reference "
                            f"`{ref.insts[name]['semantics']}`: {describe(bad[0][1])}"))
    for it, vec in ref.imms.items():
        if doc.imms.get(it) != vec:
            out.append((f"{it}-immediate", f"document builds the {it}-immediate from instruction bits {doc.imms.get(it)}"))
    for ty, fields in ref.types.items():
        for f, pos in fields.items():
            if doc.types.get(ty, {}).get(f) != pos:
                out.append((f"{ty}-type field {f}", f"document puts {f} at {doc.types.get(ty, {}).get(f)}, reference at {pos}"))
    if doc.csr != ref.csr:
        out.append(('CSR numbers', f"document {doc.csr}, reference {ref.csr}"))
    if doc.reset_vector != ref.reset_vector:
        out.append(('reset vector', f"document {doc.reset_vector}, reference {ref.reset_vector}"))
    return out, checked


def rule_isa_doc(repo):
    r = RuleResult('R-C20-isa-doc', "the ISA document (instruction list, semantics lines, type / immediate / encoding diagrams, "
                                    "CSR numbers, reset vector -- parsed on every run) states the frozen reference ISA")
    ref = reference_spec()
    text = repo.src(ISA)
    doc = spec_from_text(text)
    diffs, checked = spec_differences(repo, ref, doc)
    bad = {c for c, _ in diffs}
    for c, msg in diffs:
        r.bad(ISA, 'document', c, msg + " -- the document is the specification the three models are compared with")
    for name in checked:
        if not any(c.startswith(name + ' ') or c.startswith(name + '@') or c == name for c in bad):
            r.ok(ISA, 'document', f"{name}: {doc.insts[name]['semantics']} [{doc.cube(name)}]")
    for it in ref.imms:
        if f"{it}-immediate" not in bad:
            r.ok(ISA, 'document', f"{it}-immediate bit sources")
    for ty in ref.types:
        if not any(c.startswith(f"{ty}-type") for c in bad):
            r.ok(ISA, 'document', f"{ty}-type field positions")
    if 'CSR numbers' not in bad:
        r.ok(ISA, 'document', f"CSR numbers {doc.csr}")
    if 'reset vector' not in bad:
        r.ok(ISA, 'document', f"reset vector {doc.reset_vector:#x}")
    extra = sorted(set(doc.insts) - set(ref.insts))
    if extra:
        r.observations.append(f"instructions described in the document but not in the frozen reference (compared among the "
                              f"models and the document only): {extra}")
    # embedded positive examples (the expected finding count on the real tree is zero): tampered copies of the document
    probes = [("R[rd] = R[rs1] + R[rs2]", "R[rd] = R[rs1] + R[rs1]"),
              ("| 0000000    | rs2     | rs1     | 111  |", "| 0000000    | rs2     | rs1     | 110  |"),
              ("|                               <-- 31 |7 | 30:25     | 11:8  |z |",
               "|                               <-- 31 |7 | 30:25     | 11:8  |8 |"),
              ("M_4B[ R[rs1] + sext(imm) ] = R[rs2]", "M_4B[ R[rs2] + sext(imm) ] = R[rs1]")]
    for old, new in probes:
        if text.count(old) < 1:
            raise AnalysisError(f"R-C20-isa-doc: probe anchor `{old}` not found in the document")
        pd, _ = spec_differences(repo, ref, spec_from_text(text.replace(old, new, 1)))
        if not pd:
            raise AnalysisError(f"R-C20-isa-doc: the embedded tampered document (`{old}` -> `{new}`) is not flagged")
    r.evaluations += len(probes)
    _floor(r, 18)
    return r


# ---------------------------------------------------------------------------
# R-C20-encoding: assembler / disassembler table and field functions vs the document
TAG_IMM = {'i_imm': 'I', 's_imm': 'S', 'b_imm': 'B'}


def _operands(text):
    return text.translate(str.maketrans(',()', '   ')).split()


def assembler_placement(repo, m, fref, spec_tag):
    """run assemble_field_<tag> on an unknown operand: [(trail, final bits)] of the paths that do not raise"""
    def run(cube, ctx):
        it = Interp(repo, m, ctx, self_name=None)
        word = BV(('w', k) for k in range(32))
        try:
            it.call_func(fref, [word, {}, 0, U.StrTok()], {})
        except Raised:
            return None
        return it.last_env.get([a.arg for a in fref.node.args.args][0])
    return [(tr, res) for _, tr, res in explore(U.FULL, run) if res is not None]


def rule_encoding(repo):
    r = RuleResult('R-C20-encoding', "tinyrv0_encoding_table (mask/match, operand order) and the assemble_field_* functions agree "
                                     "with the encoding, type and immediate diagrams of the ISA document; no instruction word "
                                     "matches two rows (except the no-op alias of addi, listed first)")
    spec = doc_spec(repo)
    m, rows = encoding_table(repo)
    fn = '<module>'
    names = [row[0] for row in rows]
    for name in spec.insts:
        if names.count(name) != 1:
            r.bad(m, fn, f"row {name}", f"the table has {names.count(name)} rows for the ISA instruction {name}: it cannot be "
                                        f"assembled (KeyError) / is assembled from the last duplicate")
    for name, tmpl, cube, mask, match in rows:
        cons = f"row {name}: mask/match"
        if cube is None:
            r.bad(m, fn, cons, f"match {match:#034b} has bits outside mask {mask:#034b}: no word ever matches this row "
                               f"(disassembly raises 'Illegal instruction')")
            continue
        if name == 'nop':
            want = nop_cube(spec)
        elif name in spec.insts:
            want = spec.cube(name)
        else:
            r.bad(m, fn, cons, f"row `{tmpl}` is not an instruction of the ISA document")
            continue
        if cube != want:
            what = 'assembled word' if cube.match != want.match else 'decode mask'
            r.bad(m, fn, cons, f"{what} of {name} is {cube}, the document says {want}: "
                               + ("every program using it is assembled to a different instruction"
                                  if cube.match != want.match else "the table decodes words of other instructions as this one / rejects legal words"))
        else:
            r.ok(m, fn, cons + f" = {cube}")
        # operand order of the template vs the assembly syntax of the document
        if name in spec.insts and spec.insts[name].get('assembly'):
            have = _operands(tmpl)[1:]
            want_ops = _operands(spec.insts[name]['assembly'])[1:]
            norm_have = ['imm' if t in TAG_IMM else ('csr' if t == 'csrnum' else t) for t in have]
            imm_ok = all(TAG_IMM[t] == spec.insts[name]['imm'] for t in have if t in TAG_IMM)
            cons2 = f"row {name}: operands {' '.join(have)}"
            if norm_have != want_ops or not imm_ok:
                r.bad(m, fn, cons2, f"template `{tmpl}` does not follow the assembly syntax `{spec.insts[name]['assembly']}` "
                                    f"({spec.insts[name]['imm']}-immediate): operands are assembled into the wrong fields")
            else:
                r.ok(m, fn, cons2)
    # pairwise disjointness (first-match decoding)
    good = [(i, row) for i, row in enumerate(rows) if row[2] is not None]
    for i, a in good:
        for j, b in good:
            if i < j and (a[2] & b[2]) is not None:
                cons = f"rows {a[0]} / {b[0]} overlap"
                if a[0] == 'nop' and b[2].contains(a[2]) and b[0] == 'addi':
                    r.ok(m, fn, cons + " (no-op alias listed before addi)")
                else:
                    r.bad(m, fn, cons, f"word {(a[2] & b[2])} matches both rows: the disassembler shows `{a[0]}` for "
                                       f"a `{b[0]}` instruction (or vice versa)")
    # field placement of the assembler = inverse of the field extraction the document defines
    fields_node = m.assigns.get('tinyrv0_fields')
    if fields_node is None:
        raise AnalysisError("anchor vanished: tinyrv0_fields")
    fields = Interp(repo, m, self_name=None).ev(fields_node)
    used = []
    for name, tmpl, cube, mask, match in rows:
        for t in _operands(tmpl)[1:]:
            if (t, name) not in used and t not in [u[0] for u in used]:
                used.append((t, name))
    for tag, iname in used:
        fl = fields.get(tag) if isinstance(fields, dict) else None
        if not (isinstance(fl, list) and fl and isinstance(fl[0], U.FuncRef)):
            r.bad(m, fn, f"field {tag}", f"tinyrv0_fields has no assemble function for `{tag}` used by `{iname}`")
            continue
        fref = fl[0]
        want = [('w', k) for k in range(32)]
        if iname not in spec.insts:
            continue
        if tag in TAG_IMM:
            vec, seen = spec.imms[TAG_IMM[tag]], set()
            for k, src in enumerate(vec):
                if src != 'z' and src not in seen:
                    seen.add(src)
                    want[src] = ('m', k)
        else:
            hi, lo = spec.field(iname, 'csr' if tag == 'csrnum' else tag)
            for k in range(hi - lo + 1):
                want[lo + k] = ('m', k)
        paths = assembler_placement(repo, m, fref, tag)
        r.evaluations += len(paths)
        cons = f"{fref.node.name}: operand bit k -> instruction bit"
        if not paths:
            r.bad(m, fref.node.name, cons, "no path of the function assembles a numeric operand")
            continue
        problems = []
        for tr, bits in paths:
            named = [c[1] for c, b in tr if c[0] == 'streq' and b]
            if not isinstance(bits, BV) or bits.n != 32:
                problems.append("the instruction word is not updated")
                continue
            if named and tag == 'csrnum':
                hi, lo = spec.field(iname, 'csr')
                got = BV(bits.bits[lo:hi + 1])
                nm = named[0].strip("'\"")
                if nm not in spec.csr or not got.concrete() or got.value() != spec.csr[nm]:
                    problems.append(f"CSR name {nm} is assembled to {got.value() if got.concrete() else got!r}, "
                                    f"the document says {spec.csr.get(nm)}")
                rest = list(bits.bits)
                rest[lo:hi + 1] = want[lo:hi + 1]
                if rest != want:
                    problems.append("bits outside the csr field are modified")
                continue
            if list(bits.bits) != want:
                wrong = [k for k in range(32) if bits.bits[k] != want[k]]
                problems.append(f"instruction bits {wrong} receive {[bits.bits[k] for k in wrong[:6]]} instead of "
                                f"{[want[k] for k in wrong[:6]]}")
        if problems:
            r.bad(m, fref.node.name, cons, f"operand `{tag}` is placed differently from where the ISA reads it: {problems[0]}; "
                                           f"every assembled program using the field executes another instruction")
        else:
            r.ok(m, fref.node.name, cons + f" ({len(paths)} paths)")
    _floor(r, 29)
    return r


# ---------------------------------------------------------------------------
# R-C20-isa-set: the instruction sets of all tables are equal
def _compared_strings(func, skip=()):
    out = []
    for n in ast.walk(func):
        if isinstance(n, ast.Compare) and len(n.ops) == 1 and isinstance(n.ops[0], ast.Eq):
            for a, b in ((n.left, n.comparators[0]), (n.comparators[0], n.left)):
                if isinstance(a, ast.Name) and isinstance(b, ast.Constant) and isinstance(b.value, str):
                    out.append(b.value)
    return out


def rule_isa_set(repo):
    r = RuleResult('R-C20-isa-set', "the ISA document's instruction list, its detailed sections, the encoding table, the names "
                                    "TinyRV0Inst.name can return, the execute branches of ProcFL and ProcCL are the same set "
                                    "(plus the no-op alias)")
    spec = doc_spec(repo)
    isa = set(spec.insts)
    enc = repo.mod(ENC)
    _, rows = encoding_table(repo)
    namefn = enc.get_func('TinyRV0Inst.name')
    returns = [n.value.value for n in ast.walk(namefn) if isinstance(n, ast.Return) and isinstance(n.value, ast.Constant)
               and isinstance(n.value.value, str)]
    _, _, flb = fl_block(repo)
    _, clm, _, _, execute, _ = cl_blocks(repo)
    sources = [
        (ISA, 'document', 'overview list of the ISA document', set(getattr(spec, 'listed', [])), False),
        (enc, '<module>', 'rows of tinyrv0_encoding_table', {row[0] for row in rows}, True),
        (enc, 'TinyRV0Inst.name', 'names returned by TinyRV0Inst.name', {x for x in returns if x != '????'}, True),
        (repo.mod(FL), 'ProcFL.construct.up_ProcFL', 'execute branches of ProcFL', set(_compared_strings(flb)), True),
        (clm, 'ProcCL.construct.' + execute.func.name, 'execute branches of ProcCL', set(_compared_strings(execute.func)), True),
    ]
    for mod, fn, what, have, nop_ok in sources:
        want = isa | ({'nop'} if nop_ok and 'nop' in have else set())
        for name in sorted(want | have):
            cons = f"{what}: {name}"
            if name in have and name in want:
                r.ok(mod, fn, cons)
            elif name in want:
                r.bad(mod, fn, cons, f"ISA instruction {name} is missing from the {what}: a program using it "
                                     f"cannot be assembled / is rejected / is silently skipped by this model")
            else:
                r.bad(mod, fn, cons, f"`{name}` in the {what} is not an instruction of the ISA document")
    _floor(r, 54)
    return r


# ---------------------------------------------------------------------------
# R-C20-decode: the three decoders agree with the encoding table on every legal instruction word
def run_name(repo, cube, ctx):
    m = repo.mod(ENC)
    it = Interp(repo, m, ctx, self_name=None)
    cref = it.lookup('TinyRV0Inst')
    try:
        obj = it.call(cref, [instvec(cube)], {})
        return it.getattr(obj, 'name')
    except Raised as e:
        return '<raises ' + e.what + '>'


def run_decoder(repo, cube, ctx):
    st = rtl_setup(repo)
    over = dict(st.over)
    over[st.roles['imem.resp'] + '.deq.ret.data'] = instvec(cube)
    ev = Eval(st.d, over, ctx, alias=st.alias)
    for p in st.d.insts:
        ev.over[(p + '.reset') if p else 'reset'] = BV.const(0, 1)
    decs = [p for p, i in st.d.insts.items() if i.kind == 'src' and i.cls.name == 'DecodeInstType']
    if len(decs) != 1:
        raise AnalysisError("ProcCtrl no longer instantiates exactly one DecodeInstType")
    try:
        v = ev.value(decs[0] + '.out')
    except Raised as ex:
        return '<raises ' + ex.what + '>'
    if not (isinstance(v, BV) and v.concrete()):
        raise AnalysisError("decoder output is not a constant on the evaluated case")
    return v.value()


def rule_decode(repo):
    r = RuleResult('R-C20-decode', "for every row of the encoding table and EVERY word of its cube (exhaustive case split on the "
                                   "instruction bits a decoder tests): TinyRV0Inst.name (FL, CL) returns the row's name, and the "
                                   "RTL DecodeInstType yields one code per instruction, different from every other instruction's")
    m, rows = encoding_table(repo)
    enc = repo.mod(ENC)
    inst = repo.mod(INSTRTL)
    spec = doc_spec(repo)
    codes = {}
    for name, tmpl, cube, mask, match in rows:
        if cube is None:
            continue
        leaves = explore(cube, lambda cu, ctx: run_name(repo, cu, ctx))
        r.evaluations += len(leaves)
        wrong = []
        for c, tr, got in leaves:
            ok = got == name or (c == nop_cube(spec) and got in ('nop', 'addi'))
            if not ok:
                wrong.append((c, got))
        cons = f"TinyRV0Inst.name on the words of `{name}` {cube}"
        if wrong:
            c, got = wrong[0]
            r.bad(enc, 'TinyRV0Inst.name', cons, f"words {c} are legal `{name}` instructions but decode to {got!r}: ProcFL and "
                                                 f"ProcCL execute them as another instruction / raise")
        else:
            r.ok(enc, 'TinyRV0Inst.name', cons, note=f"{len(leaves)} sub-cubes")
        leaves = explore(cube, lambda cu, ctx: run_decoder(repo, cu, ctx))
        r.evaluations += len(leaves)
        codes[name] = {}
        for c, tr, got in leaves:
            if name == 'addi' and c == nop_cube(spec):
                continue                      # the no-op alias may have a code of its own
            codes[name].setdefault(got, []).append(c)
    # RTL: one code per instruction (csrr may use one code per CSR class), codes of different instructions differ
    for name, by_code in codes.items():
        cons = f"DecodeInstType on the words of `{name}`"
        if name in spec.insts:
            case_cubes = [c for _, c in spec.cases(name)]
        else:
            case_cubes = [nop_cube(spec)]
        bad = None
        for cc in case_cubes:
            hit = {code for code, cs in by_code.items() if any((c & cc) is not None for c in cs)}
            if len(hit) != 1:
                bad = f"words {cc} decode to {len(hit)} different instruction-type codes {sorted(hit)}"
        for other, oc in codes.items():
            if other == name or {name, other} == {'nop', 'addi'}:
                continue
            shared = set(by_code) & set(oc)
            if shared:
                bad = f"code {sorted(shared)[0]} is produced for `{name}` words and for `{other}` words: the control unit " \
                      f"cannot tell them apart"
        if bad:
            r.bad(inst, 'DecodeInstType.construct.comb_logic', cons, bad)
        else:
            r.ok(inst, 'DecodeInstType.construct.comb_logic', cons + f" -> codes {sorted(by_code)}")
    _floor(r, 22)
    return r


# ---------------------------------------------------------------------------
# R-C20-arch: x0 is hard-wired to zero, the reset vector
def _regfile_ctor(repo, mod, construct, sname):
    """`s.R = RegisterFile( n )` -> (resolved class module/node, n)"""
    for st in construct.body:
        if isinstance(st, ast.Assign) and isinstance(st.value, ast.Call) and \
                any(isinstance(t, ast.Attribute) and norm(t) == f'{sname}.R' for t in st.targets):
            r = U.resolve_name(repo, mod, norm(st.value.func))
            if r is not None and isinstance(r[1], ast.ClassDef):
                n = Interp(repo, mod, self_name=None).ev(st.value.args[0]) if st.value.args else None
                return r, n
    return None, None


def rule_arch(repo):
    r = RuleResult('R-C20-arch', "x0 is hard-wired to zero in all three register files (a write to index 0 is dropped, every other "
                                 "write lands in its own register) and all three models start fetching at the ISA reset vector")
    spec = doc_spec(repo)
    rv = spec.reset_vector
    if rv is None:
        raise AnalysisError("anchor vanished: reset vector in the ISA document")
    enc = repo.mod(ENC)
    # FL / CL register file class
    cref = Interp(repo, enc, self_name=None).lookup('RegisterFile')
    if not isinstance(cref, U.ClassRef):
        raise AnalysisError("anchor vanished: RegisterFile in tinyrv0_encoding.py")

    def run_set(cube, ctx):
        it = Interp(repo, enc, ctx, self_name=None)
        rf = it.call(cref, [32], {})
        idx = BV(instvec(cube).bits[0:5])
        val = Sym(('v',), 32)
        setter = it.getattr(rf, '__setitem__')
        try:
            it.call(setter, [idx, val], {})
            regs = rf.fields.get('regs')
            getter = it.getattr(rf, '__getitem__')
            return idx.value(), [termof(x) for x in regs], termof(it.call(getter, [idx], {}))
        except Raised as e:
            return idx.lo(), None, e.what

    leaves = explore(Cube(~0x1f, 0), run_set)
    r.evaluations += len(leaves)
    zero, v = ('const', 0), ('v',)
    problems = []
    seen = set()
    for c, tr, (k, regs, back) in leaves:
        seen.add(k)
        want = [zero] * 32
        if k != 0:
            want[k] = v
        if regs is None:
            problems.append(f"a write to x{k} raises {back}")
        elif regs != want:
            problems.append(f"a write to x{k} leaves the registers as {[i for i, t in enumerate(regs) if t != zero]} modified")
        elif back != want[k]:
            problems.append(f"reading x{k} after the write does not return the register")
    if seen != set(range(32)):
        problems.append(f"case analysis covered only indices {sorted(seen)}")
    cons = "RegisterFile.__setitem__/__getitem__: x0 dropped, x1..x31 stored"
    if problems:
        r.bad(enc, 'RegisterFile.__setitem__', cons, problems[0] + ": FL and CL diverge from the ISA whenever a program targets that register")
    else:
        r.ok(enc, 'RegisterFile.__setitem__', cons, note="32 indices")
    for rel, cls in ((FL, 'ProcFL'), (CL, 'ProcCL')):
        mod = repo.mod(rel)
        construct = mod.get_func(cls + '.construct')
        sname = construct.args.args[0].arg
        (res, n) = _regfile_ctor(repo, mod, construct, sname)
        cons = f"{cls}: {sname}.R = RegisterFile(32)"
        if res is None or res[1] is not cref.node or n != 32:
            r.bad(mod, cls + '.construct', cons, "the register file is not the 32-entry RegisterFile of tinyrv0_encoding.py "
                                                 "(x0 semantics / number of registers differ from the ISA)")
        else:
            r.ok(mod, cls + '.construct', cons)
    st = rtl_setup(repo)
    kw = st.rf.kwargs
    cons = "ProcDpath: RegisterFile(nregs=32, const_zero=True)"
    dp = repo.mod(DPATH)
    if kw.get('const_zero') is not True or kw.get('nregs', 32) != 32:
        r.bad(dp, 'ProcDpath.construct', cons, f"register file built with {kw}: x0 is not hard-wired to zero in the RTL model "
                                               f"(addi x0, x0, 1 changes later reads of x0)")
    else:
        r.ok(dp, 'ProcDpath.construct', cons)
    # reset vector
    pc = Sym(('pc',), 32)
    # FL: the reset branch and the initial value
    m, construct, blk = fl_block(repo)
    sname = construct.args.args[0].arg

    class ResetFL(FLModel):
        def get(self, path):
            if path == 's.reset':
                return 1
            return super().get(path)
    model = ResetFL(instvec(U.FULL))
    try:
        Interp(repo, m, Ctx(), model, self_name=sname).run(blk.body)
    except U._Return:
        pass
    e = model.e
    quiet = not (e['reg'] or e['mem'] or e['send'] or e['get'] or e['xw'] or e['xr'] or e['load'] or e['fetch'])
    init = design(repo, FL, 'ProcFL').top.consts.get('@PC')
    cons = f"ProcFL: PC = {rv:#x} at construction and under reset"
    if termof(model.pc) != ('const', rv) or not quiet or init is None or termof(init) != ('const', rv):
        r.bad(m, 'ProcFL.construct.up_ProcFL', cons, f"PC is {show(termof(model.pc))} after reset (initial {init!r}), the ISA reset "
                                                     f"vector is {rv:#x}: the first instruction is fetched from the wrong address")
    else:
        r.ok(m, 'ProcFL.construct.up_ProcFL', cons)
    # CL
    d, cm, cconstruct, fetch, execute, wb = cl_blocks(repo)
    csname = cconstruct.args.args[0].arg
    pc_attr = cl_pc_attr(fetch, csname)
    cmodel = CLModel(instvec(U.FULL), d, msg_names(repo, cm, cconstruct))
    init = cmodel.attrs.get(pc_attr)
    cmodel.attrs[pc_attr] = pc
    orig_get = cmodel.get
    cmodel.get = lambda path: 1 if path == csname + '.reset' else orig_get(path)
    try:
        Interp(repo, cm, Ctx(), cmodel, self_name=csname).run(fetch.func.body)
    except U._Return:
        pass
    after = cmodel.attrs.get(pc_attr)
    cons = f"ProcCL: {pc_attr} = {rv:#x} at construction and under reset"
    if after is None or termof(after) != ('const', rv) or init is None or termof(init) != ('const', rv) or cmodel.e['fetch']:
        r.bad(cm, 'ProcCL.construct.' + fetch.func.name, cons, f"{pc_attr} is {after!r} after reset (initial {init!r}), the ISA reset "
                                                               f"vector is {rv:#x}")
    else:
        r.ok(cm, 'ProcCL.construct.' + fetch.func.name, cons)
    # RTL: the first fetch address is (reset value of the PC register) + (increment)
    incs = [i for i in st.incr if any(mn == st.pcreg.path + '.out' for mn, sl in st.d.members((i.path + '.in_', None)))]
    cons = "ProcDpath: PC register reset value + increment = reset vector"
    rvk = st.pcreg.kwargs.get('reset_value', 0)
    if len(incs) != 1 or not isinstance(rvk, int) or not isinstance(incs[0].kwargs.get('amount', 1), int):
        raise AnalysisError("R-C20-arch: cannot read the PC register reset value / increment of ProcDpath")
    first = rvk + incs[0].kwargs.get('amount', 1)
    if first != rv:
        r.bad(dp, 'ProcDpath.construct', cons, f"the first fetch goes to {first:#x} (reset value {rvk:#x} + {incs[0].kwargs.get('amount', 1)}), "
                                               f"the ISA reset vector is {rv:#x}")
    else:
        r.ok(dp, 'ProcDpath.construct', cons)
    _floor(r, 7)
    return r


# ---------------------------------------------------------------------------
# R-C20-cksum: the three checksum models compute the same function of the 8 input words
def cksum_reference(words):
    """the specification (docstring of ChecksumFL.py): Fletcher's sums with modulus 65536, result sum2:sum1"""
    s1 = s2 = BV.const(0, 16)
    for w in words:
        s1 = U.binop('and', U.binop('add', s1, w), 0xffff)
        s2 = U.binop('and', U.binop('add', s2, s1), 0xffff)
    return U.do_concat([s2, s1])


def msg_words():
    msg = Sym(('msg',), 128)
    return msg, [U.do_slice(msg, 16 * i, 16 * i + 16) for i in range(8)]


def rule_cksum(repo):
    r = RuleResult('R-C20-cksum', "ChecksumFL.checksum, ChecksumCL (unpacking + the same function) and ChecksumRTL (eight chained "
                                  "step units + final combination) denote the same arithmetic function of the eight 16-bit words "
                                  "(word order, operand widths, modulus 2^16, result sum2:sum1), compared in a modular normal form")
    fl = repo.mod(CK_FL)
    f = fl.functions.get('checksum')
    if f is None:
        raise AnalysisError("anchor vanished: ChecksumFL.checksum")
    # FL on eight free 16-bit words.  Data-dependent control flow (`if word == 0: continue`) is followed on both outcomes;
    # on a path that assumes some words to be zero the specification is evaluated with those words zero.
    free = [Sym(('w', i), 16) for i in range(8)]
    cons = "checksum(words) == concat(sum2, sum1), sum1 += w, sum2 += sum1 (mod 2^16), words in order, on every path"

    def cksum_paths(words, runner):
        """-> (number of paths, first deviation or None)"""
        index = {termof(w): i for i, w in enumerate(words)}

        def run(cube, ctx):
            try:
                return runner(ctx)
            except Raised as ex:
                return ('raises', ex.what)
        leaves = explore(U.FULL, run, limit=2048)
        for _, trail, got in leaves:
            assumed = list(words)
            what = []
            for cond, val in trail:
                zero_of = None
                if cond[0] == 'eq' and ('const', 0) in cond[1:]:
                    other = cond[1] if cond[2] == ('const', 0) else cond[2]
                    zero_of = index.get(other)
                if zero_of is None:
                    raise AnalysisError(f"checksum control flow depends on `{show(cond)}`, which the rule cannot relate to the specification")
                what.append(f"word {zero_of} {'==' if val else '!='} 0")
                if val:
                    assumed[zero_of] = BV.const(0, 16)
            want = cksum_reference(assumed)
            if isinstance(got, tuple) and got and got[0] == 'raises':
                return len(leaves), f"on the path {' and '.join(what) or 'taken by every input'} the model raises {got[1]}"
            if got is None or T(got) != T(want):
                return len(leaves), (f"for inputs with {' and '.join(what) or 'any words'} the model computes "
                                     f"{show(T(got))[:300] if got is not None else 'nothing'}; the specification gives {show(T(want))[:300]}")
        return len(leaves), None

    n, dev = cksum_paths(free, lambda ctx: Interp(repo, fl, ctx, self_name=None).call_func(U.FuncRef(fl, f), [list(free)], {}))
    r.evaluations += n
    if dev:
        r.bad(fl, 'checksum', cons, "the FL function deviates from the specified sums: " + dev)
    else:
        r.ok(fl, 'checksum', cons, note=f"{n} paths")
    # pack / unpack helpers are inverse and little-endian in words
    ut = repo.mod(CK_UTILS)
    for need in ('words_to_b128', 'b128_to_words'):
        if need not in ut.functions:
            raise AnalysisError(f"anchor vanished: {need}")
    srcw = [BV(('m', 16 * i + k) for k in range(16)) for i in range(8)]
    it = Interp(repo, ut, Ctx(), self_name=None)
    cons = "words_to_b128: word i occupies bits 16i..16i+15; b128_to_words is its inverse"
    try:
        packed = it.call_func(U.FuncRef(ut, ut.functions['words_to_b128']), [list(srcw)], {})
        back = it.call_func(U.FuncRef(ut, ut.functions['b128_to_words']), [packed], {})
        ok = isinstance(packed, BV) and packed.bits == tuple(('m', k) for k in range(128)) and back == srcw
    except Raised:
        ok = False
    r.evaluations += 2
    if ok:
        r.ok(ut, 'words_to_b128', cons)
    else:
        r.bad(ut, 'words_to_b128', cons, "packing and unpacking of the 128-bit message disagree on the word order: FL (list of "
                                         "words) and CL/RTL (packed message) see different inputs")
    msg, words = msg_words()
    want = cksum_reference(words)
    # CL
    cl = repo.mod(CK_CL)
    d = design(repo, CK_CL, 'ChecksumCL')
    if len(d.top.blocks) != 1:
        raise AnalysisError("ChecksumCL no longer has a single update block")
    sent = []

    class M(Model):
        def call(self, path, args, kwargs):
            if path.endswith('.rdy') and not args:
                return True
            if path.endswith('.deq') and not args:
                return msg
            if path == 's.send' and len(args) == 1:
                sent.append(args[0])
                return None
            raise AnalysisError(f"call of {path} outside the checksum CL model")
    sname = d.top.sname

    def run_clk(ctx):
        del sent[:]
        Interp(repo, cl, ctx, M(), self_name=sname).run(d.top.blocks[0].func.body)
        if len(sent) != 1:
            raise Raised(f"{len(sent)} messages sent")
        return sent[0]
    n, dev = cksum_paths(words, run_clk)
    r.evaluations += n
    cons = "ChecksumCL: send( checksum( b128_to_words( msg ) ) )"
    if dev:
        r.bad(cl, 'ChecksumCL.construct.' + d.top.blocks[0].func.name, cons, "the CL model deviates from the specified sums: " + dev)
    else:
        r.ok(cl, 'ChecksumCL.construct.' + d.top.blocks[0].func.name, cons, note=f"{n} paths")
    # RTL
    rt = repo.mod(CK_RTL)
    dr = design(repo, CK_RTL, 'ChecksumRTL')
    qs = [p for p, i in dr.insts.items() if p and i.kind == 'opaque' and
          any(mn in ('recv', 'recv.msg') for mn, sl in dr.members((p + '.enq', None)))]
    if len(qs) != 1:
        raise AnalysisError("ChecksumRTL: cannot identify the input queue (the queue connected to recv)")
    over = {qs[0] + '.deq.ret': msg}
    ev = Eval(dr, over, Ctx())
    for p in dr.insts:
        ev.over[(p + '.reset') if p else 'reset'] = BV.const(0, 1)
    try:
        got = ev.value('send.msg')
    except Raised:
        got = None
    r.evaluations += ev.blocks_run
    steps = [p for p, i in dr.insts.items() if i.kind == 'src' and p]
    cons = f"ChecksumRTL: send.msg over {len(steps)} chained step units"
    if got is None or T(got) != T(want):
        r.bad(rt, 'ChecksumRTL.construct', cons, f"the RTL model outputs {show(T(got)) if got is not None else 'nothing'}; the "
                                                 f"specification is {show(T(want))}")
    else:
        r.ok(rt, 'ChecksumRTL.construct', cons)
    if len(steps) < 8:
        r.bad(rt, 'ChecksumRTL.construct', 'eight step units', f"only {len(steps)} step units are instantiated")
    else:
        r.ok(rt, 'ChecksumRTL.construct', 'eight step units')
    _floor(r, 5)
    return r



# ---------------------------------------------------------------------------
# Structural necessary conditions inside the pipeline control of ProcCtrl.  They do NOT decide that the pipeline is
# correct (no hazard is simulated); they decide two code-shape facts whose violation breaks some program.
def ctrl_info(repo):
    st = rtl_setup(repo)
    infos = [i for i in st.d.insts.values() if i.kind == 'src' and i.cls.name == 'ProcCtrl']
    if len(infos) != 1:
        raise AnalysisError("ProcRTL no longer instantiates exactly one ProcCtrl")
    return st, infos[0]


def ctrl_defs(info):
    """signal -> [(guards, value node)] over the combinational blocks, in program order; ff-written names"""
    defs, ff = {}, {}

    from sa.astutil import subst

    def walk(stmts, guards, kind, local):
        for stx in stmts:
            if isinstance(stx, ast.AugAssign) and isinstance(stx.op, (ast.MatMult, ast.LShift)):
                t = stx.target
                if isinstance(t, ast.Attribute) and isinstance(t.value, ast.Name) and t.value.id == info.sname:
                    (defs if kind == 'update' else ff).setdefault(t.attr, []).append((guards, subst(stx.value, local) if local else stx.value))
            elif isinstance(stx, ast.Assign) and len(stx.targets) == 1 and isinstance(stx.targets[0], ast.Name):
                # a hoisted temporary: later uses in the block denote its value
                local[stx.targets[0].id] = subst(stx.value, local) if local else stx.value
            elif isinstance(stx, ast.If):
                test = subst(stx.test, local) if local else stx.test
                walk(stx.body, guards + ((test, True),), kind, dict(local))
                walk(stx.orelse, guards + ((test, False),), kind, dict(local))
    for b in info.blocks:
        walk(b.func.body, (), b.kind, {})
    return defs, ff


class BoolNF:
    """normal form of the Boolean / comparison expressions of the control unit: & and | flattened and sorted,
    == / != with sorted operands, constants folded to their values, instruction fields to their bit range"""
    def __init__(self, repo, info):
        self.it = Interp(repo, info.mod, env=dict(info.consts), self_name=None)
        self.sname = info.sname

    def const(self, e):
        try:
            v = self.it.ev(e)
        except (AnalysisError, Undetermined, Raised, U.Fork):
            raise AnalysisError(f"cannot normalise `{norm(e)}` in the control unit")
        if isinstance(v, BV) and v.concrete():
            return ('k', v.value())
        if isinstance(v, (int, bool)):
            return ('k', int(v))
        if isinstance(v, slice):
            return ('slice', v.start, v.stop)
        raise AnalysisError(f"`{norm(e)}` is not a constant of the control unit")

    def nf(self, e):
        if isinstance(e, ast.BinOp) and isinstance(e.op, (ast.BitAnd, ast.BitOr)):
            op = 'and' if isinstance(e.op, ast.BitAnd) else 'or'
            return self._assoc(op, [self.nf(e.left), self.nf(e.right)])
        if isinstance(e, ast.BoolOp):
            return self._assoc('and' if isinstance(e.op, ast.And) else 'or', [self.nf(v) for v in e.values])
        if isinstance(e, ast.UnaryOp) and isinstance(e.op, (ast.Invert, ast.Not)):
            x = self.nf(e.operand)
            return x[1] if x[0] == 'not' else ('not', x)
        if isinstance(e, ast.Compare) and len(e.ops) == 1 and isinstance(e.ops[0], (ast.Eq, ast.NotEq)):
            a, b = sorted((self.nf(e.left), self.nf(e.comparators[0])), key=repr)
            return ('eq' if isinstance(e.ops[0], ast.Eq) else 'ne', a, b)
        if isinstance(e, ast.Attribute):
            parts, cur = [], e
            while isinstance(cur, ast.Attribute):
                parts.append(cur.attr)
                cur = cur.value
            if isinstance(cur, ast.Name) and cur.id == self.sname:
                return ('sig', '.'.join(reversed(parts)))
            return self.const(e)
        if isinstance(e, ast.Subscript):
            base = self.nf(e.value)
            idx = self.const(e.slice) if not isinstance(e.slice, ast.Slice) else \
                ('slice', self.const(e.slice.lower)[1], self.const(e.slice.upper)[1])
            if base[0] == 'sig' and idx[0] == 'slice':
                return ('fld', base[1], idx[1], idx[2])
            return ('idx', base, idx)
        if isinstance(e, ast.Call) and norm(e.func) in ('zext', 'sext') and len(e.args) == 2:
            return self.nf(e.args[0])
        if isinstance(e, (ast.Name, ast.Constant)):
            return self.const(e)
        raise AnalysisError(f"expression `{norm(e)[:60]}` outside the Boolean normal form of the control unit")

    @staticmethod
    def _assoc(op, items):
        flat = []
        for x in items:
            flat.extend(x[1:] if x[0] == op else [x])
        return (op,) + tuple(sorted(set(flat), key=repr))

    def definition(self, entries):
        return tuple((tuple((self.nf(t), pol) for t, pol in guards), self.nf(v)) for guards, v in entries)


def _walk_nf(t):
    yield t
    if isinstance(t, tuple):
        for x in t:
            if isinstance(x, tuple):
                yield from _walk_nf(x)


def _rename(t, table, fields):
    """swap the two operand families in a normal form: signal names by `table`, instruction fields by `fields`"""
    if isinstance(t, tuple):
        if t and t[0] == 'sig':
            return ('sig', table.get(t[1], t[1]))
        if t and t[0] == 'fld' and (t[2], t[3]) in fields:
            lo, hi = fields[(t[2], t[3])]
            return ('fld', t[1], lo, hi)
        r = tuple(_rename(x, table, fields) for x in t)
        if r and r[0] in ('and', 'or'):
            return (r[0],) + tuple(sorted(set(r[1:]), key=repr))
        if r and r[0] in ('eq', 'ne'):
            a, b = sorted(r[1:], key=repr)
            return (r[0], a, b)
        return r
    return t


def _sibling_name(name):
    for a, b in (('rs1', 'rs2'), ('op1', 'op2')):
        if a in name:
            return name.replace(a, b)
    return None


def rule_hazard_symmetry(repo):
    r = RuleResult('R-C20-hazard-symmetry',
                   "necessary condition only (pipeline correctness is NOT decided): in ProcCtrl the hazard-stall and "
                   "bypass-select logic of the second source operand is the first operand's logic under the renaming "
                   "rs1<->rs2 / op1<->op2 / field RS1<->RS2; each side reads the instruction field of the register port it "
                   "serves; the operand enables are set for every instruction whose ISA semantics read that register")
    st, info = ctrl_info(repo)
    spec = doc_spec(repo)
    mod = info.mod
    nfz = BoolNF(repo, info)
    defs, ff = ctrl_defs(info)
    names = set(defs) | set(ff)
    any_inst = next(n for n in spec.insts if spec.insts[n]['type'] == 'R')
    f1 = spec.field(any_inst, 'rs1')
    f2 = spec.field(any_inst, 'rs2')
    F1, F2 = (f1[1], f1[0] + 1), (f2[1], f2[0] + 1)
    fields = {F1: F2, F2: F1}
    table = {}
    for n in names:
        sib = _sibling_name(n)
        if sib and sib in names:
            table[n], table[sib] = sib, n
    dnf = {n: nfz.definition(e) for n, e in defs.items() if n != 'cs'}

    def flds(n):
        return {(t[2], t[3]) for t in _walk_nf(dnf[n]) if isinstance(t, tuple) and t and t[0] == 'fld' and (t[2], t[3]) in fields}

    def sigs(n):
        return {t[1] for t in _walk_nf(dnf[n]) if isinstance(t, tuple) and t and t[0] == 'sig'}

    where = 'ProcCtrl.construct'
    family1 = sorted(n for n in dnf if flds(n) and _sibling_name(n))
    consistent = []
    lonely = sorted(n for n in dnf if flds(n) and not _sibling_name(n) and not any(s in n for s in ('rs2', 'op2')))
    for n in family1:
        sib = _sibling_name(n)
        cons = f"{n} ~ {sib} under rs1<->rs2"
        if sib not in dnf:
            r.bad(mod, where, cons, f"{n} reads a source-register field but has no second-operand sibling {sib}: hazards on the "
                                    f"other source operand are not handled")
            continue
        if _rename(dnf[n], table, fields) != dnf[sib]:
            # find the first differing assignment for the message
            a, b = _rename(dnf[n], table, fields), dnf[sib]
            k = next((i for i, (x, y) in enumerate(zip(a, b)) if x != y), min(len(a), len(b)))
            src = defs[sib][k][1] if k < len(defs[sib]) else None
            r.bad(mod, where, cons,
                  f"the logic of {sib} is not the logic of {n} with the operands renamed (assignment {k + 1}: "
                  f"`{norm(src)[:110] if src is not None else 'missing'}`): a dependence through the second source register is "
                  f"detected on the wrong register / not at all, so e.g. `lw x5,..; sw x5,..` uses a stale value",
                  getattr(src, 'lineno', 0))
        elif flds(n) != {F1} or flds(sib) != {F2}:
            r.bad(mod, where, cons, f"{n} reads instruction bits {sorted(flds(n))} and {sib} {sorted(flds(sib))}; expected rs1 "
                                    f"{F1} and rs2 {F2} of the ISA document")
        else:
            r.ok(mod, where, cons)
            consistent.extend([n, sib])
    for n in lonely:
        r.bad(mod, where, n, f"{n} compares a source-register field but is named for neither operand: outside the rule")
    # signals that combine both families must be invariant under the swap
    fam = set(table)
    for n in sorted(dnf):
        s_ = sigs(n)
        if n not in fam and (s_ & fam) and not flds(n):
            cons = f"{n} treats both operands alike"
            if _rename(dnf[n], table, fields) != dnf[n]:
                missing = sorted(table[x] for x in s_ & fam if table[x] not in s_)
                r.bad(mod, where, cons, f"{n} uses {sorted(s_ & fam)} but not {missing}: one operand's hazard never stalls the pipeline")
            else:
                r.ok(mod, where, cons)
    # each bypass select is computed from the field its register-file port reads
    d = st.d
    for mux_out, rdata in sorted(st.alias.items()):
        mux = mux_out[:-len('.out')]
        port = rdata[rdata.index('rdata[') + 6:-1]
        ev = Eval(d, dict(st.over, **{st.roles['imem.resp'] + '.deq.ret.data': instvec(U.FULL)}), Ctx(), alias=st.alias)
        addr = ev.value(f"{st.rf.path}.raddr[{port}]")
        if not (isinstance(addr, BV) and all(isinstance(b, tuple) for b in addr.bits)):
            raise AnalysisError("register-file read address is not an instruction field")
        want = (addr.bits[0][1], addr.bits[-1][1] + 1)
        sel = [m[len(info.path) + 1:] for m, sl in d.members((mux + '.sel', None))
               if sl is None and m.startswith(info.path + '.') and m[len(info.path) + 1:] in dnf]
        cons = f"select of {mux} reads the field of register port {port} (inst[{want[0]}:{want[1]}])"
        if len(sel) != 1:
            raise AnalysisError(f"cannot find the control signal selecting {mux}")
        got = flds(sel[0])
        if got != {want}:
            r.bad(mod, where, cons, f"{sel[0]} compares instruction bits {sorted(got)} with the destinations in flight, but the "
                                    f"operand it selects is read with bits {want}: the bypass fires for the wrong register")
        else:
            r.ok(mod, where, cons)
    # operand enables cover the ISA's register reads
    en_of = {}
    if not consistent:
        r.require_floor(1)
        return r            # every pair is already reported; the enable columns cannot be identified from broken logic
    for n in consistent:
        for f in flds(n):
            for sname_ in sigs(n):
                e = defs.get(sname_)
                if e and len(e) == 1 and any(isinstance(t, tuple) and t[:2] == ('fld', 'cs') for t in _walk_nf(nfz.nf(e[0][1]))):
                    en_of.setdefault(f, set()).add(sname_)
    if set(en_of) != {F1, F2} or any(len(v) != 1 for v in en_of.values()):
        raise AnalysisError(f"cannot identify the operand-enable columns of the control table ({en_of})")
    for name, tag, cube in spec_cases(spec):
        def run(cu, ctx):
            eff = spec.run(repo, name, cu, ctx)
            reads = set()
            for t in _walk_nf(tuple(eff[k] for k in SLOTS if eff.get(k) is not None)):
                if isinstance(t, tuple) and len(t) == 2 and t[0] == 'R' and all(isinstance(b, tuple) for b in t[1]):
                    reads.add((t[1][0][1], t[1][-1][1] + 1))
            over = dict(st.over)
            over[st.roles['imem.resp'] + '.deq.ret.data'] = instvec(cu)
            ev = Eval(d, over, ctx, alias=st.alias)
            for p in d.insts:
                ev.over[(p + '.reset') if p else 'reset'] = BV.const(0, 1)
            return tuple(sorted((f, _bit(ev.value(info.path + '.' + next(iter(en_of[f]))), 'operand enable'))
                                for f in reads if f in en_of))
        leaves = explore(cube, run)
        r.evaluations += len(leaves)
        bad = [(c, f) for c, tr, res in leaves for f, v in res if not v]
        cons = f"{name}{tag}: operand enables cover the registers read by `{spec.insts[name]['semantics']}`"
        if bad:
            c, f = bad[0]
            r.bad(mod, 'ProcCtrl.construct.comb_control_table_D', cons,
                  f"{next(iter(en_of[f]))} is 0 for words {c} although the instruction reads R[inst[{f[0]}:{f[1]}]]: no stall and no "
                  f"bypass protects that operand, it is read stale right after an instruction writing it")
        else:
            r.ok(mod, 'ProcCtrl.construct.comb_control_table_D', cons)
    _floor(r, 18)
    return r


# side-effect enables that are deliberately not gated like their stage's other effects: sink role -> (what may be
# missing, reason confirmed by reading ProcCtrlRTL.py / ProcRTL.py)
GATING_EXCEPTIONS = {
    'imem request enq.en': ('unstaged', "the fetch request is issued before the F stage holds an instruction and must also be "
                                        "issued when F is squashed (redirect): gated by ~reset & (~stall_F | squash_F) & rdy"),
    'imem response deq.en': ('unstaged', "the response of a squashed fetch must still be taken (the drop unit discards it): "
                                         "~stall_F | squash_F"),
    'register-file wen': ({'stall'}, "a register write repeated while W stalls is idempotent, and W only stalls for csrw "
                                     "proc2mngr, which does not write the register file"),
}
GATE_PREFIXES = ('stall_', 'squash_', 'ostall_', 'osquash_')


def rule_gating(repo):
    r = RuleResult('R-C20-gating',
                   "necessary condition only (pipeline correctness is NOT decided): every enable of ProcCtrl that causes an "
                   "architecturally visible side effect (queue dequeue, memory / accelerator / manager request, register write) "
                   "carries the valid bit of its stage and the negated stall / squash terms that the stage's advance condition and "
                   "its sibling side-effect enables carry, so that a stalled or squashed instruction has no effect")
    st, info = ctrl_info(repo)
    d, q = st.d, st.roles
    mod = info.mod
    nfz = BoolNF(repo, info)
    defs, ff = ctrl_defs(info)
    drops = [p for p, i in d.insts.items() if i.kind == 'src' and i is not info and
             any(m.startswith(p + '.') for m, sl in d.members((q['imem.resp'] + '.deq.en', None)))]
    sinks = [('mngr2proc deq.en', q['mngr2proc'] + '.deq.en'), ('proc2mngr en', 'proc2mngr.en'),
             ('dmem request en', 'dmem.req.en'), ('xcel request en', 'xcel.req.en'),
             ('dmem response deq.en', q['dmem.resp'] + '.deq.en'), ('xcel response deq.en', q['xcel.resp'] + '.deq.en'),
             ('register-file wen', st.rf.path + '.wen[0]'), ('imem request enq.en', q['imem.req'] + '.enq.en'),
             ('imem response deq.en', (drops[0] + '.out.en') if len(drops) == 1 else q['imem.resp'] + '.deq.en')]

    def driver(ref):
        c = [m[len(info.path) + 1:] for m, sl in d.members((ref, None))
             if sl is None and m.startswith(info.path + '.') and (m[len(info.path) + 1:] in defs)]
        if len(c) != 1:
            raise AnalysisError(f"cannot find the control-unit signal driving {ref}")
        return c[0]

    def expand(name, depth=0):
        """conjuncts of the (single, unguarded) definition, helper wires inlined"""
        e = defs.get(name)
        if e is None or len(e) != 1 or e[0][0]:
            raise AnalysisError(f"side-effect enable {name} is not a single unconditional assignment: outside the rule")
        return conj(nfz.nf(e[0][1]), depth)

    def conj(t, depth):
        items = t[1:] if t[0] == 'and' else (t,)
        out = set()
        for x in items:
            if x[0] == 'sig' and x[1] in defs and x[1] not in ff and not x[1].startswith(('val_',) + GATE_PREFIXES) \
                    and len(defs[x[1]]) == 1 and not defs[x[1]][0][0] and depth < 4:
                sub = nfz.nf(defs[x[1]][0][1])
                if sub[0] == 'and' or (sub[0] == 'sig'):
                    out |= conj(sub, depth + 1)
                    continue
            out.add(x)
        return out

    def gates(cs):
        g, stage = set(), set()
        for x in cs:
            if x[0] == 'sig' and x[1].startswith('val_'):
                stage.add(x[1][4:])
                g.add(('val', x[1]))
            elif x[0] == 'not' and x[1][0] == 'sig' and x[1][1].startswith(GATE_PREFIXES):
                g.add(('not', x[1][1]))
        return g, stage

    # the advance condition of each stage: what is latched into the next stage's valid bit
    family = {}
    for name, entries in ff.items():
        if name.startswith('val_'):
            for guards, v in entries:
                t = nfz.nf(v)
                if t[0] == 'sig' and t[1] in defs:
                    g, stage = gates(expand(t[1]))
                    if len(stage) == 1:
                        family.setdefault(next(iter(stage)), []).append((f"advance condition {t[1]}", t[1], g))
    # ... and of the last stage: what is reported as a committed instruction
    try:
        cname = driver('commit_inst')
        g, stage = gates(expand(cname))
        if len(stage) == 1:
            family.setdefault(next(iter(stage)), []).append((f"commit condition {cname}", cname, g))
    except AnalysisError:
        pass
    found = []
    for role, ref in sinks:
        name = driver(ref)
        g, stage = gates(expand(name))
        found.append((role, name, g, stage))
        if len(stage) == 1:
            family.setdefault(next(iter(stage)), []).append((role, name, g))
    for role, name, g, stage in found:
        cons = f"{role} <- {name}"
        exc = GATING_EXCEPTIONS.get(role)
        if len(stage) != 1:
            if exc and exc[0] == 'unstaged':
                r.ok(mod, 'ProcCtrl.construct', cons, nontrivial=False, note='exception: ' + exc[1])
            else:
                r.bad(mod, 'ProcCtrl.construct', cons, f"{name} is not gated by the valid bit of exactly one stage (found "
                                                       f"{sorted(stage)}): an invalid (bubble / squashed) instruction performs the side effect")
            continue
        S = next(iter(stage))
        union = set()
        for _, _, g2 in family[S]:
            union |= g2
        missing = union - g
        if exc and isinstance(exc[0], set):
            missing = {m for m in missing if not (m[0] == 'not' and any(m[1].startswith(k) for k in exc[0]))}
        if missing:
            have = sorted(n2 for _, n2, g2 in family[S] if missing & g2)
            m0 = sorted(missing)[0]
            txt = ('~' if m0[0] == 'not' else '') + m0[1]
            r.bad(mod, 'ProcCtrl.construct', cons,
                  f"{name} lacks the conjunct {txt} that {', '.join(have)} of the same stage carry: the side effect ({role}) also "
                  f"happens for an instruction that is {'stalled (repeated every stalled cycle)' if 'stall' in txt else 'squashed (wrong path of a taken branch)' if 'squash' in txt else 'not valid'} "
                  f"-- e.g. a manager message is consumed / a request is sent twice")
        else:
            r.ok(mod, 'ProcCtrl.construct', cons, note=f"stage {S}: " + ' & '.join(sorted(('~' if a == 'not' else '') + b for a, b in g))
                 + (f"; exception: {exc[1]}" if exc else ''))
    r.observations.append("stages and their gating terms: " + '; '.join(
        f"{S}: {sorted(('~' if a == 'not' else '') + b for a, b in set().union(*[g for _, _, g in fam]))}" for S, fam in sorted(family.items())))
    _floor(r, 9)
    return r



# stage registers that are deliberately not enabled by their stage's enable: instance / signal -> reason
STAGE_REG_EXCEPTIONS = {}      # none on today's tree: every datapath and control pipeline register is a stage-enabled register


def rule_stage_regs(repo):
    import re
    r = RuleResult('R-C20-stage-regs',
                   "necessary condition only (pipeline correctness is NOT decided): every pipeline register of the datapath is an "
                   "enable register whose `en` is driven by the control unit's enable of ITS stage, and every pipeline field of the "
                   "control unit is written only under that same stage enable, so that all state of a stalled stage is held together")
    st, info = ctrl_info(repo)
    d = st.d
    nfz = BoolNF(repo, info)
    defs, ff = ctrl_defs(info)
    stage_re = re.compile(r'_([A-Z])(?:_|$)')

    def stage_of(name):
        m = stage_re.findall(name)
        return m[-1] if m else None
    # the stage enables: the guard under which the control unit latches the valid bit of each stage
    enable = {}
    for name, entries in ff.items():
        if name.startswith('val_'):
            gs = set()
            for guards, v in entries:
                g = [(nfz.nf(t), pol) for t, pol in guards]
                if any(t == ('sig', 'reset') and pol for t, pol in g):
                    continue
                pos = [t for t, pol in g if pol and t[0] == 'sig']
                gs.add(pos[-1][1] if pos else None)
            if len(gs) != 1 or None in gs:
                raise AnalysisError(f"cannot identify the stage enable guarding {name}")
            enable[name[4:]] = gs.pop()
    if len(enable) < 5:
        raise AnalysisError(f"fewer than five pipeline stages found in ProcCtrl: {enable}")
    for S, e in sorted(enable.items()):
        same = sorted(T_ for T_, e2 in enable.items() if e2 == e and T_ != S)
        if same:
            r.bad(info.mod, 'ProcCtrl.construct', f"stage {S} has its own enable",
                  f"the valid bit of stage {S} is latched under {e}, which is also the enable of stage {same[0]}: stage {S} is not held "
                  f"when it stalls (its own enable is ignored) and the instruction in it is lost or duplicated")
        else:
            r.ok(info.mod, 'ProcCtrl.construct', f"stage {S} has its own enable ({e})")
    # control unit: every pipeline field of stage S is written only under the enable of S
    for name, entries in sorted(ff.items()):
        S = stage_of(name)
        cons = f"control field {name} latched under the stage enable"
        if S is None or S not in enable:
            r.bad(info.mod, 'ProcCtrl.construct', cons, f"flip-flop signal {name} cannot be attributed to a pipeline stage")
            continue
        wrong = []
        for guards, v in entries:
            g = [(nfz.nf(t), pol) for t, pol in guards]
            if any(t == ('sig', 'reset') and pol for t, pol in g):
                continue
            if (('sig', enable[S]), True) not in g:
                wrong.append(v)
        if wrong and name not in STAGE_REG_EXCEPTIONS:
            r.bad(info.mod, 'ProcCtrl.construct', cons,
                  f"{name} <<= {norm(wrong[0])[:50]} is not guarded by {enable[S]}: while stage {S} stalls the field is overwritten "
                  f"with the next instruction's value although the stage still holds the old instruction", getattr(wrong[0], 'lineno', 0))
        else:
            r.ok(info.mod, 'ProcCtrl.construct', cons + f" ({enable[S]})")
    # datapath: every native register is RegEn/RegEnRst and enabled by the enable of the stage it belongs to
    regs = [i for i in d.insts.values() if i.kind == 'native' and i.cls.name.startswith('Reg') and i.cls.name != 'RegisterFile']
    dp = repo.mod(DPATH)
    for i in sorted(regs, key=lambda x: x.path):
        S = stage_of(i.path.split('.')[-1])
        cons = f"{i.path}: stage register enabled by its stage"
        if i.path in STAGE_REG_EXCEPTIONS:
            r.ok(dp, 'ProcDpath.construct', cons, nontrivial=False, note='exception: ' + STAGE_REG_EXCEPTIONS[i.path])
            continue
        if S is None or S not in enable:
            r.bad(dp, 'ProcDpath.construct', cons, f"register {i.path} cannot be attributed to a pipeline stage")
            continue
        if i.cls.name not in ('RegEn', 'RegEnRst'):
            sib = [x.path for x in regs if stage_of(x.path.split('.')[-1]) == S and x.cls.name in ('RegEn', 'RegEnRst')]
            r.bad(dp, 'ProcDpath.construct', cons,
                  f"{i.path} is a {i.cls.name} without enable while its stage-{S} siblings ({', '.join(sib[:3])}) are held by "
                  f"{enable[S]}: when stage {S} stalls it is overwritten with the value of the following instruction (e.g. a stalled "
                  f"taken branch jumps to the next instruction's target)")
            continue
        drv = [m[len(info.path) + 1:] for m, sl in d.members((i.path + '.en', None))
               if sl is None and m.startswith(info.path + '.') and m[len(info.path) + 1:] in defs]
        if drv != [enable[S]]:
            r.bad(dp, 'ProcDpath.construct', cons,
                  f"{i.path}.en is driven by {drv or 'nothing in the control unit'}, the enable of stage {S} is {enable[S]}: the register "
                  f"is updated / held out of step with the other registers of its stage")
        else:
            r.ok(dp, 'ProcDpath.construct', cons + f" ({enable[S]})")
    r.observations.append(f"stage enables discovered from the valid-bit registers: {dict(sorted(enable.items()))}")
    _floor(r, 40)
    return r



# ---------------------------------------------------------------------------
# R-C20-stage-control: propositional invariants of the stall / squash / enable equations of every stage
def _sat(expr, defs_nf, ff, limit=400000):
    """satisfiability by iterative deepening of the expansion of intermediate signals: unsatisfiable with the signals
    below some depth left free implies unsatisfiable (sound proof of the invariant); a model only counts at full depth"""
    rank = {}

    def expandable(n):
        d = defs_nf.get(n)
        return d is not None and len(d) == 1 and not d[0][0] and n not in ff

    def rk(n, seen=()):
        if n in rank:
            return rank[n]
        if not expandable(n) or n in seen:
            rank[n] = 0
            return 0
        sub = [x[1] for x in _walk_nf(defs_nf[n][0][1]) if isinstance(x, tuple) and len(x) == 2 and x[0] == 'sig']
        rank[n] = 1 + max([rk(x, seen + (n,)) for x in sub] or [0])
        return rank[n]
    top = max([rk(x[1]) for x in _walk_nf(expr) if isinstance(x, tuple) and len(x) == 2 and x[0] == 'sig'] or [0])
    last = None
    for level in range(1, top + 2):
        # expand exactly the signals whose rank is above the cut: the decision depends on the signal only, so every
        # occurrence of a signal is treated alike (an unexpanded signal is a free atom: more behaviours, sound for a proof)
        cut = top - level
        last = _sat_at(expr, defs_nf, ff, lambda n: expandable(n) and rank.get(n, rk(n)) > cut, limit)
        if last is None:
            return None
    return last


def _sat_at(expr, defs_nf, ff, expand, limit):
    """is the Boolean normal-form expression satisfiable?  Signals with a single unconditional combinational definition are
    expanded; registers, inputs and comparisons of data are free atoms (a multi-bit signal compared with constants is one
    variable, so `x == a` and `x == b` exclude each other).  Backtracking with three-valued evaluation; returns a model."""
    budget = [limit]

    def atom_of(t):
        if t[0] in ('eq', 'ne'):
            a, b = t[1], t[2]
            for x, y in ((a, b), (b, a)):
                if y[0] == 'k' and x[0] in ('sig', 'fld'):
                    return ('val', x), y[1], t[0] == 'ne'
            return ('rel', a, b), True, t[0] == 'ne'
        return None

    def ev(t, asg, depth=0):
        budget[0] -= 1
        if budget[0] < 0:
            raise AnalysisError("R-C20-stage-control: the control equations are too large for the exhaustive search")
        h = t[0]
        if h == 'k':
            return bool(t[1]), None
        if h == 'not':
            v, need = ev(t[1], asg, depth)
            return (None if v is None else not v), need
        if h in ('and', 'or'):
            unknown = None
            for x in t[1:]:
                v, need = ev(x, asg, depth)
                if v is None:
                    unknown = unknown or need
                elif v == (h == 'or'):
                    return v, None
            return (None, unknown) if unknown else (h == 'and', None)
        if h == 'sig':
            d = defs_nf.get(t[1])
            if expand(t[1]) and depth < 40:
                return ev(d[0][1], asg, depth + 1)
            key = ('b', t)
            return (asg[key], None) if key in asg else (None, (key, (False, True)))
        a = atom_of(t)
        if a is not None:
            var, val, neg = a
            if var in asg:
                r_ = asg[var] == val
                return (r_ != neg), None
            return None, (var, (val, ('other', val)))
        key = ('b', t)
        return (asg[key], None) if key in asg else (None, (key, (False, True)))

    def search(asg):
        v, need = ev(expr, asg)
        if v is True:
            return asg
        if v is False:
            return None
        var, dom = need
        for choice in dom:
            m = search(dict(asg, **{var: choice}) if isinstance(var, str) else {**asg, var: choice})
            if m is not None:
                return m
        return None
    return search({})


def _model_text(model):
    out = []
    for k, v in model.items():
        if k[0] == 'b' and k[1][0] == 'sig':
            out.append(f"{k[1][1]}={int(bool(v))}")
    return ', '.join(sorted(out)[:10])


def rule_stage_control(repo):
    r = RuleResult('R-C20-stage-control',
                   "necessary condition only (pipeline correctness is NOT decided): for every stage the stall / squash / enable / "
                   "advance equations of ProcCtrl satisfy, for EVERY valuation of registers and inputs (exhaustive propositional "
                   "search): a stalled stage holds and does not advance, a stage that is not stalled accepts, a squashed "
                   "instruction is overwritten and never advances, stall and squash imply valid, and a stage originates a squash "
                   "only in the cycle it advances")
    st, info = ctrl_info(repo)
    nfz = BoolNF(repo, info)
    defs, ff = ctrl_defs(info)
    dnf = {}
    for n, e in defs.items():
        if n == 'cs':
            continue
        try:
            dnf[n] = nfz.definition(e)
        except AnalysisError:
            pass                      # data signals (bit vectors built with concat etc.) are not Boolean equations
    # stage enables and advance signals, discovered from the valid-bit registers
    enable, advance, follows = {}, {}, {}
    for name, entries in ff.items():
        if name.startswith('val_'):
            S = name[4:]
            for guards, v in entries:
                g = [(nfz.nf(t), pol) for t, pol in guards]
                if any(t == ('sig', 'reset') and pol for t, pol in g):
                    continue
                pos = [t for t, pol in g if pol and t[0] == 'sig']
                if pos:
                    enable[S] = pos[-1][1]
                t = nfz.nf(v)
                if t[0] == 'sig' and t[1] in dnf:
                    gset = {x[1] for x in _walk_nf(dnf[t[1]]) if isinstance(x, tuple) and x[:1] == ('sig',) and x[1].startswith('val_')}
                    if len(gset) == 1:
                        advance[next(iter(gset))[4:]] = t[1]
                        follows[next(iter(gset))[4:]] = S
    if len(enable) < 5:
        raise AnalysisError(f"fewer than five pipeline stages found in ProcCtrl: {enable}")
    sig = lambda n: ('sig', n)
    NOT = lambda t: t[1] if t[0] == 'not' else ('not', t)
    AND = lambda *ts: BoolNF._assoc('and', list(ts))
    where = 'ProcCtrl.construct'

    def check(cons, hyp, concl, consequence):
        """hyp => concl for every valuation"""
        m = _sat(AND(hyp, NOT(concl)), dnf, ff)
        r.evaluations += 1
        if m is None:
            r.ok(info.mod, where, cons)
        else:
            r.bad(info.mod, where, cons, f"violated for {_model_text(m) or 'some valuation of the inputs'}: {consequence}")

    for S in sorted(enable):
        en, val = sig(enable[S]), sig('val_' + S)
        stall = sig('stall_' + S) if 'stall_' + S in dnf else None
        squash = sig('squash_' + S) if 'squash_' + S in dnf else None
        osq = sig('osquash_' + S) if 'osquash_' + S in dnf else None
        adv = sig(advance[S]) if S in advance else None
        if stall is None:
            raise AnalysisError(f"stage {S} has no stall signal")
        hold_hyp = AND(stall, NOT(squash)) if squash else stall
        check(f"stage {S}: stalled (and not squashed) => {enable[S]} = 0", hold_hyp, NOT(en),
              f"the registers of stage {S} are overwritten while the instruction in it is stalled: that instruction is lost")
        check(f"stage {S}: not stalled => {enable[S]} = 1", NOT(stall), en,
              f"stage {S} does not accept the instruction that the previous stage hands over: that instruction is lost")
        check(f"stage {S}: stalled => valid", stall, val, f"an empty stage {S} stalls the pipeline / holds garbage")
        if adv:
            check(f"stage {S}: stalled => {advance[S]} = 0", stall, NOT(adv),
                  f"a stalled instruction in {S} also advances to the next stage: it is executed twice")
            check(f"stage {S}: {advance[S]} => valid", adv, val, f"a bubble in {S} becomes a valid instruction in the next stage")
        if squash:
            check(f"stage {S}: squashed => {enable[S]} = 1", squash, en,
                  f"a squashed (wrong-path) instruction that is stalled in {S} at the same time keeps its valid bit and is executed "
                  f"after the branch")
            check(f"stage {S}: squashed => valid", squash, val, f"a bubble in {S} is reported as squashed")
            if adv:
                check(f"stage {S}: squashed => {advance[S]} = 0", squash, NOT(adv),
                      f"a squashed (wrong-path) instruction in {S} advances and is executed after the taken branch")
        if osq:
            check(f"stage {S}: originates a squash => valid and not stalled", osq, AND(val, NOT(stall)),
                  f"a taken branch that is stalled in {S} squashes and redirects the front end in every stalled cycle, not once: "
                  f"instructions fetched from the branch target are killed again / the target is requested repeatedly")
    # between consecutive stages: S hands its instruction over only in a cycle in which the next stage T accepts it
    if len(follows) < 4:
        raise AnalysisError(f"fewer than four stage-to-stage hand-overs found in ProcCtrl: {follows}")
    for S, T_ in sorted(follows.items()):
        if S not in advance or T_ not in enable:
            raise AnalysisError(f"hand-over {S}->{T_} without advance / enable signal")
        check(f"hand-over {S}->{T_}: {advance[S]} => {enable[T_]}", sig(advance[S]), sig(enable[T_]),
              f"stage {S} advances although stage {T_} holds its (stalled) instruction: {S} considers its instruction delivered and "
              f"takes the next one, {T_} never latches it -- the instruction is silently dropped (e.g. `lw; lw; addi` with a memory "
              f"latency of two or more cycles)")
    r.observations.append(f"stage enables {dict(sorted(enable.items()))}, advance signals {dict(sorted(advance.items()))}, "
                          f"hand-overs {dict(sorted(follows.items()))}")
    _floor(r, 34)
    return r


def rule_cl_messages_copied(repo):
    """the CL models of the examples receive their messages through CL queues, delay pipes and RTL->CL adapters, which copy an
    accepted message with clone_deepcopy: a Bits message handed over by reference (the adapter passes the value object of its
    RTL port, which the simulator updates in place) changes inside the queue when the next value is driven, and the CL model
    computes on another message than FL / RTL do -- decided by C17 (R-C17-copy)"""
    from rules.c17 import rule_copy
    return rule_copy(repo)


RULES = [rule_cl_messages_copied, rule_isa_doc, rule_encoding, rule_isa_set, rule_decode, rule_fl, rule_cl, rule_rtl, rule_arch, rule_cksum,
         rule_hazard_symmetry, rule_gating, rule_stage_regs, rule_stage_control]


# ---------------------------------------------------------------------------
# self-test of the checker (thorough tier)
def _m(name, file, old, new, rule=None, count=1):
    return dict(name=name, file=file, old=old, new=new, rule=rule, count=count)


def _m2(name, edits, rule=None):
    return dict(name=name, file=edits[0][0], old=edits[0][1], new=edits[0][2], rule=rule,
                edits=[dict(file=f, old=o, new=n, count=1) for f, o, n in edits])


MUTANTS = [
    # --- ProcFL ---------------------------------------------------------------------------------------------------
    _m('fl-add-wrong-reg', FL, "s.R[inst.rd] = s.R[inst.rs1] + s.R[inst.rs2]", "s.R[inst.rd] = s.R[inst.rs1] + s.R[inst.rs1]", 'R-C20-fl'),
    _m('fl-sll-shamt-unmasked', FL, "s.R[inst.rs1] << (s.R[inst.rs2] & 0x1F)", "s.R[inst.rs1] << s.R[inst.rs2]", 'R-C20-fl'),
    _m('fl-srl-becomes-sll', FL, "s.R[inst.rs1] >> (s.R[inst.rs2].uint() & 0x1F)", "s.R[inst.rs1] << (s.R[inst.rs2].uint() & 0x1F)", 'R-C20-fl'),
    _m('fl-addi-wrong-imm-field', FL, "s.R[inst.rd] = s.R[inst.rs1] + sext( inst.i_imm, 32 )", "s.R[inst.rd] = s.R[inst.rs1] + sext( inst.s_imm, 32 )", 'R-C20-fl'),
    _m('fl-addi-zero-extended', FL, "s.R[inst.rd] = s.R[inst.rs1] + sext( inst.i_imm, 32 )", "s.R[inst.rd] = s.R[inst.rs1] + zext( inst.i_imm, 32 )", 'R-C20-fl'),
    _m('fl-sw-stores-rs1', FL, "s.dmem.write( addr, 4, s.R[inst.rs2] )", "s.dmem.write( addr, 4, s.R[inst.rs1] )", 'R-C20-fl'),
    _m('fl-lw-wrong-dest', FL, "s.R[inst.rd] = s.dmem.read( addr, 4 )", "s.R[inst.rs2] = s.dmem.read( addr, 4 )", 'R-C20-fl'),
    _m('fl-bne-inverted', FL, "if s.R[inst.rs1] != s.R[inst.rs2]:", "if s.R[inst.rs1] == s.R[inst.rs2]:", 'R-C20-fl'),
    _m('fl-bne-target-plus4', FL, "s.PC = s.PC + sext( inst.b_imm, 32 )", "s.PC = s.PC + 4 + sext( inst.b_imm, 32 )", 'R-C20-fl'),
    _m('fl-csrw-wrong-csr', FL, "if   inst.csrnum == 0x7C0:", "if   inst.csrnum == 0x7C1:", 'R-C20-fl'),
    _m('fl-xcel-range', FL, "elif 0x7E0 <= inst.csrnum <= 0x7FF:\n            s.R[inst.rd] = s.xcel.read", "elif 0x7E0 <= inst.csrnum <= 0x7EF:\n            s.R[inst.rd] = s.xcel.read", 'R-C20-fl'),
    _m('fl-and-becomes-or', FL, "s.R[inst.rd] = s.R[inst.rs1] & s.R[inst.rs2]", "s.R[inst.rd] = s.R[inst.rs1] | s.R[inst.rs2]", 'R-C20-fl'),
    _m('fl-and-branch-lost', FL, 'elif inst_name == "and":', 'elif inst_name == "andn":', 'R-C20'),
    _m('fl-lw-address-in-python-ints', FL, "addr = s.R[inst.rs1] + sext( inst.i_imm, 32 )", "addr = s.R[inst.rs1].uint() + inst.i_imm.int()", 'R-C20-fl'),
    _m('fl-fetch-address', FL, "s.raw_inst = s.imem.read( s.PC, 4 )", "s.raw_inst = s.imem.read( s.PC + 4, 4 )", 'R-C20-fl'),
    _m('fl-lw-pc-not-advanced', FL, "s.R[inst.rd] = s.dmem.read( addr, 4 )\n          s.PC += 4", "s.R[inst.rd] = s.dmem.read( addr, 4 )", 'R-C20-fl'),
    # --- tinyrv0_encoding -----------------------------------------------------------------------------------------
    _m('enc-and-funct3', ENC, "0b00000000000000000111000000110011 ], # R-type", "0b00000000000000000110000000110011 ], # R-type", 'R-C20-encoding'),
    _m('enc-sll-mask-ignores-funct7', ENC, '[ "sll    rd, rs1, rs2",     0b11111110000000000111000001111111', '[ "sll    rd, rs1, rs2",     0b00000000000000000111000001111111', 'R-C20-encoding'),
    _m('enc-sw-operands-swapped', ENC, '"sw     rs2, s_imm(rs1)"', '"sw     rs1, s_imm(rs2)"', 'R-C20-encoding'),
    _m('enc-row-lost', ENC, '  [ "srl    rd, rs1, rs2", ', '  [ "sra    rd, rs1, rs2", ', 'R-C20'),
    _m('name-srl-funct3', ENC, 'elif self.funct3 == 0b101: return "srl"', 'elif self.funct3 == 0b100: return "srl"', 'R-C20-decode'),
    _m('name-lw-sw-swapped', ENC, 'if self.funct3 == 0b010: return "sw"', 'if self.funct3 == 0b010: return "lw"', 'R-C20-decode'),
    _m('field-rs2-slice', ENC, "tinyrv0_field_slice_rs2    = slice( 20, 25 )", "tinyrv0_field_slice_rs2    = slice( 19, 24 )", 'R-C20'),
    _m('bimm-bit11-from-bit31', ENC, "    imm[11:12] = self.bits[ tinyrv0_field_slice_b_imm2 ]", "    imm[11:12] = self.bits[ tinyrv0_field_slice_b_imm3 ]", 'R-C20-fl'),
    _m('simm-low-bits-from-rs2', ENC, "    imm[0:5]  = self.bits[ tinyrv0_field_slice_s_imm0 ]", "    imm[0:5]  = self.bits[ tinyrv0_field_slice_rs2 ]", 'R-C20-fl'),
    _m('asm-bimm-shifted', ENC, "bits[ tinyrv0_field_slice_b_imm0 ] = imm[1:5]", "bits[ tinyrv0_field_slice_b_imm0 ] = imm[0:4]", 'R-C20-encoding'),
    _m('asm-simm-halves-swapped', ENC, "bits[ tinyrv0_field_slice_s_imm0 ] = imm[0:5 ]\n  bits[ tinyrv0_field_slice_s_imm1 ] = imm[5:12]",
       "bits[ tinyrv0_field_slice_s_imm0 ] = imm[7:12]\n  bits[ tinyrv0_field_slice_s_imm1 ] = imm[0:7]", 'R-C20-encoding'),
    _m('asm-csr-name-number', ENC, "    imm = 0xFC0", "    imm = 0xFC1", 'R-C20-encoding'),
    _m('asm-rd-into-rs1', ENC, "  bits[ tinyrv0_field_slice_rd ] = reg_specifier", "  bits[ tinyrv0_field_slice_rs1 ] = reg_specifier", 'R-C20-encoding'),
    _m('enc-csrw-funct3', ENC, "0b00000000000000000001000001110011 ], # I-type, csrrw", "0b00000000000000000010000001110011 ], # I-type, csrrw", 'R-C20-encoding'),
    _m('csrnum-wrong-slice', ENC, "  def csrnum( self ):\n    return self.bits[ tinyrv0_field_slice_i_imm ]", "  def csrnum( self ):\n    return self.bits[ tinyrv0_field_slice_s_imm1 ]", 'R-C20'),
    _m('x0-writable', ENC, "    if idx != 0:\n      self.regs[idx] = Bits32( value )", "    if idx != 32:\n      self.regs[idx] = Bits32( value )", 'R-C20-arch'),
    # --- ProcCL ---------------------------------------------------------------------------------------------------
    _m('cl-add-wrong-reg', CL, "s.R[ inst.rs1 ] + s.R[ inst.rs2 ], DXM_W.arith", "s.R[ inst.rs1 ] + s.R[ inst.rs1 ], DXM_W.arith", 'R-C20-cl'),
    _m('cl-sw-wrong-imm', CL, "s.R[ inst.rs1 ] + sext(inst.s_imm, 32),", "s.R[ inst.rs1 ] + sext(inst.i_imm, 32),", 'R-C20-cl'),
    _m('cl-lw-writes-back-zero', CL, "s.DXM_W_queue.enq( (inst.rd, 0, DXM_W.mem) )", "s.DXM_W_queue.enq( (inst.rd, 0, DXM_W.arith) )", 'R-C20-cl'),
    _m('cl-bne-target-from-fetch-pc', CL, "s.redirected_pc_DXM = pc + sext(inst.b_imm, 32)", "s.redirected_pc_DXM = s.pc + sext(inst.b_imm, 32)", 'R-C20-cl'),
    _m('cl-csrw-sends-rs2', CL, "s.DXM_W_queue.enq( (0, s.R[ inst.rs1 ], DXM_W.mngr) )", "s.DXM_W_queue.enq( (0, s.R[ inst.rs2 ], DXM_W.mngr) )", 'R-C20-cl'),
    _m('cl-pc-enqueued-after-increment', CL, "        s.F_DXM_queue.enq( s.pc )\n        s.F_status = PipelineStatus.work\n        s.pc += 4",
       "        s.pc += 4\n        s.F_DXM_queue.enq( s.pc )\n        s.F_status = PipelineStatus.work", 'R-C20-cl'),
    _m('cl-xcel-read-is-write', CL, "xreq_class( XcelMsgType.READ, inst.csrnum[0:5], s.R[inst.rs1])", "xreq_class( XcelMsgType.WRITE, inst.csrnum[0:5], s.R[inst.rs1])", 'R-C20-cl'),
    _m('cl-store-addr-data-swapped', CL, "s.R[ inst.rs1 ] + sext(inst.s_imm, 32),\n                                      0,\n                                      s.R[ inst.rs2 ] ) )",
       "s.R[ inst.rs2 ],\n                                      0,\n                                      s.R[ inst.rs1 ] + sext(inst.s_imm, 32) ) )", 'R-C20-cl'),
    _m('cl-wb-load-from-xcel-queue', CL, "s.R[ rd ] = Bits32( s.dmemresp_q.deq().data )", "s.R[ rd ] = Bits32( s.xcelresp_q.deq().data )", 'R-C20-cl'),
    _m('cl-srl-amount-unmasked', CL, "s.R[inst.rs1] >> (s.R[inst.rs2].uint() & 0x1F)", "s.R[inst.rs1] >> s.R[inst.rs2].uint()", 'R-C20-cl'),
    _m('cl-redirect-test-excludes-address-0', CL, "        if s.redirected_pc_DXM >= 0:\n          s.imem.req", "        if s.redirected_pc_DXM > 0:\n          s.imem.req", 'R-C20-cl'),
    _m('cl-redirect-cleared-to-zero', CL, "          s.redirected_pc_DXM = -1\n", "          s.redirected_pc_DXM = 0\n", 'R-C20-cl'),
    _m('cl-execute-redirect-test-off-by-one', CL, "      if s.redirected_pc_DXM >= 0:\n        s.DXM_status", "      if s.redirected_pc_DXM >= 4:\n        s.DXM_status", 'R-C20-cl'),
    _m('cl-lw-rd-as-signed-int', CL, "s.DXM_W_queue.enq( (inst.rd, 0, DXM_W.mem) )", "s.DXM_W_queue.enq( (inst.rd.int(), 0, DXM_W.mem) )", 'R-C20-cl'),
    _m('cl-mngr2proc-not-dequeued', CL, "s.DXM_W_queue.enq( (inst.rd, s.mngr2proc_q.deq(), DXM_W.arith) )", "s.DXM_W_queue.enq( (inst.rd, s.mngr2proc_q.peek(), DXM_W.arith) )", 'R-C20-cl'),
    _m('cl-store-response-left-in-queue', CL, "              else: # store\n                s.dmemresp_q.deq()", "              else: # store\n                pass", 'R-C20-cl'),
    # --- ProcCtrlRTL ----------------------------------------------------------------------------------------------
    _m('ctrl-mngr2proc-always-dequeued', CTRL, "s.mngr2proc_en @= s.val_D & ~s.stall_D & ~s.squash_D & s.mngr2proc_D", "s.mngr2proc_en @= s.val_D & ~s.stall_D & ~s.squash_D", 'R-C20-rtl'),
    _m('ctrl-store-response-not-consumed', CTRL, "s.dmemresp_en @= s.val_M & ~s.stall_M & ( s.dmemreq_type_M != nr )", "s.dmemresp_en @= s.val_M & ~s.stall_M & ( s.dmemreq_type_M == ld )", 'R-C20-rtl'),
    _m('ctrl-add-alu-fn', CTRL, "elif inst == ADD  : s.cs @= concat( y, br_na,  y, imm_x, bm_rf,  y, alu_add,", "elif inst == ADD  : s.cs @= concat( y, br_na,  y, imm_x, bm_rf,  y, alu_and,", 'R-C20-rtl'),
    _m('ctrl-addi-op2-from-rf', CTRL, "elif inst == ADDI : s.cs @= concat( y, br_na,  y, imm_i, bm_imm,", "elif inst == ADDI : s.cs @= concat( y, br_na,  y, imm_i, bm_rf, ", 'R-C20-rtl'),
    _m('ctrl-sw-imm-type', CTRL, "elif inst == SW   : s.cs @= concat( y, br_na,  y, imm_s,", "elif inst == SW   : s.cs @= concat( y, br_na,  y, imm_i,", 'R-C20-rtl'),
    _m('ctrl-lw-wb-select', CTRL, "alu_add, ld, wm_m, y,  n, n )", "alu_add, ld, wm_a, y,  n, n )", 'R-C20-rtl'),
    _m('ctrl-sw-writes-rf', CTRL, "alu_add, st, wm_m, n,  n, n )", "alu_add, st, wm_m, y,  n, n )", 'R-C20-rtl'),
    _m('ctrl-bne-not-a-branch', CTRL, "elif inst == BNE  : s.cs @= concat( y, br_ne,", "elif inst == BNE  : s.cs @= concat( y, br_na,", 'R-C20-rtl'),
    _m('ctrl-lw-is-store', CTRL, "alu_add, ld, wm_m, y,  n, n )", "alu_add, st, wm_m, y,  n, n )", 'R-C20-rtl'),
    _m('ctrl-csrw-flag-lost', CTRL, "alu_cp0, nr, wm_a, n,  n, y )", "alu_cp0, nr, wm_a, n,  n, n )", 'R-C20-rtl'),
    _m('ctrl-csrw-copies-op2', CTRL, "bm_imm, n, alu_cp0, nr, wm_a, n,  n, y )", "bm_imm, n, alu_cp1, nr, wm_a, n,  n, y )", 'R-C20-rtl'),
    _m('ctrl-cs-slice-shifted', CTRL, "s.alu_fn_D         @= s.cs[7:11]", "s.alu_fn_D         @= s.cs[8:12]", 'R-C20-rtl'),
    _m('ctrl-pipeline-reg-crosswired', CTRL, "s.wb_result_sel_X  <<= s.wb_result_sel_D", "s.wb_result_sel_X  <<= s.dmemreq_type_D", 'R-C20-rtl'),
    _m('ctrl-store-type-inverted', CTRL, "zext( s.dmemreq_type_X == st, 4 )", "zext( s.dmemreq_type_X == ld, 4 )", 'R-C20-rtl'),
    _m('ctrl-rf-wen-unconditional', CTRL, "s.rf_wen_W @= s.val_W & s.rf_wen_pending_W", "s.rf_wen_W @= s.val_W", 'R-C20-rtl'),
    _m('ctrl-redirect-inverted', CTRL, "(s.br_type_X == br_ne) & s.ne_X", "(s.br_type_X == br_ne) & ~s.ne_X", 'R-C20-rtl'),
    _m('ctrl-alu-code-alias', CTRL, "alu_srl = b4( 4 )", "alu_srl = b4( 3 )", 'R-C20-rtl'),
    _m('ctrl-mngr2proc-select', CTRL, "s.mngr2proc_D    @= s.csrr_D & ( s.inst_D[CSRNUM] == CSR_MNGR2PROC )", "s.mngr2proc_D    @= s.csrr_D & ( s.inst_D[CSRNUM] == CSR_PROC2MNGR )", 'R-C20-rtl'),
    _m('ctrl-waddr-from-rs1', CTRL, "s.rf_waddr_D @= s.inst_D[RD]", "s.rf_waddr_D @= s.inst_D[RS1]", 'R-C20-rtl'),
    _m('ctrl-xcel-type-swapped', CTRL, "s.xcelreq_type_D @= XcelMsgType.READ", "s.xcelreq_type_D @= XcelMsgType.WRITE", 'R-C20-rtl'),
    # --- ProcCtrlRTL: structural necessary conditions of the pipeline control ---------------------------------------
    _m('hz-load-use-rs2-compares-rs1', CTRL, "s.ostall_ld_X_rs2_D @= s.rs2_en_D & s.val_X & s.rf_wen_pending_X \\\n                             & ( s.inst_D[ RS2 ]",
       "s.ostall_ld_X_rs2_D @= s.rs2_en_D & s.val_X & s.rf_wen_pending_X \\\n                             & ( s.inst_D[ RS1 ]", 'R-C20-hazard-symmetry'),
    _m('hz-xcel-rs2-uses-rs1-enable', CTRL, "s.ostall_xcel_X_rs2_D @= s.rs2_en_D", "s.ostall_xcel_X_rs2_D @= s.rs1_en_D", 'R-C20-hazard-symmetry'),
    _m('hz-load-use-rs2-ignores-x0-test', CTRL, "s.ostall_ld_X_rs2_D @= s.rs2_en_D & s.val_X & s.rf_wen_pending_X \\\n                             & ( s.inst_D[ RS2 ] == s.rf_waddr_X ) & ( s.rf_waddr_X != 0 )",
       "s.ostall_ld_X_rs2_D @= s.rs2_en_D & s.val_X & s.rf_wen_pending_X \\\n                             & ( s.inst_D[ RS2 ] == s.rf_waddr_M ) & ( s.rf_waddr_X != 0 )", 'R-C20-hazard-symmetry'),
    _m('byp-op2-compares-rs1', CTRL, "if   s.val_X & ( s.inst_D[ RS2 ] == s.rf_waddr_X )", "if   s.val_X & ( s.inst_D[ RS1 ] == s.rf_waddr_X )", 'R-C20-hazard-symmetry'),
    _m('byp-op2-m-stage-selects-w', CTRL, "& s.rf_wen_pending_M:    s.op2_byp_sel_D @= byp_m", "& s.rf_wen_pending_M:    s.op2_byp_sel_D @= byp_w", 'R-C20-hazard-symmetry'),
    _m('hz-rs2-term-dropped', CTRL, "s.ostall_ld_X_rs1_D   | s.ostall_ld_X_rs2_D |", "s.ostall_ld_X_rs1_D   | s.ostall_ld_X_rs1_D |", 'R-C20-hazard-symmetry'),
    _m('ctrl-sw-rs2-not-enabled', CTRL, "imm_s, bm_imm, y, alu_add, st,", "imm_s, bm_imm, n, alu_add, st,", 'R-C20-hazard-symmetry'),
    _m('ctrl-add-rs1-not-enabled', CTRL, "elif inst == ADD  : s.cs @= concat( y, br_na,  y,", "elif inst == ADD  : s.cs @= concat( y, br_na,  n,", 'R-C20-hazard-symmetry'),
    _m('gate-mngr2proc-ignores-squash', CTRL, "s.mngr2proc_en @= s.val_D & ~s.stall_D & ~s.squash_D & s.mngr2proc_D", "s.mngr2proc_en @= s.val_D & ~s.stall_D & s.mngr2proc_D", 'R-C20-gating'),
    _m('gate-dmemreq-ignores-stall', CTRL, "s.dmemreq_en @= s.val_X & ~s.stall_X & ( s.dmemreq_type_X != nr )", "s.dmemreq_en @= s.val_X & ( s.dmemreq_type_X != nr )", 'R-C20-gating'),
    _m('gate-xcelreq-ignores-valid', CTRL, "s.xcelreq_en @= s.val_X & ~s.stall_X & s.xcelreq_X", "s.xcelreq_en @= ~s.stall_X & s.xcelreq_X", 'R-C20-gating'),
    _m('gate-proc2mngr-ignores-stall', CTRL, "s.proc2mngr_en @= s.val_W & ~s.stall_W & s.proc2mngr_en_W", "s.proc2mngr_en @= s.val_W & s.proc2mngr_en_W", 'R-C20-gating'),
    _m('gate-xcelresp-ignores-stall', CTRL, "s.xcelresp_en @= s.val_M & ~s.stall_M & s.xcelreq_M", "s.xcelresp_en @= s.val_M & s.xcelreq_M", 'R-C20-gating'),
    _m('gate-rf-wen-ignores-valid', CTRL, "s.rf_wen_W @= s.val_W & s.rf_wen_pending_W", "s.rf_wen_W @= s.rf_wen_pending_W", 'R-C20-gating'),
    _m2('stage-branch-target-reg-without-enable', [
        (DPATH, "import Adder, Incrementer, Mux, RegEn, RegEnRst, RegisterFile", "import Adder, Incrementer, Mux, RegEn, RegEnRst, RegRst, RegisterFile"),
        (DPATH, "s.br_target_reg_X = m = RegEnRst( Bits32, reset_value=0 )\n    m.en  //= s.reg_en_X", "s.br_target_reg_X = m = RegRst( Bits32, reset_value=0 )")], 'R-C20-stage-regs'),
    _m('stage-branch-target-reg-enabled-by-D', DPATH, "m.en  //= s.reg_en_X\n    m.in_ //= s.pc_plus_imm_D.out", "m.en  //= s.reg_en_D\n    m.in_ //= s.pc_plus_imm_D.out", 'R-C20-stage-regs'),
    _m('stage-store-reg-enabled-by-M', DPATH, "m.en  //= s.reg_en_X\n    m.in_ //= s.op2_byp_mux_D.out # R[rs2]", "m.en  //= s.reg_en_M\n    m.in_ //= s.op2_byp_mux_D.out # R[rs2]", 'R-C20-stage-regs'),
    _m('stage-enable-wiring-crossed', RTL, "s.ctrl.reg_en_M        //= s.dpath.reg_en_M", "s.ctrl.reg_en_X        //= s.dpath.reg_en_M", 'R-C20-stage-regs'),
    _m('stage-ctrl-M-fields-latched-under-X', CTRL, "      elif s.reg_en_M:\n        s.val_M            <<= s.next_val_X", "      elif s.reg_en_X:\n        s.val_M            <<= s.next_val_X", 'R-C20-stage-regs'),
    _m('stage-ctrl-field-latched-unconditionally', CTRL, "        s.proc2mngr_en_W   <<= s.proc2mngr_en_M\n", "      s.proc2mngr_en_W   <<= s.proc2mngr_en_M\n", 'R-C20-stage-regs'),
    _m('sc-squash-originated-while-stalled', CTRL, "s.osquash_X @= s.val_X & ~s.stall_X & s.pc_redirect_X", "s.osquash_X @= s.val_X & s.pc_redirect_X", 'R-C20-stage-control'),
    _m('sc-squashed-stalled-D-keeps-valid', CTRL, "s.reg_en_D @= ~s.stall_D | s.squash_D", "s.reg_en_D @= ~s.stall_D", 'R-C20-stage-control'),
    _m('sc-squashed-D-advances', CTRL, "s.next_val_D @= s.val_D & ~s.stall_D & ~s.squash_D", "s.next_val_D @= s.val_D & ~s.stall_D", 'R-C20'),
    _m('sc-stall-M-without-valid', CTRL, "s.stall_M  @= s.val_M & ( s.ostall_M | s.ostall_W )", "s.stall_M  @= ( s.ostall_M | s.ostall_W )", 'R-C20-stage-control'),
    _m('sc-reg-en-X-follows-M', CTRL, "s.reg_en_X @= ~s.stall_X", "s.reg_en_X @= ~s.stall_M", 'R-C20-stage-control'),
    _m('sc-stalled-X-advances', CTRL, "s.next_val_X @= s.val_X & ~s.stall_X", "s.next_val_X @= s.val_X", 'R-C20'),
    _m('sc-stall-X-ignores-M', CTRL, "s.stall_X  @= s.val_X & ( s.ostall_X | s.ostall_M | s.ostall_W )", "s.stall_X  @= s.val_X & ( s.ostall_X | s.ostall_W )", 'R-C20-stage-control'),
    _m('sc-stall-D-ignores-X', CTRL, "s.stall_D  @= s.val_D & ( s.ostall_D | s.ostall_X | s.ostall_M | s.ostall_W   )", "s.stall_D  @= s.val_D & ( s.ostall_D | s.ostall_M | s.ostall_W   )", 'R-C20-stage-control'),
    _m('sc-stall-F-ignores-D', CTRL, "s.stall_F  @= s.val_F & ( s.ostall_F | s.ostall_D | s.ostall_X |", "s.stall_F  @= s.val_F & ( s.ostall_F | s.ostall_X |", 'R-C20-stage-control'),
    _m('sc-stall-M-ignores-W', CTRL, "s.stall_M  @= s.val_M & ( s.ostall_M | s.ostall_W )", "s.stall_M  @= s.val_M & ( s.ostall_M )", 'R-C20-stage-control'),
    # --- TinyRV0InstRTL -------------------------------------------------------------------------------------------
    _m('dec-add-funct3', INSTRTL, "if   s.in_[FUNCT3] == 0b000:     s.out @= ADD", "if   s.in_[FUNCT3] == 0b100:     s.out @= ADD", 'R-C20'),
    _m('dec-sll-srl-swapped', INSTRTL, "elif s.in_[FUNCT3] == 0b001:     s.out @= SLL", "elif s.in_[FUNCT3] == 0b001:     s.out @= SRL", 'R-C20'),
    _m('dec-code-collision', INSTRTL, "SRL   =  b8(11)", "SRL   =  b8(9)", 'R-C20'),
    _m('dec-csr-constant', INSTRTL, "CSR_PROC2MNGR = b12(0x7C0)", "CSR_PROC2MNGR = b12(0x7C1)", 'R-C20-rtl'),
    _m('dec-rs2-slice', INSTRTL, "RS2    = slice( 20, 25 )", "RS2    = slice( 21, 26 )", 'R-C20-rtl'),
    _m('dec-xcel-funct7', INSTRTL, "if s.in_[FUNCT7] == 0b0111111:   s.out @= CSRRX", "if s.in_[FUNCT7] == 0b0111110:   s.out @= CSRRX", 'R-C20'),
    # --- MiscRTL --------------------------------------------------------------------------------------------------
    _m('alu-srl-is-sll', MISC, "elif s.fn == 4: s.out @= s.in0 >> zext(s.in1[0:5], 32)", "elif s.fn == 4: s.out @= s.in0 << zext(s.in1[0:5], 32)", 'R-C20-rtl'),
    _m('alu-shamt-4-bits', MISC, "elif s.fn == 3: s.out @= s.in0 << zext(s.in1[0:5], 32)", "elif s.fn == 3: s.out @= s.in0 << zext(s.in1[0:4], 32)", 'R-C20-rtl'),
    _m('alu-add-is-sub', MISC, "elif s.fn == 2: s.out @= s.in0 + s.in1", "elif s.fn == 2: s.out @= s.in0 - s.in1", 'R-C20-rtl'),
    _m('alu-ne-is-eq', MISC, "s.ops_ne @= s.in0 != s.in1", "s.ops_ne @= s.in0 == s.in1", 'R-C20-rtl'),
    _m('immgen-s-type-code', MISC, "elif s.imm_type == 1: # S-type", "elif s.imm_type == 3: # S-type", 'R-C20-rtl'),
    _m('immgen-i-zero-extended', MISC, "concat( sext( s.inst[ I_IMM ], 32 ) )", "concat( zext( s.inst[ I_IMM ], 32 ) )", 'R-C20-rtl'),
    _m('immgen-b-low-bit', MISC, "                               s.inst[ B_IMM0 ],\n                               b1( 0 ) )", "                               b1( 0 ),\n                               s.inst[ B_IMM0 ] )", 'R-C20-rtl'),
    # --- ProcDpathRTL / ProcRTL -----------------------------------------------------------------------------------
    _m2('dp-op2-mux-inputs-swapped', [(DPATH, "m.in_[1] //= s.immgen_D.imm", "m.in_[2] //= s.immgen_D.imm"),
                                      (DPATH, "m.in_[2] //= s.mngr2proc_data", "m.in_[1] //= s.mngr2proc_data")], 'R-C20-rtl'),
    _m('dp-store-data-from-op1', DPATH, "m.in_ //= s.op2_byp_mux_D.out # R[rs2]", "m.in_ //= s.op1_byp_mux_D.out # R[rs2]", 'R-C20-rtl'),
    _m('dp-branch-target-from-next-pc', DPATH, "m.in0 //= s.pc_reg_D.out", "m.in0 //= s.pc_plus4_F", 'R-C20-rtl'),
    _m2('dp-wb-mux-inputs-swapped', [(DPATH, "m.in_[1] //= s.dmemresp_data", "m.in_[2] //= s.dmemresp_data"),
                                     (DPATH, "m.in_[2] //= s.xcelresp_data", "m.in_[1] //= s.xcelresp_data")], 'R-C20-rtl'),
    _m('dp-reset-vector', DPATH, "reset_value=c_reset_vector-4", "reset_value=c_reset_vector", 'R-C20-arch'),
    _m('dp-x0-not-constant', DPATH, "wr_ports=1, const_zero=True", "wr_ports=1, const_zero=False", 'R-C20-arch'),
    _m('dp-xcel-addr-from-op1', DPATH, "s.xcelreq_addr //= s.op2_reg_X.out[0:5]", "s.xcelreq_addr //= s.op1_reg_X.out[0:5]", 'R-C20-rtl'),
    _m('dp-rs1-read-port', DPATH, "m.raddr[0] //= s.inst_D[ RS1 ]", "m.raddr[0] //= s.inst_D[ RD ]", 'R-C20-rtl'),
    _m('dp-alu-operands-swapped', DPATH, "m.in0    //= s.op1_reg_X.out\n    m.in1    //= s.op2_reg_X.out", "m.in0    //= s.op2_reg_X.out\n    m.in1    //= s.op1_reg_X.out", 'R-C20-rtl'),
    _m2('top-dmem-addr-data-swapped', [(RTL, "m.dmemreq_addr  //= s.dmem.req.msg.addr", "m.dmemreq_addr  //= s.dmem.req.msg.data"),
                                       (RTL, "m.dmemreq_data  //= s.dmem.req.msg.data", "m.dmemreq_data  //= s.dmem.req.msg.addr")], 'R-C20-rtl'),
    _m('top-mngr2proc-data-from-xcel', RTL, "m.mngr2proc_data //= s.mngr2proc_q.deq.ret", "m.mngr2proc_data //= s.xcelresp_q.deq.ret.data", 'R-C20-rtl'),
    _m('top-proc2mngr-enable', RTL, "m.proc2mngr_en  //= s.proc2mngr.en", "m.commit_inst  //= s.proc2mngr.en", 'R-C20-rtl'),
    # --- checksum -------------------------------------------------------------------------------------------------
    _m('ck-rtl-mask-12-bits', CK_RTL, "s.sum1_out @= temp1 & 0xffff", "s.sum1_out @= temp1 & 0xfff", 'R-C20-cksum'),
    _m('ck-rtl-chain-crossed', CK_RTL, "s.steps[i].sum2_in //= s.steps[i-1].sum2_out", "s.steps[i].sum2_in //= s.steps[i-1].sum1_out", 'R-C20-cksum'),
    _m('ck-rtl-halves-swapped', CK_RTL, "( s.sum2 << 16 ) | s.sum1", "( s.sum1 << 16 ) | s.sum2", 'R-C20-cksum'),
    _m('ck-rtl-word-order', CK_RTL, "s.in_q.deq.ret[i*16:(i+1)*16]", "s.in_q.deq.ret[(7-i)*16:(8-i)*16]", 'R-C20-cksum'),
    _m('ck-rtl-sum2-uses-word', CK_RTL, "temp2 = s.sum1_out + s.sum2_in", "temp2 = zext(s.word_in, 32) + s.sum2_in", 'R-C20-cksum'),
    _m('ck-rtl-last-step-skipped', CK_RTL, "s.sum1 //= s.steps[-1].sum1_out", "s.sum1 //= s.steps[-2].sum1_out", 'R-C20-cksum'),
    _m('ck-fl-zero-word-skips-sum2', CK_FL, "  for word in words:\n    sum1", "  for word in words:\n    if word == 0: continue\n    sum1", 'R-C20-cksum'),
    _m('ck-fl-sum2-adds-word', CK_FL, "sum2 = ( sum2 + sum1 ) & 0xffff", "sum2 = ( sum2 + word ) & 0xffff", 'R-C20-cksum'),
    _m('ck-fl-result-order', CK_FL, "return concat( sum2, sum1 )", "return concat( sum1, sum2 )", 'R-C20-cksum'),
    _m('ck-cl-word-zeroed', CK_CL, "        result = checksum( words )", "        words[5] = b16(0)\n        result = checksum( words )", 'R-C20-cksum'),
    _m('ck-utils-unpack-order', CK_UTILS, "words = [ bits[i*16:(i+1)*16] for i in range( 8 ) ]", "words = [ bits[(7-i)*16:(8-i)*16] for i in range( 8 ) ]", 'R-C20-cksum'),
]

EQUIV = [
    _m('fl-add-commuted', FL, "s.R[inst.rd] = s.R[inst.rs1] + s.R[inst.rs2]", "s.R[inst.rd] = s.R[inst.rs2] + s.R[inst.rs1]"),
    _m('fl-lw-address-inlined', FL, "addr = s.R[inst.rs1] + sext( inst.i_imm, 32 )\n          s.R[inst.rd] = s.dmem.read( addr, 4 )",
       "s.R[inst.rd] = s.dmem.read( sext( inst.i_imm, 32 ) + s.R[inst.rs1], 4 )"),
    _m('fl-bne-as-not-eq', FL, "if s.R[inst.rs1] != s.R[inst.rs2]:", "if not (s.R[inst.rs1] == s.R[inst.rs2]):"),
    _m('fl-bne-branches-exchanged', FL, "if s.R[inst.rs1] != s.R[inst.rs2]:\n            s.PC = s.PC + sext( inst.b_imm, 32 )\n          else:\n            s.PC += 4",
       "if s.R[inst.rs2] == s.R[inst.rs1]:\n            s.PC = s.PC + 4\n          else:\n            s.PC = sext( inst.b_imm, 32 ) + s.PC"),
    _m('fl-shamt-mask-as-slice', FL, "s.R[inst.rs1] << (s.R[inst.rs2] & 0x1F)", "s.R[inst.rs1] << zext( s.R[inst.rs2][0:5], 32 )"),
    _m('fl-local-renamed', FL, "inst_name", "mnemonic", count=None),
    _m('fl-pc-advanced-first', FL, "s.R[inst.rd] = s.R[inst.rs1] + s.R[inst.rs2]\n          s.PC += 4", "s.PC += 4\n          s.R[inst.rd] = s.R[inst.rs1] + s.R[inst.rs2]"),
    _m('cl-response-queue-renamed', CL, "s.dmemresp_q", "s.dresp_q", count=None),
    _m('rtl-response-queue-renamed', RTL, "s.dmemresp_q", "s.dresp_q", count=None),
    _m('dp-alias-not-used', DPATH, "m.in0    //= s.op1_reg_X.out", "s.alu_X.in0 //= s.op1_reg_X.out"),
    _m('top-connection-direction', RTL, "s.ctrl.alu_fn_X        //= s.dpath.alu_fn_X", "s.dpath.alu_fn_X //= s.ctrl.alu_fn_X"),
    _m2('enc-rows-reordered', [(ENC, '  [ "lw     rd, i_imm(rs1)",   0b00000000000000000111000001111111, 0b00000000000000000010000000000011 ], # I-type\n  [ "sw     rs2, s_imm(rs1)",  0b00000000000000000111000001111111, 0b00000000000000000010000000100011 ], # S-type',
                                '  [ "sw     rs2, s_imm(rs1)",  0b00000000000000000111000001111111, 0b00000000000000000010000000100011 ], # S-type\n  [ "lw     rd, i_imm(rs1)",   0b00000000000000000111000001111111, 0b00000000000000000010000000000011 ], # I-type')]),
    _m('cl-redirect-test-negated', CL, "        if s.redirected_pc_DXM >= 0:\n          s.imem.req", "        if not (s.redirected_pc_DXM < 0):\n          s.imem.req"),
    _m('cl-lw-rd-as-unsigned-int', CL, "s.DXM_W_queue.enq( (inst.rd, 0, DXM_W.mem) )", "s.DXM_W_queue.enq( (inst.rd.uint(), 0, DXM_W.mem) )"),
    _m('cl-lw-rd-via-int-builtin', CL, "s.DXM_W_queue.enq( (inst.rd, 0, DXM_W.mem) )", "s.DXM_W_queue.enq( (int(inst.rd), 0, DXM_W.mem) )"),
    _m('cl-wb-guard-as-ne-zero', CL, "              if rd > 0: # load", "              if rd != 0: # load"),
    _m('cl-x0-guard-redundant', CL, "if rd > 0: s.R[ rd ] = Bits32( data )", "s.R[ rd ] = Bits32( data )"),
    _m('cl-execute-block-renamed', CL, "def DXM():", "def DXM_stage():"),
    _m('cl-bne-as-not-eq', CL, "if s.R[ inst.rs1 ] != s.R[ inst.rs2 ]:", "if not (s.R[ inst.rs2 ] == s.R[ inst.rs1 ]):"),
    _m2('ctrl-rows-reordered', [(CTRL, "      elif inst == ADD  : s.cs @= concat( y, br_na,  y, imm_x, bm_rf,  y, alu_add, nr, wm_a, y,  n, n )\n      elif inst == SLL  : s.cs @= concat( y, br_na,  y, imm_x, bm_rf,  y, alu_sll, nr, wm_a, y,  n, n )",
                                 "      elif inst == SLL  : s.cs @= concat( y, br_na,  y, imm_x, bm_rf,  y, alu_sll, nr, wm_a, y,  n, n )\n      elif inst == ADD  : s.cs @= concat( y, br_na,  y, imm_x, bm_rf,  y, alu_add, nr, wm_a, y,  n, n )")]),
    _m('ctrl-comb-D-assignments-swapped', CTRL, "      s.next_val_D @= s.val_D & ~s.stall_D & ~s.squash_D\n\n      # enable signal for send/get interface\n      s.mngr2proc_en @= s.val_D & ~s.stall_D & ~s.squash_D & s.mngr2proc_D",
       "      s.mngr2proc_en @= s.val_D & ~s.stall_D & ~s.squash_D & s.mngr2proc_D\n\n      s.next_val_D @= s.val_D & ~s.stall_D & ~s.squash_D"),
    _m('ctrl-comb-M-assignments-swapped', CTRL, "      s.dmemresp_en @= s.val_M & ~s.stall_M & ( s.dmemreq_type_M != nr )\n      s.xcelresp_en @= s.val_M & ~s.stall_M & s.xcelreq_M",
       "      s.xcelresp_en @= s.val_M & ~s.stall_M & s.xcelreq_M\n      s.dmemresp_en @= s.val_M & ~s.stall_M & ( s.dmemreq_type_M != nr )"),
    _m('ctrl-enable-conjuncts-reordered', CTRL, "s.mngr2proc_en @= s.val_D & ~s.stall_D & ~s.squash_D & s.mngr2proc_D", "s.mngr2proc_en @= s.mngr2proc_D & ~s.squash_D & s.val_D & ~s.stall_D"),
    _m('ctrl-enable-via-advance-wire', CTRL, "s.mngr2proc_en @= s.val_D & ~s.stall_D & ~s.squash_D & s.mngr2proc_D", "s.mngr2proc_en @= s.next_val_D & s.mngr2proc_D"),
    _m('ctrl-hazard-conjuncts-reordered', CTRL, "s.ostall_ld_X_rs1_D @= s.rs1_en_D & s.val_X & s.rf_wen_pending_X", "s.ostall_ld_X_rs1_D @= s.val_X & s.rf_wen_pending_X & s.rs1_en_D"),
    _m('ctrl-bypass-compare-sides-swapped', CTRL, "if   s.val_X & ( s.inst_D[ RS2 ] == s.rf_waddr_X )", "if   ( s.rf_waddr_X == s.inst_D[ RS2 ] ) & s.val_X"),
    _m2('dp-stage-registers-reordered', [(DPATH, "    s.op1_reg_X = m = RegEnRst( Bits32, reset_value=0 )\n    m.en  //= s.reg_en_X\n    m.in_ //= s.op1_byp_mux_D.out\n\n    # op2 reg\n\n    s.op2_reg_X = m = RegEnRst( Bits32, reset_value=0 )\n    m.en  //= s.reg_en_X\n    m.in_ //= s.op2_sel_mux_D.out",
                                          "    s.op2_reg_X = m = RegEnRst( Bits32, reset_value=0 )\n    m.in_ //= s.op2_sel_mux_D.out\n    m.en  //= s.reg_en_X\n\n    # op1 reg\n\n    s.op1_reg_X = m = RegEnRst( Bits32, reset_value=0 )\n    m.en  //= s.reg_en_X\n    m.in_ //= s.op1_byp_mux_D.out")]),
    _m('ctrl-reg-X-assignments-reordered', CTRL, "        s.alu_fn_X         <<= s.alu_fn_D\n        s.rf_waddr_X       <<= s.rf_waddr_D", "        s.rf_waddr_X       <<= s.rf_waddr_D\n        s.alu_fn_X         <<= s.alu_fn_D"),
    _m('sc-reg-en-de-morgan', CTRL, "s.reg_en_D @= ~s.stall_D | s.squash_D", "s.reg_en_D @= ~( s.stall_D & ~s.squash_D )"),
    _m('sc-osquash-hoisted-temporary', CTRL, "s.osquash_X @= s.val_X & ~s.stall_X & s.pc_redirect_X", "leaving_X = s.val_X & ~s.stall_X\n      s.osquash_X @= s.pc_redirect_X & leaving_X"),
    _m('sc-next-val-conjuncts-reordered', CTRL, "s.next_val_D @= s.val_D & ~s.stall_D & ~s.squash_D", "s.next_val_D @= ~s.squash_D & s.val_D & ~s.stall_D"),
    _m('sc-stall-disjuncts-reordered', CTRL, "s.stall_X  @= s.val_X & ( s.ostall_X | s.ostall_M | s.ostall_W )", "s.stall_X  @= ( s.ostall_W | s.ostall_X | s.ostall_M ) & s.val_X"),
    _m('sc-stall-hoisted-temporary', CTRL, "s.stall_M  @= s.val_M & ( s.ostall_M | s.ostall_W )", "downstream = s.ostall_M | s.ostall_W\n      s.stall_M  @= s.val_M & downstream"),
    _m('ctrl-dont-care-renamed', CTRL, "if   inst == NOP  : s.cs @= concat( y, br_na,  n, imm_x, bm_x,   n, alu_x,   nr, wm_a, n,  n, n )",
       "if   inst == NOP  : s.cs @= concat( y, br_x,   n, imm_i, bm_rf,  n, alu_cp0, nr, wm_x, n,  n, n )"),
    _m2('alu-code-renumbered-consistently', [(CTRL, "alu_and = b4( 5 )", "alu_and = b4( 9 )"), (MISC, "elif s.fn == 5: s.out @= s.in0 & s.in1", "elif s.fn == 9: s.out @= s.in1 & s.in0")]),
    _m('inst-code-renumbered', INSTRTL, "ADD   =  b8(15)", "ADD   =  b8(17)"),
    _m2('decoder-branches-reordered', [(INSTRTL, "        elif s.in_[FUNCT3] == 0b111:     s.out @= AND\n        elif s.in_[FUNCT3] == 0b101:     s.out @= SRL",
                                        "        elif s.in_[FUNCT3] == 0b101:     s.out @= SRL\n        elif s.in_[FUNCT3] == 0b111:     s.out @= AND")]),
    _m('immgen-concat-of-one', MISC, "s.imm @= concat( sext( s.inst[ I_IMM ], 32 ) )", "s.imm @= sext( s.inst[ I_IMM ], 32 )"),
    _m('enc-mask-in-hex', ENC, "0b00000000000000000111000001111111, 0b00000000000000000010000000000011 ], # I-type", "0x0000707f, 0x00002003 ], # I-type"),
    _m('name-nop-in-hex', ENC, "if self.bits == 0b00000000000000000000000000010011:", "if self.bits == 0x13:"),
    _m('name-opcode-tests-reordered', ENC, '    elif self.opcode == 0b0100011:\n      if self.funct3 == 0b010: return "sw"\n\n    elif self.opcode == 0b0000011:\n      if self.funct3 == 0b010: return "lw"',
       '    elif self.opcode == 0b0000011:\n      if self.funct3 == 0b010: return "lw"\n\n    elif self.opcode == 0b0100011:\n      if self.funct3 == 0b010: return "sw"'),
    _m('ck-fl-zero-word-skips-only-sum1', CK_FL, "    sum1 = ( sum1 + word ) & 0xffff", "    if word != 0:\n      sum1 = ( sum1 + word ) & 0xffff"),
    _m('fl-shamt-via-uint', FL, "s.R[inst.rs1] << (s.R[inst.rs2] & 0x1F)", "s.R[inst.rs1] << (s.R[inst.rs2].uint() & 0x1F)"),
    _m('ck-rtl-unmasked-intermediate', CK_RTL, "temp2 = s.sum1_out + s.sum2_in", "temp2 = temp1 + s.sum2_in"),
    _m('ck-rtl-add-commuted', CK_RTL, "temp1 = zext(s.word_in, 32) + s.sum1_in", "temp1 = s.sum1_in + zext(s.word_in, 32)"),
    _m('ck-fl-redundant-mask-dropped', CK_FL, "sum1 = ( sum1 + word ) & 0xffff", "sum1 = sum1 + word"),
    _m('ck-rtl-combine-as-concat', CK_RTL, "s.send.msg @= ( s.sum2 << 16 ) | s.sum1", "s.send.msg @= concat( s.sum2[0:16], s.sum1[0:16] )"),
]

LEVEL_TEXT = ("Clauses only. Static single-instruction agreement of the three TinyRV0 processor models with the ISA document: the "
              "document is parsed into a normal form (semantics, field and immediate bit positions, encodings) and checked against a "
              "frozen reference; the encoding table, the assembler field functions, the FL/CL decoder, the RTL decoder, the FL and CL "
              "execute code and the RTL control table composed with the datapath are evaluated symbolically over every word of every "
              "instruction's cube and compared with that normal form; the three checksum models are compared in a modular normal form. "
              "Agreement of executions for every program and every timing configuration (memory latency, stall probability, src/sink "
              "delays) is NOT decided.")
LEVEL_NOTE = ("Not decided: pipeline control of ProcRTL/ProcCL (stalls, bypass selection, squashes, back-pressure, response ordering) -- "
              "R-C20-hazard-symmetry (rs1/rs2 sibling agreement of hazard and bypass logic, operand enables vs ISA register reads) and "
              "R-C20-gating (side-effect enables gated like their stage's advance condition) R-C20-stage-regs (all registers of a "
              "stage held by that stage's enable) and R-C20-stage-control (per-stage propositional invariants of the stall/squash/enable "
              "equations over all valuations, reachability ignored) are necessary code-shape conditions only, "
              "they do not establish pipeline correctness; also not decided: "
              "instruction adjacency, timing, termination, adapters, the generic assembler driver. Decided: decode uniqueness and "
              "decoder/table agreement on all legal words, instruction-set agreement, per-instruction datapath semantics of FL, CL and "
              "RTL (steady-flow abstraction) against the ISA document, x0 / reset vector, checksum arithmetic of FL/CL/RTL. Trusted: "
              "Bits arithmetic (C04/C05), stdlib Mux/Reg/Adder/RegisterFile, message field order as read from the source.")
TECHNIQUE = ("ast extraction of tables and netlists; symbolic abstract interpretation of the models' decode/execute code over "
             "(mask, match) cubes of the instruction space with exhaustive case splitting on tested instruction bits; modular-arithmetic "
             "normal forms compared with a specification parsed from the ISA document and a frozen reference")
