"""C01 -- Simulation results do not depend on the schedule chosen.  (DESIGN.md section 4, C01)

The whole property (values under all schedules equal the dataflow semantics) is a statement about
runtime values and is NOT decided.  By the trusted theorem "all linear extensions of the WR<RD order
of a single-writer acyclic design compute the same state" it reduces to: every schedule is a linear
extension containing every block once (R-kahn, shared with C02), flip-flop atomicity (R-tick-order,
shared with C07) -- both re-run here -- plus the clause specific to C01 decided below:
all simulators are assembled from the same parts in the same order (R-C01-agree).
"""
import ast

from sa.astutil import inline_locals, norm, guards_of, walk_no_nested, enclosing
from sa.errors import AnalysisError
from sa.report import RuleResult
from rules.c02 import rule_kahn, rule_pairing, rule_netblk
from rules.c07 import rule_tick_order, tick_sequences, _classify, rule_ffset

PID = 'C01'
PG = 'pymtl3/passes/PassGroups.py'
MPG = 'pymtl3/passes/mamba/PassGroups.py'
PREP = 'pymtl3/passes/sim/PrepareSimPass.py'
UNROLL = 'pymtl3/passes/mamba/UnrollSimPass.py'
HEU = 'pymtl3/passes/mamba/HeuristicTopoPass.py'
MAMBA = 'pymtl3/passes/mamba/Mamba2020Pass.py'
DYN = 'pymtl3/passes/sim/DynamicSchedulePass.py'
SIMPLE = 'pymtl3/passes/sim/SimpleSchedulePass.py'

EXPLANATION = (
    "Value equality across schedules is a runtime statement and is not decided. Decided (static, no execution): "
    "R-C01-agree -- every simulation pass group applies GenDAGPass, then WrapGreenletPass, then a scheduling pass, then a "
    "PrepareSim-family pass, with tracing passes before the tick is assembled; every combined pass builds the comb "
    "schedule, the ff schedule and the flip schedule before assembling the tick and locks the simulation before "
    "generating the tick; sim_eval_combinational is exactly the combinational schedule; all tick builders compose the "
    "same segment order; every scheduler reads its vertices and edges from the same _dag fields. Re-run by reduction: "
    "R-kahn / R-C02-pairing / R-C02-netblk (every schedule is a linear extension of the same WR<RD order containing every "
    "block once) and R-tick-order / R-C07-ffset (edge atomicity, every ff block once).")
ASSUMPTIONS = [
    "trusted theorem: all linear extensions of the writer-before-reader order of a single-writer acyclic design compute "
    "the same state (so schedule independence reduces to C02 + C09 + C07)",
    "single-writer property itself is C09's (checked there)",
]

SCHEDULERS = {'SimpleSchedulePass', 'DynamicSchedulePass'}
PREPARERS = {'PrepareSimPass', 'UnrollSimPass'}
COMBINED = {'HeuristicTopoPass', 'Mamba2020Pass', 'OpenLoopCLPass'}
TRACERS = {'VcdGenerationPass', 'PrintTextWavePass', 'CLLineTracePass', 'LineTraceParamPass'}


def _pass_sequence(func):
    """ordered list of (PassName, conditional?) applied to top in a pass group's __call__"""
    seq = []
    for n in ast.walk(func):
        pass
    def visit(stmts, cond):
        for s in stmts:
            if isinstance(s, ast.Expr) and isinstance(s.value, ast.Call) and isinstance(s.value.func, ast.Call) \
                    and isinstance(s.value.func.func, ast.Name) and [norm(a) for a in s.value.args] == ['top']:
                seq.append((s.value.func.func.id, cond, s))
            elif isinstance(s, ast.Expr) and isinstance(s.value, ast.Call) and norm(s.value.func) == 'top.elaborate':
                seq.append(('elaborate', cond, s))
            elif isinstance(s, ast.Expr) and isinstance(s.value, ast.Call) and norm(s.value.func) == 'top.lock_in_simulation':
                seq.append(('lock', cond, s))
            elif isinstance(s, ast.If):
                visit(s.body, True)
                visit(s.orelse, True)
    visit(func.body, False)
    return seq


def rule_agree(repo):
    r = RuleResult('R-C01-agree', "all simulators are assembled from the same parts in the same order")
    groups = [(PG, 'SimpleSimPass'), (PG, 'DefaultPassGroup'), (PG, 'AutoTickSimPass'),
              (MPG, 'UnrollSim'), (MPG, 'HeuTopoUnrollSim'), (MPG, 'Mamba2020')]
    for rel, cname in groups:
        m = repo.mod(rel)
        f = m.get_func(f"{cname}.__call__")
        seq = _pass_sequence(f)
        names = [n for n, c, s in seq]
        cons = ' -> '.join(n + ('?' if c else '') for n, c, s in seq)
        FN = f"{cname}.__call__"

        def idx(pred):
            return [i for i, (n, c, s) in enumerate(seq) if pred(n)]
        gd = idx(lambda n: n == 'GenDAGPass')
        gr = idx(lambda n: n == 'WrapGreenletPass')
        sc = idx(lambda n: n in SCHEDULERS or n in COMBINED)
        pr = idx(lambda n: n in PREPARERS or n in COMBINED)
        tr = idx(lambda n: n in ('VcdGenerationPass', 'PrintTextWavePass', 'CLLineTracePass'))
        if len(gd) != 1 or len(sc) != 1 or len(pr) < 1 or len(gr) != 1:
            r.bad(m, FN, cons, "a simulation pass group must apply GenDAGPass, WrapGreenletPass, one scheduling pass and a "
                  "simulation-preparing pass exactly once", f.lineno)
            continue
        if seq[gd[0]][1] or seq[gr[0]][1] or seq[sc[0]][1] or seq[pr[-1]][1]:
            r.bad(m, FN, cons, "a mandatory pass is only conditionally applied", f.lineno)
            continue
        if not (gd[0] < gr[0] < sc[0] <= pr[-1]):
            r.bad(m, FN, cons, "order must be GenDAGPass < WrapGreenletPass < scheduling < simulation preparation: the scheduler "
                  "would otherwise see constraints on blocks that are replaced later / the tick is assembled from a stale schedule", f.lineno)
            continue
        late = [seq[i][0] for i in tr if i > pr[-1]]
        if late:
            r.bad(m, FN, cons, f"{late[0]} is applied after the tick function has been assembled: its per-cycle hook never runs", f.lineno)
            continue
        r.ok(m, FN, cons)
    # combined passes: schedules before tick assembly; lock before tick generation
    for rel, q in ((HEU, 'HeuristicTopoPass.__call__'), (MAMBA, 'Mamba2020Pass.__call__'), (PREP, 'PrepareSimPass.__call__')):
        m = repo.mod(rel)
        f = m.get_func(q)
        order = []
        for s in f.body:
            if isinstance(s, ast.Expr) and isinstance(s.value, ast.Call):
                fn = norm(s.value.func)
                if fn.split('.')[-1].startswith(('schedule_', 'create_', 'lock_in')):
                    order.append(fn.split('.')[-1])
        cons = ' -> '.join(order)
        need_sched = q != 'PrepareSimPass.__call__'
        ok = True
        msg = ''
        def pos(n):
            return order.index(n) if n in order else None
        for a in ('create_sim_eval_comb', 'create_sim_tick', 'create_sim_reset'):
            if pos(a) is None:
                ok, msg = False, f"{a} is not called"
        if ok and (pos('lock_in_simulation') is None or pos('create_lock_unlock_simulation') is None or
                   not pos('create_lock_unlock_simulation') < pos('lock_in_simulation') < pos('create_sim_eval_comb')):
            ok, msg = False, "the simulation must be locked (signals replaced by value objects) before tick functions are generated"
        if ok and need_sched:
            for a in ('schedule_intra_cycle', 'schedule_ff', 'schedule_posedge_flip'):
                if pos(a) is None or not pos(a) < pos('create_sim_tick'):
                    ok, msg = False, f"{a} must be built before the tick is assembled"
        if ok and not need_sched:
            # PrepareSimPass checks that the schedules exist
            need = {'update_schedule', 'schedule_ff', 'schedule_posedge_flip'}
            have = {norm(c.args[1]).strip("'\"") for c in ast.walk(f) if isinstance(c, ast.Call) and norm(c.func) == 'hasattr' and len(c.args) == 2
                    and norm(c.args[0]) == 'top._sched'}
            if not need <= have:
                ok, msg = False, f"PrepareSimPass no longer verifies that {sorted(need - have)} exist before assembling the tick"
        (r.ok if ok else r.bad)(m, q, cons, *([] if ok else [msg, f.lineno]))
    # sim_eval_combinational == the comb schedule (plus the input-port sanity check)
    for rel, q in ((PREP, 'PrepareSimPass.create_sim_eval_comb'), (UNROLL, 'UnrollSimPass.create_sim_eval_comb')):
        m = repo.mod(rel)
        f = m.get_func(q)
        gens = [c for c in ast.walk(f) if isinstance(c, ast.Call) and norm(c.func).endswith('gen_tick_function')]
        ok = len(gens) == 1
        if ok:
            a = norm(inline_locals(gens[0].args[0], gens[0]))      # a named local holding the list reads as the list
            ok = a in ('top._sched.update_schedule', '[top._sim.check_top_level_inports] + top._sched.update_schedule',
                       'top._sched.update_schedule + [top._sim.check_top_level_inports]')
        asg = [s for s in ast.walk(f) if isinstance(s, ast.Assign) and norm(s.targets[0]) == 'top.sim_eval_combinational']
        ok = ok and len(asg) == 1
        (r.ok if ok else r.bad)(m, q, norm(gens[0]) if gens else '', *([] if ok else [
            "sim_eval_combinational must run exactly the combinational schedule (no ff blocks, no flip)", f.lineno]))
    # all tick builders agree on the segment order
    seqs = tick_sequences(repo)
    ref = None
    for (rel, cname), d in seqs.items():
        kinds = tuple(_classify(i.label) for i in d['tick'][3])
        if ref is None:
            ref = (cname, kinds)
        m = repo.mod(rel)
        if kinds == ref[1]:
            r.ok(m, f"{cname}.create_sim_tick", ' ; '.join(kinds))
        else:
            r.bad(m, f"{cname}.create_sim_tick", ' ; '.join(kinds), f"tick composition differs from {ref[0]} ({' ; '.join(ref[1])}): the "
                  f"simulators no longer compute the same cycle", d['tick'][2].lineno)
    # every scheduler reads V and E from the same _dag fields
    for rel, q in ((SIMPLE, 'SimpleSchedulePass.schedule_intra_cycle'), (HEU, 'HeuristicTopoPass.schedule_intra_cycle'),
                   (DYN, 'DynamicSchedulePass.schedule_intra_cycle'), (MAMBA, 'Mamba2020Pass.schedule_intra_cycle')):
        m = repo.mod(rel)
        f = m.get_func(q)
        vdef = [norm(s.value) for s in f.body if isinstance(s, ast.Assign) and norm(s.targets[0]) == 'V']
        esrc = [norm(s.iter) for s in f.body if isinstance(s, ast.For) and '_dag' in norm(s.iter)]
        out = [s for s in ast.walk(f) if isinstance(s, ast.Assign) and any(norm(t) == 'top._sched.update_schedule' for t in s.targets)]
        ok = vdef == ['top._dag.final_upblks - top.get_all_update_ff()'] and esrc == ['top._dag.all_constraints'] and len(out) >= 1
        (r.ok if ok else r.bad)(m, q, f"V = {vdef}; E from {esrc}; result in top._sched.update_schedule",
                                *([] if ok else ["schedulers must agree on the vertex set (final_upblks - update_ff), the edge set "
                                                 "(all_constraints) and where the schedule is published", f.lineno]))
    r.require_floor(17)
    return r


import rules.c02 as _c02
import rules.c07 as _c07
# reduction: C01 holds if C02 (every schedule is a linear extension of the same order, no block lost), C07 (edge
# atomicity incl. flip coverage) hold and the simulators are assembled alike -> re-run all of their rules here
def rule_two_writers_rejected(repo):
    """two unordered writers of the same storage make the result depend on the tie-break: the multi-writer check must look at
    the written object, every signal ancestor and every overlapping sibling slice.  Shared with C09 (R-C09-mw-cover)."""
    from rules.c09 import rule_mw_cover
    return rule_mw_cover(repo)


def rule_net_blocks_drive_their_readers(repo):
    """a generated net block that is written against the wrong common ancestor drives another component's signal (a second,
    unordered driver) and never updates the real reader.  Shared with C08 (R-C08-netblock)."""
    from rules.c08 import rule_netblock
    return rule_netblock(repo)


# (C02's rule_replace_keeps_edges is R-C15-saved, which C07's rule_replace_marks_registers already runs here)
def rule_slices_are_one_node(repo):
    """a nested slice s.w[4:8][0:2] and the plain slice s.w[0:2] are different bits: if they share one registry entry an update
    block is recorded as reading the wrong bits, loses its edge to the real writer, and the result depends on the tie-break of
    the scheduler -- decided by C08 (R-C08-nodes)"""
    from rules.c08 import rule_nodes
    return rule_nodes(repo)


RULES = [rule_agree, rule_slices_are_one_node] + [_r for _r in _c02.RULES if _r is not _c02.rule_replace_keeps_edges] + list(_c07.RULES) + [rule_two_writers_rejected, rule_net_blocks_drive_their_readers]


def _m(name, file, old, new, rule=None, count=1):
    return dict(name=name, file=file, old=old, new=new, rule=rule, count=count)


MUTANTS = [
    _m('default-greenlet-after-schedule', PG, "    WrapGreenletPass()( top )\n    CLLineTracePass()( top )\n    DynamicSchedulePass()( top )", "    CLLineTracePass()( top )\n    DynamicSchedulePass()( top )\n    WrapGreenletPass()( top )", 'R-C01-agree'),
    _m('default-vcd-after-prepare', PG, "    VcdGenerationPass()( top )\n    PrintTextWavePass()( top )\n\n    PrepareSimPass(print_line_trace=s.linetrace,\n                   reset_active_high=s.reset_active_high)( top )",
       "    PrintTextWavePass()( top )\n\n    PrepareSimPass(print_line_trace=s.linetrace,\n                   reset_active_high=s.reset_active_high)( top )\n    VcdGenerationPass()( top )", 'R-C01-agree'),
    _m('simple-no-greenlet', PG, "    GenDAGPass()( top )\n    WrapGreenletPass()( top )\n    SimpleSchedulePass()( top )", "    GenDAGPass()( top )\n    SimpleSchedulePass()( top )", 'R-C01-agree'),
    _m('unrollsim-schedule-before-dag', MPG, "    GenDAGPass()( top )\n    WrapGreenletPass()( top )\n    SimpleSchedulePass()( top )", "    SimpleSchedulePass()( top )\n    GenDAGPass()( top )\n    WrapGreenletPass()( top )", 'R-C01-agree'),
    _m('heu-tick-before-flip-schedule', HEU, "    simple.schedule_posedge_flip( top )\n\n    top._sim = PassMetadata()", "    top._sim = PassMetadata()", 'R-C0'),
    _m('mamba-lock-after-tick', MAMBA, "    top.lock_in_simulation()\n\n    self.create_sim_eval_comb( top )\n    self.create_sim_tick( top )\n    self.create_sim_reset( top )\n\n  #-----------------------------------------------------------------------\n  # compile_meta_block",
       "    self.create_sim_eval_comb( top )\n    self.create_sim_tick( top )\n    self.create_sim_reset( top )\n    top.lock_in_simulation()\n\n  #-----------------------------------------------------------------------\n  # compile_meta_block", 'R-C01-agree'),
    _m('evalcomb-runs-ff', PREP, "sim_eval_combinational = SimpleTickPass.gen_tick_function( [top._sim.check_top_level_inports] + top._sched.update_schedule )",
       "sim_eval_combinational = SimpleTickPass.gen_tick_function( [top._sim.check_top_level_inports] + top._sched.update_schedule + top._sched.schedule_ff )", 'R-C01-agree'),
    _m('unroll-tick-reordered', UNROLL, "    final_schedule += self.collect_ff_funcs( top )\n    final_schedule += top._sched.update_schedule\n", "    final_schedule += top._sched.update_schedule\n    final_schedule += self.collect_ff_funcs( top )\n", 'R-C01-agree'),
    _m('heu-different-vertex-set', HEU, "    V   = top._dag.final_upblks - top.get_all_update_ff()\n    E   = set()\n    Es  = { v: [] for v in V }", "    V   = top.get_all_update_blocks() - top.get_all_update_ff()\n    E   = set()\n    Es  = { v: [] for v in V }", 'R-C01-agree'),
    _m('prepare-no-flip-check', PREP, "    if not hasattr( top._sched, \"schedule_posedge_flip\" ):\n      raise PassOrderError( \"schedule_posedge_flip\" )\n", "", 'R-C01-agree'),
    _m('dynamic-scc-order-lost', DYN, "      u = Q.pop()\n      scc_schedule.append( u )", "      u = Q.pop()\n      scc_schedule.insert( 0, u ) if False else None", 'R-kahn'),
    _m('simple-ready-early', SIMPLE, "        InD[v] -= 1\n        if not InD[v]:\n          Q.append( v )", "        InD[v] -= 1\n        if InD[v] <= 1:\n          Q.append( v )", 'R-kahn'),
]

EQUIV = [
    _m('evalcomb-schedule-local', PREP, "      sim_eval_combinational = SimpleTickPass.gen_tick_function( [top._sim.check_top_level_inports] + top._sched.update_schedule )",
       "      comb_schedule = [top._sim.check_top_level_inports] + top._sched.update_schedule\n      sim_eval_combinational = SimpleTickPass.gen_tick_function( comb_schedule )"),
    _m('default-tracers-swapped', PG, "    VcdGenerationPass()( top )\n    PrintTextWavePass()( top )\n\n    PrepareSimPass(print_line_trace=s.linetrace,", "    PrintTextWavePass()( top )\n    VcdGenerationPass()( top )\n\n    PrepareSimPass(print_line_trace=s.linetrace,"),
    _m('simple-linetrace-later', PG, "    LineTraceParamPass()( top )\n    GenDAGPass()( top )\n    WrapGreenletPass()( top )\n    SimpleSchedulePass()( top )", "    GenDAGPass()( top )\n    LineTraceParamPass()( top )\n    WrapGreenletPass()( top )\n    SimpleSchedulePass()( top )"),
    _m('evalcomb-check-last', PREP, "[top._sim.check_top_level_inports] + top._sched.update_schedule )", "top._sched.update_schedule + [top._sim.check_top_level_inports] )"),
    _m('heu-create-order', HEU, "    self.create_print_line_trace( top )\n    self.create_sim_cycle_count( top )\n    self.create_lock_unlock_simulation( top )\n    top.lock_in_simulation()", "    self.create_sim_cycle_count( top )\n    self.create_print_line_trace( top )\n    self.create_lock_unlock_simulation( top )\n    top.lock_in_simulation()"),
]

LEVEL_TEXT = ("Static analysis of how every simulator is assembled: pass-group order (DAG generation, greenlet wrapping, scheduling, tick "
              "assembly, tracing before assembly), internal order of the combined passes, identity of sim_eval_combinational with the comb "
              "schedule, equality of tick composition across builders and of the vertex/edge sources across schedulers; plus, by reduction, "
              "the C02 rules (every schedule is a linear extension of the same writer-before-reader order, no block lost) and the C07 tick-"
              "order rules. The value-level claim of C01 itself is not decided.")
LEVEL_NOTE = ("Claims only the clause 'all simulators are built from the same parts in the same order' plus the reduction to C02/C07/C09 via the "
              "trusted linear-extension theorem; equality of simulated values under all schedules is a runtime property and is not decided here.")
TECHNIQUE = "sibling agreement and ordering rules over pass-group call sequences, symbolic sequence evaluation of tick builders, Kahn-pattern matching (shared with C02/C07)"
