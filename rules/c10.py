"""C10 -- Type-checker widths are the real widths.  (DESIGN.md section 4, C10)"""
import ast
import math

from sa.astutil import norm, walk_no_nested
from sa.bitsdom import width_term
from sa.c10_util import Interp, SymInt, AInst, ClsVal, Opaque, NativeModel, form_of
from sa.errors import AnalysisError
from sa.minieval import Evaluator, Obj, Raised
from sa.report import RuleResult
from rules.c04 import FORWARD as BITS_DUNDERS
from rules.c05 import rule_intlog as _c05_intlog

PID = 'C10'
BEH = 'pymtl3/passes/rtlir/behavioral/'
TC1 = BEH + 'BehavioralRTLIRTypeCheckL1Pass.py'
TC2 = BEH + 'BehavioralRTLIRTypeCheckL2Pass.py'
TC3 = BEH + 'BehavioralRTLIRTypeCheckL3Pass.py'
BIR = BEH + 'BehavioralRTLIR.py'
GEN = [BEH + f'BehavioralRTLIRGenL{i}Pass.py' for i in (1, 2, 3, 4, 5)]
GEN2 = GEN[1]
PKG = BEH + '__init__.py'
RDT = 'pymtl3/passes/rtlir/rtype/RTLIRDataType.py'
RT = 'pymtl3/passes/rtlir/rtype/RTLIRType.py'
BITS = 'pymtl3/datatypes/PythonBits.py'
HELPERS = 'pymtl3/datatypes/helpers.py'

EXPLANATION = (
    "Static analysis of the RTLIR behavioural type checker (ast only; pymtl3 is never imported or run). The handler "
    "bodies of the most-derived checker (resolved through the package's export and the class MRO), the enforcer and the "
    "rtype/rdt classes they call are interpreted ABSTRACTLY by sa/c10_util over inputs a rule enumerates exhaustively: "
    "explicit/implicit flags of the operands x order type of two symbolic widths x constant/non-constant operands; "
    "integers carry a linear form over the point's symbols, and verdicts compare forms (which quantity a width is), not "
    "sampled numbers. R-C10-mismatch decides, for BinOp (non-shift), Compare, IfExp and signal assignment, that the "
    "rejecting region is exactly {both explicit and widths differ} u {one side explicit and narrower than the implicit "
    "side} and that the implicit/narrower side is re-sized to the context width. R-C10-widthtable decides the result "
    "width and explicitness every node kind gets (operators, shifts, comparisons, if-exp, unary, concat, zext/sext/trunc, "
    "reduce, BitsN cast, constant and +: slices, bit index, struct field, literals, free ints, loop and temporary "
    "variables, constant folding) against the width of the simulator's value, the latter extracted from PythonBits "
    "(_new_valid_bits width per operator) and helpers.py. R-C10-litwidth / R-intlog decide that both copies of "
    "_get_nbits_from_value return the least width that holds the integer (closed form, all boundaries 2^k-1,2^k,2^k+1, "
    "k<=70, both signs) without float logarithms; R-C10-idxwidth the index width of vectors/arrays; R-C10-optable the "
    "operator tables (partition into max/left groups, sibling copies, constant-folding operator = operator the generator "
    "mapped); R-C10-handlers that every node kind the generator passes construct has a handler in the most-derived "
    "checker and every source of implicit width has working enforcer logic. NOT decided: node-by-node equality on "
    "actual runs, array/interface/component indexing, loop-variable width for non-constant bounds, struct assignment.")
ASSUMPTIONS = [
    "Python int semantics; the interpreted subset of Python in sa/c10_util is faithful (unsupported constructs end in ANALYSIS-ERROR)",
    "RTLIRGetter.get_rtlir(int) == Const(get_rtlir_dtype(int), int) (get_rtlir_dtype itself is interpreted from the source)",
    "the checker's generic `visit` has typed the children before a handler runs (children are supplied pre-typed)",
    "simulator result widths are those of PythonBits/helpers (C04/C05 decide that these are correct)",
    "widths enter the handlers' decisions only through comparisons / max / linear arithmetic, so order types are exhaustive",
]


# ---------------------------------------------------------------------------
# reference closed forms (the specification)
def lit_ref(v):
    """least n such that Bits(n) holds v: [0, 2^n) for v >= 0, [-2^(n-1), 0) for v < 0"""
    return max(1, v.bit_length()) if v >= 0 else max(1, (-v - 1).bit_length() + 1)


def idx_ref(n):
    return 1 if n <= 1 else (n - 1).bit_length()


def boundaries(kmax):
    pts = {0, 1, 2, 3, 4, 7, 8}
    for k in range(1, kmax + 1):
        pts |= {2 ** k - 1, 2 ** k, 2 ** k + 1}
    return sorted(pts)


PY_TOKEN = {'Add': '+', 'Sub': '-', 'Mult': '*', 'Div': '/', 'Mod': '%', 'Pow': '**', 'LShift': '<<', 'RShift': '>>',
            'BitAnd': '&', 'BitOr': '|', 'BitXor': '^', 'Invert': '~', 'UAdd': '+', 'USub': '-'}
PY_BIN = {'Add': lambda a, b: a + b, 'Sub': lambda a, b: a - b, 'Mult': lambda a, b: a * b, 'Div': lambda a, b: a / b,
          'Mod': lambda a, b: a % b, 'Pow': lambda a, b: a ** b, 'LShift': lambda a, b: a << b,
          'RShift': lambda a, b: a >> b, 'BitAnd': lambda a, b: a & b, 'BitOr': lambda a, b: a | b,
          'BitXor': lambda a, b: a ^ b}
PY_UN = {'Invert': lambda a: ~a, 'UAdd': lambda a: +a, 'USub': lambda a: -a}
SHIFT_K = ('LShift', 'RShift')
# node classes that carry no value (statement containers / declarations): no type-check handler is required
NON_VALUE_NODES = {'CombUpblk', 'SeqUpblk', 'LoopVarDecl'}


# ---------------------------------------------------------------------------
def gen_opmap(repo):
    """{ast operator class name: bir class name} from the generator's opmap"""
    m = repo.mod(GEN2)
    f = m.get_func('BehavioralRTLIRGeneratorL2.__init__')
    for st in walk_no_nested(f):
        if isinstance(st, ast.Assign) and any(isinstance(t, ast.Attribute) and t.attr == 'opmap' for t in st.targets) \
                and isinstance(st.value, ast.Dict):
            out = {}
            for k, v in zip(st.value.keys, st.value.values):
                if not (isinstance(k, ast.Attribute) and norm(k.value) == 'ast'):
                    raise AnalysisError(f"opmap key outside the table domain: {norm(k)}")
                vv = v.func if isinstance(v, ast.Call) else v
                if not (isinstance(vv, ast.Attribute) and norm(vv.value) == 'bir'):
                    raise AnalysisError(f"opmap value outside the table domain: {norm(v)}")
                out[k.attr] = vv.attr
            return m, f, out
    raise AnalysisError("anchor vanished: BehavioralRTLIRGeneratorL2.opmap")


def _kind(k):
    c = getattr(ast, k, None)
    if c is None:
        raise AnalysisError(f"unknown ast operator {k}")
    if issubclass(c, ast.operator):
        return 'bin'
    if issubclass(c, ast.cmpop):
        return 'cmp'
    if issubclass(c, ast.unaryop):
        return 'un'
    return 'other'


def sim_table(repo, r=None):
    """result width of the simulator's value, extracted from PythonBits / helpers.
    operators: 'N' (own width; Bits operands must have that width) / '1' / None (no such operator on Bits)"""
    bm = repo.mod(BITS)
    meths = bm.methods('Bits')
    t = {}
    t['_mixed'] = {}
    for dunder, (opcls, is_cmp) in BITS_DUNDERS.items():
        f = meths.get(dunder)
        if f is None:
            t[opcls.__name__] = None
            continue
        per = []
        for c in walk_no_nested(f):
            if isinstance(c, ast.Call) and norm(c.func) == '_new_valid_bits' and c.args:
                from sa.astutil import enclosing
                h = enclosing(c, (ast.ExceptHandler,))
                branch = ('int-operand branch' if h is not None and h.type is not None and 'AttributeError' in norm(h.type)
                          else 'non-numeric-operand branch' if h is not None else 'Bits-operand branch')
                per.append((width_term(c.args[0], c, f), branch, norm(c), c.lineno))
        terms = {x[0] for x in per}
        want = '1' if is_cmp else 'N'
        if terms == {'N'}:
            t[opcls.__name__] = 'N'
        elif terms == {'1'}:
            t[opcls.__name__] = '1'
        elif terms <= {'N', '1'} and want in terms:
            # the returns of one operator disagree: report the deviating branch, keep the documented width for the table
            t[opcls.__name__] = want
            t['_mixed'][opcls.__name__] = (dunder, want, [x for x in per if x[0] != want])
        else:
            raise AnalysisError(f"Bits.{dunder}: result width terms {terms} outside the table domain")
    f = meths.get('__getitem__')
    if f is None:
        raise AnalysisError("anchor vanished: Bits.__getitem__")
    terms = set()
    for c in walk_no_nested(f):
        if isinstance(c, ast.Call) and norm(c.func) == '_new_valid_bits' and c.args:
            terms.add(width_term(c.args[0], c, f))
    sl = [x for x in terms if x and x.startswith('S:')]
    t['slice'] = 'diff' if len(sl) == 1 and sl[0].split(':')[1:] == ['start', 'stop'] else None
    t['index'] = '1' if '1' in terms else None
    # helpers
    hm = repo.mod(HELPERS)

    def fn(name):
        for n in ast.walk(hm.tree):
            if isinstance(n, ast.FunctionDef) and n.name == name:
                return n
        raise AnalysisError(f"anchor vanished: helpers.{name}")
    for name in ('zext', 'sext', 'trunc'):
        f = fn(name)
        nw = f.args.args[1].arg
        rets = [x for x in walk_no_nested(f) if isinstance(x, ast.Return)]
        ok = bool(rets) and all(isinstance(x.value, ast.Call) and (
            (norm(x.value.func) == 'Bits' and x.value.args and norm(x.value.args[0]) == nw) or norm(x.value.func) == nw)
            for x in rets)
        t[name] = 'target' if ok else None
    for name in ('reduce_and', 'reduce_or', 'reduce_xor'):
        f = fn(name)
        rets = [x for x in walk_no_nested(f) if isinstance(x, ast.Return)]
        ok = bool(rets) and all(isinstance(x.value, ast.Call) and (
            norm(x.value.func) in ('b1', 'Bits1') or (norm(x.value.func) == 'Bits' and x.value.args and norm(x.value.args[0]) == '1'))
            for x in rets)
        t[name] = '1' if ok else None
    f = fn('concat')
    t['concat'] = None
    rets = [x for x in walk_no_nested(f) if isinstance(x, ast.Return)]
    loops = [x for x in f.body if isinstance(x, ast.For)]
    if len(rets) == 1 and isinstance(rets[0].value, ast.Call) and norm(rets[0].value.func) == 'Bits' and rets[0].value.args \
            and len(loops) == 1 and f.args.vararg is not None and norm(loops[0].iter) == f.args.vararg.arg:
        acc = norm(rets[0].value.args[0])
        x = norm(loops[0].target)
        wn = {f"{x}.nbits"} | {norm(s.targets[0]) for s in loops[0].body if isinstance(s, ast.Assign) and norm(s.value) == f"{x}.nbits"}
        adds = [s for s in loops[0].body if isinstance(s, ast.AugAssign) and isinstance(s.op, ast.Add) and norm(s.target) == acc
                and norm(s.value) in wn]
        others = [s for s in ast.walk(loops[0]) if isinstance(s, (ast.Assign, ast.AugAssign)) and s not in adds and
                  acc in [norm(tt) for tt in (s.targets if isinstance(s, ast.Assign) else [s.target])]]
        if len(adds) == 1 and not others:
            t['concat'] = 'sum'
    return t


# ---------------------------------------------------------------------------
class _Getter(NativeModel):
    """RTLIRGetter.get_rtlir for python integers: Const(get_rtlir_dtype(v), v) with get_rtlir_dtype interpreted"""
    def __init__(self, w):
        self.w = w

    def get_rtlir(self, v):
        w = self.w
        if isinstance(v, AInst) and '_c10_dtype' in v.attrs:       # stand-in for a bitstruct constant
            return w.I.call(w.I.getattr(w.rt, 'Const'), [v.attrs['_c10_dtype'], v])
        if isinstance(v, AInst) and v.cls is w.bits_cls:
            pass
        elif not isinstance(v, (SymInt, int)) or isinstance(v, bool):
            raise AnalysisError(f"get_rtlir of an unsupported abstract value {v!r}")
        dt = w.I.call(w.I.getattr(w.rdt, 'get_rtlir_dtype'), [v])
        return w.I.call(w.I.getattr(w.rt, 'Const'), [dt, v])


STUB_REL = BEH + '_c10_stub.py'
STUB_SRC = """
class PairStub:
  # stand-in for a @bitstruct class with two fields (only what is_bitstruct_inst / _get_rtlir_dtype_struct read)
  __bitstruct_fields__ = { 'a': None, 'b': None }
"""


class _StructCls(NativeModel):
    """a bitstruct class as seen by visit_StructInst: calling it yields a default instance"""
    __name__ = 'PairStub'

    def __init__(self, inst):
        self.inst = inst

    def __call__(self):
        return self.inst


class World:
    """the interpreted checker world for one analysed tree"""
    def __init__(s, repo):
        from sa.loader import Repo
        s.outer = repo
        ov = dict(repo.overlay)
        ov.setdefault(STUB_REL, STUB_SRC)
        repo = Repo(repo.root, ov)
        s.repo = repo
        s.I = Interp(repo)
        s.bir = s.I.module(BIR)
        s.rt = s.I.module(RT)
        s.rdt = s.I.module(RDT)
        pkg = repo.mod(PKG)
        res = repo.resolve(pkg, 'BehavioralRTLIRTypeCheckPass')
        if res is None or not isinstance(res[1], ast.ClassDef):
            raise AnalysisError("anchor vanished: BehavioralRTLIRTypeCheckPass export")
        pcls = s.I.clsval(*res)
        gv = s.I.find_method(pcls, 'get_visitor_class')
        if gv is None:
            raise AnalysisError("anchor vanished: get_visitor_class")
        s.ck_cls = s.I.call_function(gv, [Opaque('pass')], {})
        if not isinstance(s.ck_cls, ClsVal):
            raise AnalysisError("get_visitor_class does not return a class")
        s.ck_mod = s.ck_cls.mod
        s.evals = 0
        s.bits_cls = s.I.mod_name(repo.mod(RDT), 'Bits')       # the Bits class as the rtype layer sees it
        if not isinstance(s.bits_cls, ClsVal):
            raise AnalysisError("anchor vanished: Bits class imported by RTLIRDataType.py")

    def sync(s):
        """files read by the interpreter count as consulted by the analysed repo object (evidence / digest)"""
        for rel in list(s.repo.consulted):
            if rel not in (STUB_REL, PROBE_REL) and rel not in s.outer.consulted:
                s.outer.mod(rel)

    def struct_stub(s, wa, wb):
        """(callable class stand-in, rdt field widths) of a two-field bitstruct"""
        inst = AInst(s.I.get_class(STUB_REL, 'PairStub'))
        inst.attrs.update(a=s.bits_obj(wa, 0), b=s.bits_obj(wb, 0))
        return _StructCls(inst)

    def bits_obj(s, nbits, value):
        b = AInst(s.bits_cls)
        b.attrs.update(_nbits=nbits, _uint=value)
        return b

    def checker(s):
        try:
            ck = s.I.call(s.ck_cls, [Opaque('component'), {}, set(), {}, _Getter(s)])
        except Raised as e:
            raise AnalysisError(f"the type checker cannot be constructed: raises {e.what}")
        ck.attrs['blk'] = Opaque('blk')
        return ck

    def new(s, mod, name, *a):
        n = s.I.call(s.I.getattr(mod, name), list(a))
        if mod is s.bir:
            n.attrs['ast'] = Opaque('ast')
        return n

    def vec(s, w, explicit=True):
        return s.new(s.rdt, 'Vector', w, explicit)

    def width(s, T):
        dt = s.I.call(s.I.getattr(T, 'get_dtype'))
        return SymInt.of(s.I.call(s.I.getattr(dt, 'get_length')))

    def nwidth(s, node):
        return s.width(node.attrs['Type'])

    def operand(s, kind, w, value=None):
        """E explicit signal, Ec explicit constant, I implicit non-constant (loop variable), Ic implicit literal"""
        if kind == 'E':
            n = s.new(s.bir, 'Attribute', Opaque('base'), 'x')
            n.attrs['Type'] = s.new(s.rt, 'Wire', s.vec(w))
            n.attrs['_is_explicit'] = True
        elif kind == 'Ec':
            n = s.new(s.bir, 'SizeCast', w, s.new(s.bir, 'Number', value))
            n.attrs['Type'] = s.new(s.rt, 'Const', s.vec(w), None)
            n.attrs['_is_explicit'] = True
            n.attrs['_value'] = value
        elif kind == 'I':
            n = s.new(s.bir, 'LoopVar', 'i')
            n.attrs['Type'] = s.new(s.rt, 'Const', s.vec(w, False), None)
            n.attrs['_is_explicit'] = False
        elif kind == 'Ic':
            n = s.new(s.bir, 'Number', value)
            n.attrs['Type'] = s.new(s.rt, 'Const', s.vec(w, False), value)
            n.attrs['_is_explicit'] = False
            n.attrs['_value'] = value
        else:
            raise AnalysisError(kind)
        return n

    def run(s, ck, meth, *args):
        """None when the handler returns, else the name of the exception it raises"""
        s.evals += 1
        try:
            s.I.call(s.I.getattr(ck, meth), list(args))
            return None
        except Raised as e:
            return e.what


def world(repo):
    w = getattr(repo, '_c10_world', None)
    if w is None:
        w = repo._c10_world = World(repo)
        w.sync()
    return w


PROBE_REL = BEH + '_c10_probe.py'
PROBE_SRC = '''
from .BehavioralRTLIRTypeCheckL5Pass import BehavioralRTLIRTypeCheckVisitorL5

class ProbeChecker( BehavioralRTLIRTypeCheckVisitorL5 ):
  """deliberately defective handlers: the rules must flag each of them on every run"""
  def visit_Compare( s, node ):
    node.Type = node.left.Type          # no width test, result typed like the left operand
    node._is_explicit = True
  def eval_const_binop( s, l, op, r ):
    return l - r                        # folds every operator as a subtraction
  def _get_nbits_probe( s, value ):
    return (value-1).bit_length()       # clog2's formula, not the literal width
  def get_index_width_probe( s ):
    return s.nbits.bit_length()         # one bit too many for powers of two
'''


def probe_world(repo):
    """the same analysis applied to an embedded defective checker (positive example against vacuous passes)"""
    w = getattr(repo, '_c10_probe', None)
    if w is None:
        from sa.loader import Repo
        ov = dict(repo.overlay)
        ov[PROBE_REL] = PROBE_SRC
        pr = Repo(repo.root, ov)
        w = World(pr)
        w.ck_cls = w.I.get_class(PROBE_REL, 'ProbeChecker')
        w.ck_mod = w.ck_cls.mod
        repo._c10_probe = w
    return w


def _same(form, sym):
    return form == {sym: 1}


# ---------------------------------------------------------------------------
class _FnEval(Evaluator):
    """constant folding of a pure integer function body (R-C10-litwidth / -idxwidth)"""
    FUNCS = {'abs': abs, 'int': int, 'len': len, 'bin': bin, 'max': max, 'min': min,
             'math.ceil': math.ceil, 'ceil': math.ceil, 'math.floor': math.floor, 'floor': math.floor,
             'math.log2': math.log2, 'log2': math.log2, 'math.log': math.log, 'log': math.log, 'float': float}

    def __init__(self, env):
        super().__init__(env, arith=True, funcs=self.FUNCS)

    def ev_Call(self, e):
        if isinstance(e.func, ast.Attribute) and e.func.attr == 'bit_length' and not e.args:
            v = self.ev(e.func.value)
            if isinstance(v, bool) or not isinstance(v, int):
                raise AnalysisError(f"bit_length of a non-integer in {norm(e)}")
            return v.bit_length()
        return super().ev_Call(e)

    def ev_Subscript(self, e):
        return self.ev(e.value)[self.ev(e.slice)]

    def ev_BinOp(self, e):
        if isinstance(e.op, (ast.Div, ast.Pow)):
            a, b = self.ev(e.left), self.ev(e.right)
            return a / b if isinstance(e.op, ast.Div) else a ** b
        return super().ev_BinOp(e)


def _fold(f, env):
    try:
        return _FnEval(env).run(f.body)
    except (ValueError, OverflowError, ZeroDivisionError, TypeError) as ex:
        return ('raise', type(ex).__name__)


LIT_SITES = [(RDT, '_get_nbits_from_value'), (TC1, 'BehavioralRTLIRTypeCheckVisitorL1._get_nbits_from_value')]


def rule_intlog(repo):
    return _c05_intlog(repo, only=LIT_SITES)


def rule_litwidth(repo):
    r = RuleResult('R-C10-litwidth', "an integer's inferred width is the least number of bits that holds it "
                                     "(closed form on all power-of-two boundaries, both signs); the two copies agree")
    pts = boundaries(70)
    res = {}
    for rel, q in LIT_SITES:
        m = repo.mod(rel)
        f = m.get_func(q)
        params = [a.arg for a in f.args.args]
        if '.' in q:
            params = params[1:]
        if len(params) != 1:
            raise AnalysisError(f"{q}: expected one value parameter")
        p = params[0]
        for sign, label in ((1, 'v >= 0'), (-1, 'v < 0')):
            wrong = []
            for a in pts:
                v = sign * a
                if sign < 0 and a == 0:
                    continue
                out = _fold(f, {p: v})
                r.evaluations += 1
                res[(rel, v)] = out
                if out != ('return', lit_ref(v)):
                    wrong.append((v, out))
            cons = f"{q} [{label}]"
            if wrong:
                v, out = wrong[0]
                what = f"returns {out[1]}" if out[0] == 'return' else f"ends with {out[0]} {out[1]}"
                r.bad(m, q, cons, f"for value {v} (= {'-' if v < 0 else ''}2^{abs(v).bit_length() - 1}"
                      f"{'' if abs(v) == 1 << (abs(v).bit_length() - 1) else '+...'}) the function {what}, the least width that "
                      f"holds it is {lit_ref(v)} ({len(wrong)} of {len(pts)} boundary values wrong): a literal of that "
                      f"value is typed too {'narrow' if out[0] == 'return' and isinstance(out[1], int) and out[1] < lit_ref(v) else 'wide'}",
                      f.lineno)
            else:
                r.ok(m, q, cons)
    (ra, qa), (rb, qb) = LIT_SITES
    diff = [v for (rel, v) in res if rel == ra and res[(ra, v)] != res.get((rb, v))]
    if diff:
        r.bad(repo.mod(rb), qb, "sibling copies agree", f"the two copies of _get_nbits_from_value disagree for value {diff[0]}: "
              f"{res[(ra, diff[0])]} vs {res[(rb, diff[0])]} -- a constant gets a different width depending on whether it "
              f"reaches the checker as a literal or through the rtype layer")
    else:
        r.ok(repo.mod(rb), qb, "sibling copies agree")
    # embedded positive example: clog2's formula must be told apart from the literal width
    pf = repo.__class__(repo.root, {PROBE_REL: PROBE_SRC}).mod(PROBE_REL).get_func('ProbeChecker._get_nbits_probe')
    if all(_fold(pf, {'value': v}) == ('return', lit_ref(v)) for v in pts):
        raise AnalysisError("R-C10-litwidth: the embedded off-by-one example is not flagged")
    r.require_floor(5)
    return r


IDX_SITES = [(RDT, 'Vector.get_index_width', 'nbits'), (RDT, 'PackedArray.get_index_width', 'dim_sizes'),
             (RT, 'Array.get_index_width', 'dim_sizes')]


def rule_idxwidth(repo):
    r = RuleResult('R-C10-idxwidth', "the index width of an n-element vector/array is max(1, ceil(log2 n)) "
                                     "(what _handle_index_extension sizes an implicit index to)")
    pts = sorted(set(range(1, 1030)) | {x for x in boundaries(40) if x >= 1})
    for rel, q, field in IDX_SITES:
        m = repo.mod(rel)
        f = m.get_func(q)
        me = f.args.args[0].arg
        wrong = []
        for n in pts:
            obj = Obj('self', nbits=n, dim_sizes=(n, 3))
            out = _fold(f, {me: obj})
            r.evaluations += 1
            if out != ('return', idx_ref(n)):
                wrong.append((n, out))
        if wrong:
            n, out = wrong[0]
            r.bad(m, q, f"{q}({field})", f"for {n} elements the function gives {out}, an index needs {idx_ref(n)} bits "
                  f"({len(wrong)} sizes wrong): indices are {'rejected as too wide' if out[0] == 'return' and isinstance(out[1], int) and out[1] < idx_ref(n) else 'sized wrongly'}",
                  f.lineno)
        else:
            r.ok(m, q, f"{q}({field})")
    pf = repo.__class__(repo.root, {PROBE_REL: PROBE_SRC}).mod(PROBE_REL).get_func('ProbeChecker.get_index_width_probe')
    if all(_fold(pf, {'s': Obj('self', nbits=n)}) == ('return', idx_ref(n)) for n in pts):
        raise AnalysisError("R-C10-idxwidth: the embedded off-by-one example is not flagged")
    r.require_floor(3)
    return r


# ---------------------------------------------------------------------------
def rule_optable(repo):
    r = RuleResult('R-C10-optable', "BinOp_max_nbits / BinOp_left_nbits partition the binary operators the generator "
                                    "produces; enforcer copies agree; constant folding applies the mapped operator")
    w = world(repo)
    gm, gf, opmap = gen_opmap(repo)
    bins = {k: v for k, v in opmap.items() if _kind(k) == 'bin'}
    uns = {k: v for k, v in opmap.items() if _kind(k) == 'un'}
    cmps = {k: v for k, v in opmap.items() if _kind(k) == 'cmp'}
    if len(bins) < 8 or len(cmps) < 4 or len(uns) < 2:
        raise AnalysisError("generator opmap lost its operators")
    ck = w.checker()
    m = w.ck_mod

    def names(v, what):
        if not isinstance(v, tuple) or not all(isinstance(x, ClsVal) for x in v):
            raise AnalysisError(f"{what} is not a tuple of node classes")
        return [x.name for x in v]
    mx = names(ck.attrs.get('BinOp_max_nbits'), 'BinOp_max_nbits')
    lf = names(ck.attrs.get('BinOp_left_nbits'), 'BinOp_left_nbits')
    owner = 'BehavioralRTLIRTypeCheckVisitorL2.__init__'
    for k, b in sorted(bins.items()):
        grp = [g for g, lst in (('max', mx), ('left', lf)) if b in lst]
        want = 'left' if k in SHIFT_K else 'max'
        cons = f"ast.{k} -> bir.{b}: width group"
        if grp == [want]:
            r.ok(m, owner, cons)
        elif not grp:
            r.bad(m, owner, cons, f"bir.{b} (generated for ast.{k}) is in neither BinOp_max_nbits nor BinOp_left_nbits: "
                  f"visit_BinOp ends in its internal-error branch for every `a {PY_TOKEN[k]} b`")
        elif len(grp) > 1:
            r.bad(m, owner, cons, f"bir.{b} is in both width groups; the first isinstance test wins silently")
        else:
            r.bad(m, owner, cons, f"bir.{b} is in the `{grp[0]}` width group but the simulator "
                  f"{'gives a shift the width of its left operand and the checker must not unify the shift amount' if want == 'left' else 'requires equal operand widths and gives the result that width'}: "
                  f"{'explicit width mismatches of ' + PY_TOKEN[k] + ' are no longer rejected' if want == 'max' else 'shift operands are unified like arithmetic operands'}")
    extra = sorted(set(mx + lf) - set(bins.values()))
    if extra:
        r.observations.append(f"operators in the width groups the generator never produces: {extra}")
    enf = ck.attrs.get('enforcer')
    if not isinstance(enf, AInst):
        raise AnalysisError("the checker has no enforcer instance")
    for nm, mine in (('BinOp_max_nbits', mx), ('BinOp_left_nbits', lf)):
        if nm in enf.attrs:
            theirs = names(enf.attrs[nm], f'enforcer {nm}')
            if sorted(theirs) == sorted(mine):
                r.ok(m, enf.cls.name, f"enforcer copy of {nm}")
            else:
                r.bad(m, enf.cls.name, f"enforcer copy of {nm}", f"the enforcer's {nm} {sorted(theirs)} differs from the "
                      f"checker's {sorted(mine)}")
    # constant folding: eval_const_binop applies the python operator the generator mapped to the node
    pairs = [(13, 3), (12, 5), (7, 2)]
    sig = {k: tuple(PY_BIN[k](a, b) for a, b in pairs) for k in bins}
    if len(set(sig.values())) != len(sig):
        raise AnalysisError("reference operators are not distinguishable on the probe pairs")
    def folded(ww, b):
        got = []
        for a, bb in pairs:
            ck2 = ww.checker()
            op = ww.new(ww.bir, b)
            try:
                ww.evals += 1
                v = ww.I.call(ww.I.getattr(ck2, 'eval_const_binop'), [a, op, bb])
                got.append(v.v if isinstance(v, SymInt) else v)
            except Raised as e:
                got.append(f"raises {e.what}")
        return got
    if 'Add' in bins and tuple(folded(probe_world(repo), bins['Add'])) == sig['Add']:
        raise AnalysisError("R-C10-optable: the embedded wrong-operator example is not flagged")
    for k, b in sorted(bins.items()):
        cons = f"eval_const_binop(l, bir.{b}, r)"
        got = folded(w, b)
        if tuple(got) == sig[k]:
            r.ok(m, 'eval_const_binop', cons)
        else:
            r.bad(m, 'eval_const_binop', cons, f"folding `l {PY_TOKEN[k]} r` of constants gives {got} for {pairs}, python "
                  f"(the simulator) gives {list(sig[k])}: the folded value, and the width inferred from it, are those of a "
                  f"different operator")
    for k, b in sorted(uns.items()):
        cons = f"visit_UnaryOp folds bir.{b}"
        ck2 = w.checker()
        opd = w.operand('Ic', SymInt(3, sym='w'), SymInt(5, sym='v'))
        node = w.new(w.bir, 'UnaryOp', w.new(w.bir, b), opd)
        exc = w.run(ck2, 'visit_UnaryOp', node)
        v = node.attrs.get('_value')
        v = v.v if isinstance(v, SymInt) else v
        if exc is None and v == PY_UN[k](5):
            r.ok(m, 'visit_UnaryOp', cons)
        elif exc is None and v is None:
            r.ok(m, 'visit_UnaryOp', cons, nontrivial=False, note="constant operand not folded (value unknown to parents)")
        else:
            r.bad(m, 'visit_UnaryOp', cons, f"`{PY_TOKEN[k]}5` folds to {v if exc is None else 'exception ' + exc}, python gives "
                  f"{PY_UN[k](5)}")
    r.evaluations = w.evals
    r.require_floor(27)
    return r


# ---------------------------------------------------------------------------
def _constructed(repo):
    """bir node classes constructed by the generator passes: {name: [(module, function)]}"""
    out = {}
    for rel in GEN:
        m = repo.mod(rel)
        for n in ast.walk(m.tree):
            if isinstance(n, ast.Attribute) and isinstance(n.value, ast.Name) and n.value.id == 'bir' \
                    and isinstance(n.ctx, ast.Load):
                out.setdefault(n.attr, []).append(rel)
    return out


def _flag_sources(w):
    """node kinds whose handler decides `_is_explicit` from something other than True / its children's flags"""
    src = {}
    for c in w.I.mro(w.ck_cls):
        for st in c.mod._defs_in(c.node.body):
            if not (isinstance(st, ast.FunctionDef) and st.name.startswith('visit_') and len(st.args.args) >= 2):
                continue
            kind = st.name[len('visit_'):]
            nd = st.args.args[1].arg
            alias = set()
            for a in ast.walk(st):
                if isinstance(a, ast.Assign) and len(a.targets) == 1:
                    t, v = a.targets[0], a.value
                    pairs = [(t, v)]
                    if isinstance(t, ast.Tuple) and isinstance(v, ast.Tuple) and len(t.elts) == len(v.elts):
                        pairs = list(zip(t.elts, v.elts))
                    for tt, vv in pairs:
                        if isinstance(tt, ast.Name) and isinstance(vv, ast.Attribute) and vv.attr == '_is_explicit' \
                                and norm(vv.value).startswith(nd + '.'):
                            alias.add(tt.id)

            def is_prop(v):
                if isinstance(v, ast.Constant) and v.value is True:
                    return True
                if isinstance(v, ast.BoolOp):
                    return all(is_prop(x) for x in v.values)
                if isinstance(v, ast.Attribute) and v.attr == '_is_explicit' and norm(v.value).startswith(nd + '.'):
                    return True
                return isinstance(v, ast.Name) and v.id in alias
            for a in ast.walk(st):
                if isinstance(a, ast.Assign) and any(isinstance(t, ast.Attribute) and t.attr == '_is_explicit' and
                                                     norm(t.value) == nd for t in a.targets):
                    if not is_prop(a.value):
                        src.setdefault(kind, norm(a))
    return src


def rule_handlers(repo):
    r = RuleResult('R-C10-handlers', "every node kind the generator constructs has a handler in the most-derived checker; "
                                     "every source of implicit width is re-sized by the enforcer, explicit nodes are not")
    w = world(repo)
    bm = repo.mod(BIR)
    cons = _constructed(repo)
    if len(cons) < 30:
        raise AnalysisError("generator passes no longer construct the node classes")
    value_nodes = 0
    for name in sorted(cons):
        c = bm.classes.get(name)
        if c is None:
            if name in ('BaseBehavioralRTLIR', 'BehavioralRTLIRNodeVisitor'):
                continue
            raise AnalysisError(f"generator references bir.{name} which BehavioralRTLIR.py does not define")
        has_fields = any(isinstance(x, ast.FunctionDef) and x.name == '__init__' for x in c.body)
        if not has_fields or name in NON_VALUE_NODES:
            continue
        value_nodes += 1
        f = w.I.find_method(w.ck_cls, 'visit_' + name)
        if f is not None:
            r.ok(w.ck_mod, w.ck_cls.name, f"visit_{name} (defined in {f.defcls.name})", nontrivial=False)
        else:
            r.bad(w.ck_mod, w.ck_cls.name, f"visit_{name}", f"bir.{name} is constructed by {sorted(set(cons[name]))[0]} but the "
                  f"most-derived type checker has no visit_{name}: generic_visit gives the node Type None, so its width "
                  f"is never computed / compared")
    if w.I.find_method(probe_world(repo).ck_cls, 'visit_ProbeNode') is not None or \
            w.I.find_method(probe_world(repo).ck_cls, 'visit_Compare').defcls.name != 'ProbeChecker':
        raise AnalysisError("R-C10-handlers: handler lookup through the MRO does not behave as expected on the embedded example")
    # sources of implicitness need enforcer logic -- decided by running the interpreted enforcer
    src = _flag_sources(w)
    if len(src) < 5:
        raise AnalysisError(f"implicit-width sources not found in the checker ({sorted(src)})")
    for kind in sorted(src):
        for explicit in (False, True):
            ck = w.checker()
            enf = ck.attrs['enforcer']
            wsym = SymInt(3, sym='w')
            if kind == 'Number':
                n = w.new(w.bir, 'Number', SymInt(5, sym='v'))
            elif kind == 'FreeVar':
                n = w.new(w.bir, 'FreeVar', 'k', SymInt(5, sym='v'))
            elif kind == 'Attribute':
                n = w.new(w.bir, 'Attribute', Opaque('base'), 'k')
            elif kind == 'Index':
                n = w.new(w.bir, 'Index', Opaque('base'), Opaque('idx'))
            elif kind == 'LoopVar':
                n = w.new(w.bir, 'LoopVar', 'i')
            elif kind == 'TmpVar':
                n = w.new(w.bir, 'TmpVar', 't', 'blk')
                ck.attrs['tmpvars_is_explicit'][('t', 'blk')] = explicit
            elif kind == 'IfExp':
                continue
            else:
                raise AnalysisError(f"implicit-width source of an unknown node kind: visit_{kind} ({src[kind]})")
            n.attrs['Type'] = w.new(w.rt, 'Const', w.vec(wsym, explicit), None)
            n.attrs['_is_explicit'] = explicit
            ctx = w.new(w.rt, 'NetWire', w.vec(SymInt(8, sym='ctx')))
            w.evals += 1
            try:
                w.I.call(w.I.getattr(enf, 'enter'), [Opaque('blk'), ctx, n])
            except Raised as e:
                r.bad(w.ck_mod, enf.cls.name, f"enforce {kind} ({'explicit' if explicit else 'implicit'})",
                      f"the enforcer raises {e.what} on a {kind} node")
                continue
            got = w.nwidth(n).form
            c = f"enforce {kind} ({'explicit' if explicit else 'implicit'})"
            if explicit and _same(got, 'w'):
                r.ok(w.ck_mod, enf.cls.name, c)
            elif explicit:
                r.bad(w.ck_mod, enf.cls.name, c, f"an explicitly sized {kind} is re-sized by the enforcer: a width mismatch "
                      f"with the context is silently repaired instead of being rejected")
            elif _same(got, 'ctx'):
                r.ok(w.ck_mod, enf.cls.name, c)
            else:
                r.bad(w.ck_mod, enf.cls.name, c, f"an implicitly sized {kind} ({src[kind]}) keeps its inferred width when "
                      f"the enforcer is given a context: the literal/variable is typed narrower than the operand it is "
                      f"combined with")
    # if-expression: both arms and the node itself
    ck = w.checker()
    enf = ck.attrs['enforcer']
    a, b = w.operand('Ic', SymInt(3, sym='wa'), SymInt(5, sym='va')), w.operand('I', SymInt(2, sym='wb'))
    n = w.new(w.bir, 'IfExp', w.operand('E', SymInt(1, sym='wc')), a, b)
    n.attrs['Type'] = a.attrs['Type']
    n.attrs['_is_explicit'] = False
    ctx = w.new(w.rt, 'NetWire', w.vec(SymInt(8, sym='ctx')))
    w.evals += 1
    try:
        w.I.call(w.I.getattr(enf, 'enter'), [Opaque('blk'), ctx, n])
        forms = [w.nwidth(x).form for x in (a, b, n)]
        if all(_same(f, 'ctx') for f in forms):
            r.ok(w.ck_mod, enf.cls.name, "enforce IfExp (both arms and the node)")
        else:
            r.bad(w.ck_mod, enf.cls.name, "enforce IfExp (both arms and the node)",
                  f"after enforcing an implicit if-expression to the context width its body/orelse/node widths are {forms}")
    except Raised as e:
        r.bad(w.ck_mod, enf.cls.name, "enforce IfExp (both arms and the node)", f"the enforcer raises {e.what}")
    r.evaluations = w.evals
    r.require_floor(35)
    return r



# ---------------------------------------------------------------------------
# abstract points shared by R-C10-mismatch and R-C10-widthtable
ORDERS = (('wl<wr', 4, 8), ('wl>wr', 8, 4), ('wl=wr', 6, 6))
FLAGS = ((True, True), (True, False), (False, True), (False, False))
LITVAL = {4: 9, 8: 200, 6: 40}      # a literal that needs exactly that many bits
EXPVAL = {4: 15, 8: 255, 6: 63}     # explicitly sized constants: all ones (an addition overflows the width)


def _flagtxt(le, re, names=('left', 'right')):
    return f"{names[0]} {'explicit' if le else 'implicit'}, {names[1]} {'explicit' if re else 'implicit'}"


def _pair(w, le, re, wl, wr, const):
    def one(explicit, width, ws, vs):
        wsym = SymInt(width, sym=ws)
        if explicit:
            return w.operand('Ec', wsym, SymInt(EXPVAL[width], sym=vs)) if const else w.operand('E', wsym)
        return w.operand('Ic', wsym, SymInt(LITVAL[width], sym=vs)) if const else w.operand('I', wsym)
    return one(le, wl, 'wl', 'vl'), one(re, wr, 'wr', 'vr')


def _unify_verdict(w, exc, le, re, wl, wr, l, r):
    """(must_reject, problem or None) for a handler that unifies two operands"""
    expl_mismatch = le and re and wl != wr
    trunc = (le != re) and ((wl if le else wr) < (wr if le else wl))
    must = expl_mismatch or trunc
    if must:
        if exc is None:
            return must, ("ACCEPTED although " + ("both operands are explicitly sized and their widths differ"
                          if expl_mismatch else "the implicit side needs more bits than the explicitly sized side has")
                          + " (the simulator raises a width / truncation error)")
        if exc != 'PyMTLTypeError':
            return must, f"ends with {exc} instead of PyMTLTypeError"
        return must, None
    if exc == 'PyMTLTypeError':
        return must, "REJECTED although the widths agree / the implicit side fits"
    if exc is not None:
        return must, f"crashes with {exc}"
    fl, fr = w.nwidth(l).form, w.nwidth(r).form
    if le != re and wl != wr:
        esym = 'wl' if le else 'wr'
        got = fr if le else fl
        if not _same(got, esym):
            return must, (f"the implicit side is not re-sized to the width of the explicit side (its width stays "
                          f"{'its own' if _same(got, 'wr' if le else 'wl') else got})")
    elif not le and not re and wl != wr:
        big = 'wl' if wl > wr else 'wr'
        got = fr if wl > wr else fl
        if not _same(got, big):
            return must, "of two implicit operands the narrower one is not re-sized to the wider width"
    return must, None


def _expected_unified(le, re, wl, wr):
    """set of acceptable width symbols for the result of a unifying node"""
    if le and re:
        return {'wl', 'wr'}
    if le != re:
        return {'wl' if le else 'wr'} | ({'wl', 'wr'} if wl == wr else set())
    return {'wl', 'wr'} if wl == wr else {'wl' if wl > wr else 'wr'}


def _example(kind, k, le, re, wl, wr):
    def side(e, wd):
        return f"s.in{wd}" if e else f"<{wd}-bit literal>"
    tok = PY_TOKEN.get(k, {'Eq': '==', 'NotEq': '!=', 'Lt': '<', 'LtE': '<=', 'Gt': '>', 'GtE': '>='}.get(k, k))
    if kind == 'ifexp':
        return f"`{side(le, wl)} if c else {side(re, wr)}`"
    if kind == 'assign':
        return f"`s.out{wl} @= {side(re, wr)}`"
    return f"`{side(le, wl)} {tok} {side(re, wr)}`"


def _run_pair_points(repo, w=None, only=None):
    """interpret the unifying handlers on every abstract point once; shared by two rules"""
    cache = getattr(repo, '_c10_points', None)
    if cache is not None and w is None:
        return cache
    probe = w is not None
    w = w or world(repo)
    _gm, _gf, opmap = gen_opmap(repo)
    pts = []
    for k, b in sorted(opmap.items()):
        kd = _kind(k)
        if kd not in ('bin', 'cmp') or (only and kd not in only):
            continue
        for le, re in FLAGS:
            for oname, wl, wr in ORDERS:
                for const in (False, True):
                    if const and (kd == 'cmp' or k == 'Div'):
                        continue
                    ck = w.checker()
                    l, r = _pair(w, le, re, wl, wr, const)
                    node = w.new(w.bir, 'BinOp' if kd == 'bin' else 'Compare', l, w.new(w.bir, b), r)
                    exc = w.run(ck, 'visit_BinOp' if kd == 'bin' else 'visit_Compare', node)
                    pts.append(dict(kind='shift' if k in SHIFT_K else kd, k=k, b=b, le=le, re=re, order=oname, wl=wl, wr=wr,
                                    const=const, exc=exc, node=node, l=l, r=r))
    if probe:
        return pts
    for le, re in FLAGS:
        for oname, wl, wr in ORDERS:
            for const in (False, True):
                ck = w.checker()
                l, r = _pair(w, le, re, wl, wr, const)
                node = w.new(w.bir, 'IfExp', w.operand('E', SymInt(1, sym='wc')), l, r)
                exc = w.run(ck, 'visit_IfExp', node)
                pts.append(dict(kind='ifexp', k='IfExp', b='IfExp', le=le, re=re, order=oname, wl=wl, wr=wr, const=const,
                                exc=exc, node=node, l=l, r=r))
    for re in (True, False):
        for oname, wl, wr in ORDERS:
            for const in (False, True):
                ck = w.checker()
                _l, val = _pair(w, True, re, wl, wr, const)
                tgt = w.new(w.bir, 'Attribute', Opaque('base'), 'out')
                tgt.attrs['Type'] = w.new(w.rt, 'Port', 'output', w.vec(SymInt(wl, sym='wl')))
                tgt.attrs['_is_explicit'] = True
                node = w.new(w.bir, 'Assign', [tgt], val, True)
                exc = w.run(ck, '_visit_Assign_single_target', node, tgt, 0)
                pts.append(dict(kind='assign', k='Assign', b='Assign', le=True, re=re, order=oname, wl=wl, wr=wr, const=const,
                                exc=exc, node=node, l=tgt, r=val))
    repo._c10_points = pts
    return pts


HANDLER_OF = {'bin': 'visit_BinOp', 'shift': 'visit_BinOp', 'cmp': 'visit_Compare', 'ifexp': 'visit_IfExp',
              'assign': '_visit_Assign_single_target'}
TITLE = {'bin': 'visit_BinOp (arithmetic/bitwise)', 'shift': 'visit_BinOp (shift)', 'cmp': 'visit_Compare',
         'ifexp': 'visit_IfExp', 'assign': '_visit_Assign_single_target (signal)'}


def _bool_struct_points(repo):
    """comparison results (rdt.Bool) meeting explicit vectors, and struct <-> vector assignments.
    The rdt equality / castability methods (__eq__, __ne__, __call__) are interpreted from the source."""
    w = world(repo)
    _gm, _gf, opmap = gen_opmap(repo)
    out = []

    def boolnode():
        n = w.new(w.bir, 'Compare', w.operand('E', SymInt(4, sym='wa')), w.new(w.bir, 'Lt'), w.operand('E', SymInt(4, sym='wb')))
        n.attrs['Type'] = w.new(w.rt, 'NetWire', w.new(w.rdt, 'Bool'))
        n.attrs['_is_explicit'] = True
        return n
    for side in ('left', 'right'):
        for wv in (1, 4):
            def operands():
                v = w.operand('E', SymInt(wv, sym='wv'))
                return (boolnode(), v) if side == 'left' else (v, boolnode())
            must = wv != 1
            for kd, title, handler in (('bin', 'visit_BinOp (arithmetic/bitwise)', 'visit_BinOp'), ('cmp', 'visit_Compare', 'visit_Compare')):
                excs = []
                for k, b in sorted(opmap.items()):
                    if _kind(k) != kd or k in SHIFT_K:
                        continue
                    l, r_ = operands()
                    node = w.new(w.bir, 'BinOp' if kd == 'bin' else 'Compare', l, w.new(w.bir, b), r_)
                    excs.append((k, w.run(w.checker(), handler, node)))
                ex = f"`(s.a < s.b) {PY_TOKEN.get(excs[0][0], '==')} s.in{wv}`" if side == 'left' else \
                    f"`s.in{wv} {PY_TOKEN.get(excs[0][0], '==')} (s.a < s.b)`"
                out.append((f"{title}: comparison result (1-bit Bool) on the {side}, explicit {wv}-bit vector on the other side",
                            handler, ex, must, excs))
            l, r_ = operands()
            node = w.new(w.bir, 'IfExp', w.operand('E', SymInt(1, sym='wc')), l, r_)
            out.append((f"visit_IfExp: comparison result (1-bit Bool) as {'body' if side == 'left' else 'orelse'}, explicit {wv}-bit vector as the other arm",
                        'visit_IfExp', f"`(s.a < s.b) if c else s.in{wv}`" if side == 'left' else f"`s.in{wv} if c else (s.a < s.b)`",
                        must, [('IfExp', w.run(w.checker(), 'visit_IfExp', node))]))
    for wv in (1, 4):
        tgt = w.new(w.bir, 'Attribute', Opaque('base'), 'out')
        tgt.attrs.update(Type=w.new(w.rt, 'Port', 'output', w.vec(SymInt(wv, sym='wl'))), _is_explicit=True)
        val = boolnode()
        node = w.new(w.bir, 'Assign', [tgt], val, True)
        out.append((f"_visit_Assign_single_target (signal): comparison result (1-bit Bool) assigned to an explicit {wv}-bit signal",
                    '_visit_Assign_single_target', f"`s.out{wv} @= s.a < s.b`", wv != 1,
                    [('Assign', w.run(w.checker(), '_visit_Assign_single_target', node, tgt, 0))]))
    # struct <-> vector assignment
    cls_a, cls_b = w.I.get_class(BIR, 'Base'), w.I.get_class(BIR, 'Number')     # stand-ins for two bitstruct classes (only __name__ is read)

    def struct(cls=cls_a, sym=True):
        return w.new(w.rdt, 'Struct', cls, {'a': w.vec(SymInt(3, sym='fa') if sym else 3), 'b': w.vec(SymInt(5, sym='fb') if sym else 5)})
    for s_side in ('LHS', 'RHS'):
        for oname, wv in (('narrower than', 4), ('as wide as', 8), ('wider than', 12)):
            tgt = w.new(w.bir, 'Attribute', Opaque('base'), 'out')
            val = w.new(w.bir, 'Attribute', Opaque('base'), 'in_')
            if s_side == 'LHS':
                tgt.attrs.update(Type=w.new(w.rt, 'Port', 'output', struct()), _is_explicit=True)
                val.attrs.update(Type=w.new(w.rt, 'Wire', w.vec(SymInt(wv, sym='wv'))), _is_explicit=True)
                ex = f"`s.out_struct8 @= s.in{wv}`"
            else:
                tgt.attrs.update(Type=w.new(w.rt, 'Port', 'output', w.vec(SymInt(wv, sym='wv'))), _is_explicit=True)
                val.attrs.update(Type=w.new(w.rt, 'Wire', struct()), _is_explicit=True)
                ex = f"`s.out{wv} @= s.in_struct8`"
            node = w.new(w.bir, 'Assign', [tgt], val, True)
            out.append((f"_visit_Assign_single_target (struct): 8-bit struct on the {s_side}, explicit vector {oname} the struct on the other side",
                        '_visit_Assign_single_target', ex, wv != 8,
                        [('Assign', w.run(w.checker(), '_visit_Assign_single_target', node, tgt, 0))]))
    for oname, wv, lit in (('narrower than', 4, 9), ('as wide as', 8, 200)):
        tgt = w.new(w.bir, 'Attribute', Opaque('base'), 'out')
        tgt.attrs.update(Type=w.new(w.rt, 'Port', 'output', struct()), _is_explicit=True)
        val = w.operand('Ic', SymInt(wv, sym='wv'), SymInt(lit, sym='v'))
        node = w.new(w.bir, 'Assign', [tgt], val, True)
        exc = w.run(w.checker(), '_visit_Assign_single_target', node, tgt, 0)
        if exc is None and w.nwidth(val).v != 8:
            exc = 'literal-not-resized'
        out.append((f"_visit_Assign_single_target (struct): 8-bit struct on the LHS, literal {oname} the struct on the RHS (re-sized to the struct width)",
                    '_visit_Assign_single_target', f"`s.out_struct8 @= <{wv}-bit literal>`", False, [('Assign', exc)]))
    def struct2(cls, wa, wb):
        return w.new(w.rdt, 'Struct', cls, {'a': w.vec(wa), 'b': w.vec(wb)})
    for txt, rhs, same in (('the same struct type', struct2(cls_a, 3, 5), True),
                           ('another struct class with the same fields', struct2(cls_b, 3, 5), False),
                           ('a struct class of the same NAME whose fields have other widths (same total)', struct2(cls_a, 4, 4), False),
                           ('a struct class of the same NAME with a wider field', struct2(cls_a, 3, 6), False)):
        tgt = w.new(w.bir, 'Attribute', Opaque('base'), 'out')
        val = w.new(w.bir, 'Attribute', Opaque('base'), 'in_')
        tgt.attrs.update(Type=w.new(w.rt, 'Port', 'output', struct2(cls_a, 3, 5)), _is_explicit=True)
        val.attrs.update(Type=w.new(w.rt, 'Wire', rhs), _is_explicit=True)
        node = w.new(w.bir, 'Assign', [tgt], val, True)
        out.append((f"_visit_Assign_single_target (struct): LHS struct A(a:3, b:5), RHS {txt}",
                    '_visit_Assign_single_target', f"`s.out_structA @= <{txt}>`", not same,
                    [('Assign', w.run(w.checker(), '_visit_Assign_single_target', node, tgt, 0))]))
    # several targets: every target is checked / recorded
    def port(wd, sym):
        t_ = w.new(w.bir, 'Attribute', Opaque('base'), 'out' + sym)
        t_.attrs.update(Type=w.new(w.rt, 'Port', 'output', w.vec(SymInt(wd, sym=sym))), _is_explicit=True)
        return t_
    for txt, widths, must in (('both targets as wide as the RHS', (8, 8), False), ('second target narrower than the RHS', (8, 4), True),
                              ('first target narrower than the RHS', (4, 8), True), ('third target wider than the RHS', (8, 8, 12), True)):
        tg = [port(wd, f't{i}') for i, wd in enumerate(widths)]
        node = w.new(w.bir, 'Assign', tg, w.operand('E', SymInt(8, sym='wr')), True)
        out.append((f"visit_Assign with several targets: {txt}", 'visit_Assign',
                    '`' + ' = '.join(f's.out{wd}' for wd in widths) + ' = s.in8`', must, [('Assign', w.run(w.checker(), 'visit_Assign', node))]))
    ck = w.checker()
    tg = [w.new(w.bir, 'TmpVar', nm, 'blk') for nm in ('t', 'u')]
    for t_ in tg:
        t_.attrs.update(Type=w.new(w.rt, 'NoneType'), _is_explicit=True)
    exc = w.run(ck, 'visit_Assign', w.new(w.bir, 'Assign', tg, w.operand('E', SymInt(8, sym='wr')), True))
    if exc is None:
        rec = ck.attrs.get('tmpvars', {})
        missing = [nm for nm in ('t', 'u') if (nm, 'blk') not in rec or w.width(rec[(nm, 'blk')]).form != {'wr': 1}]
        if missing:
            exc = f"temporary {missing[0]} not recorded with the width of the RHS"
    out.append(("visit_Assign with several targets: two temporaries, both recorded with the RHS type", 'visit_Assign', "`t = u = s.in8`",
                False, [('Assign', exc)]))
    return out


def _tmpvar_struct_points(repo):
    """(construct, handler, example, problem-or-None): temporaries assigned twice; arguments of a struct instantiation"""
    w = world(repo)
    out = []
    S = lambda v, name: SymInt(v, sym=name)

    def value(kind, wd, tag):
        if kind == 'E':
            return w.operand('E', S(wd, 'w' + tag))
        return w.operand('Ic', S(wd, 'w' + tag), S({1: 1, 4: 9, 8: 200, 12: 2100}[wd], 'v' + tag))
    first_kinds = (('E', 8, 'an explicit 8-bit value'), ('Ic', 8, 'an 8-bit literal'), ('Ic', 1, 'a 1-bit literal'))
    second_kinds = (('E', 8, 'an explicit 8-bit value'), ('E', 4, 'an explicit 4-bit value'), ('E', 12, 'an explicit 12-bit value'),
                    ('Ic', 8, 'an 8-bit literal'), ('Ic', 1, 'a 1-bit literal'), ('Ic', 12, 'a 12-bit literal'))
    for k1, w1, t1 in first_kinds:
        for k2, w2, t2 in second_kinds:
            cons = f"temporary assigned {t1}, then {t2}"
            ex = f"`u = <{t1}>; u = <{t2}>`"
            ck = w.checker()

            def assign(v):
                tgt = w.new(w.bir, 'TmpVar', 'u', 'blk')
                e = w.run(ck, 'visit_TmpVar', tgt)
                if e is not None:
                    return 'visit_TmpVar:' + e
                return w.run(ck, '_visit_Assign_single_target', w.new(w.bir, 'Assign', [tgt], v, True), tgt, 0)
            e1 = assign(value(k1, w1, '1'))
            if e1 is not None:
                out.append((cons, '_visit_Assign_single_target', ex, f"the first assignment ends with {e1}"))
                continue
            v2 = value(k2, w2, '2')
            e2 = assign(v2)
            e1x, e2x = k1 == 'E', k2 == 'E'
            must_reject = w2 > w1 or (e2x and w2 != w1)
            must_accept = w2 == w1
            prob = None
            if must_reject and e2 is None:
                prob = (f"ACCEPTED although the second value ({w2} bits{'' if e2x else ', literal'}) is not representable in the "
                        f"recorded {w1}-bit type: the temporary's type is silently replaced / the value truncated")
            elif must_reject and e2 != 'PyMTLTypeError':
                prob = f"ends with {e2} instead of PyMTLTypeError"
            elif must_accept and e2 is not None:
                prob = f"the second assignment of a value of the same width is {'rejected' if e2 == 'PyMTLTypeError' else 'ending with ' + e2}"
            elif e2 is not None and e2 != 'PyMTLTypeError':
                prob = f"ends with {e2}"
            if prob is None and e2 is None:
                use = w.new(w.bir, 'TmpVar', 'u', 'blk')
                e3 = w.run(ck, 'visit_TmpVar', use)
                if e3 is not None or not isinstance(use.attrs.get('Type'), AInst):
                    prob = f"reading the temporary afterwards ends with {e3}"
                elif w.nwidth(use).v != w1:
                    prob = f"the recorded type of the temporary changed from {w1} to {w.nwidth(use).v} bits"
                elif use.attrs.get('_is_explicit') != (e1x or e2x):
                    prob = ("a temporary that has held an explicitly sized value is re-sizable afterwards: "
                            "`if c: u = s.in8 else: u = 200; s.out16 @= u` is accepted and zero-extended, simulation raises a width mismatch"
                            if (e1x or e2x) else "a temporary that only ever held literals became explicitly sized")
            out.append((cons, '_visit_Assign_single_target', ex, prob))
    # temporaries holding structs: "same type" is the struct name that encodes fields and widths, not the class name
    cls_a = w.I.get_class(BIR, 'Base')
    for txt, wa, wb, accept in (('the same struct type', 3, 5, True), ('a struct of the same class NAME with other field widths', 4, 4, False)):
        ck = w.checker()

        def sval(a_, b_):
            v = w.new(w.bir, 'Attribute', Opaque('base'), 'in_')
            v.attrs.update(Type=w.new(w.rt, 'Wire', w.new(w.rdt, 'Struct', cls_a, {'a': w.vec(a_), 'b': w.vec(b_)})), _is_explicit=True)
            return v
        excs = []
        for v in (sval(3, 5), sval(wa, wb)):
            tgt = w.new(w.bir, 'TmpVar', 'u', 'blk')
            e = w.run(ck, 'visit_TmpVar', tgt)
            excs.append(e or w.run(ck, '_visit_Assign_single_target', w.new(w.bir, 'Assign', [tgt], v, True), tgt, 0))
        prob = None
        if excs[0] is not None:
            prob = f"the first assignment ends with {excs[0]}"
        elif accept and excs[1] is not None:
            prob = f"re-assigning a value of the same struct type is {'rejected' if excs[1] == 'PyMTLTypeError' else 'ending with ' + excs[1]}"
        elif not accept and excs[1] != 'PyMTLTypeError':
            prob = (f"{'ACCEPTED' if excs[1] is None else 'ending with ' + excs[1]}: two struct types are told apart by class name only, the "
                    f"temporary silently changes its field layout")
        out.append((f"temporary assigned struct A(a:3, b:5), then {txt}", '_visit_Assign_single_target', "`u = s.in_A; u = s.in_A2`", prob))
    # struct instantiation: field a has 8 bits, field b 4 bits
    arg_kinds = (('explicit 8-bit value', 'E', 8, True), ('explicit 4-bit value', 'E', 4, False), ('explicit 12-bit value', 'E', 12, False),
                 ('8-bit literal', 'I', 200, True), ('3-bit literal', 'I', 5, True), ('9-bit literal', 'I', 300, False),
                 ('value of another struct type', 'S', 0, False))
    for txt, kind, x, accept in arg_kinds:
        ck = w.checker()
        if kind == 'E':
            a = w.new(w.bir, 'SizeCast', S(x, 'wx'), w.new(w.bir, 'Number', S(1, 'vx')))
        elif kind == 'I':
            a = w.new(w.bir, 'Number', S(x, 'vx'))
        else:
            sc = AInst(w.I.get_class(STUB_REL, 'PairStub'))
            sc.attrs['_c10_dtype'] = w.new(w.rdt, 'Struct', w.I.get_class(BIR, 'Number'), {'p': w.vec(3), 'q': w.vec(5)})
            a = w.new(w.bir, 'FreeVar', 'K', sc)
        b = w.new(w.bir, 'SizeCast', S(4, 'wb'), w.new(w.bir, 'Number', S(1, 'vb')))
        node = w.new(w.bir, 'StructInst', w.struct_stub(S(8, 'fa'), S(4, 'fb')), [a, b])
        exc = w.run(ck, 'visit_StructInst', node)
        prob = None
        if accept and exc is not None:
            prob = f"is {'rejected' if exc == 'PyMTLTypeError' else 'ending with ' + exc} although the bitstruct constructor accepts it"
        elif not accept and exc is None:
            prob = ("ACCEPTED although the bitstruct constructor of the simulator raises (Bits8 field from a value that is "
                    "too narrow / too wide / of another type)")
        elif not accept and exc != 'PyMTLTypeError':
            prob = f"ends with {exc} instead of PyMTLTypeError"
        elif accept and kind == 'I' and w.nwidth(a).v != 8:
            prob = "the literal argument is not re-sized to the field width"
        elif accept and (not isinstance(node.attrs.get('Type'), AInst) or w.nwidth(node).form != {'fa': 1, 'fb': 1}
                         or node.attrs.get('_is_explicit') is not True):
            prob = "the instantiated struct is not typed with the struct's width / explicit"
        out.append((f"visit_StructInst: 8-bit field given a(n) {txt}", 'visit_StructInst', f"`Pair( <{txt}>, Bits4(1) )`", prob))
    return out


def _where(w, handler):
    f = w.I.find_method(w.ck_cls, handler)
    if f is None:
        raise AnalysisError(f"anchor vanished: {w.ck_cls.name}.{handler}")
    return f.mod, f"{f.defcls.name}.{handler}", f.node.lineno


def rule_mismatch(repo):
    r = RuleResult('R-C10-mismatch', "BinOp (non-shift) / Compare / IfExp / assignment: rejected exactly when explicit widths "
                                     "differ or an implicit side is wider than the explicit side; otherwise the implicit / "
                                     "narrower side is re-sized to the context width")
    w = world(repo)
    pts = _run_pair_points(repo)
    groups = {}
    for p in pts:
        if p['kind'] == 'shift':
            continue
        groups.setdefault((p['kind'], p['le'], p['re'], p['order']), []).append(p)
    for (kind, le, re, order), ps in sorted(groups.items(), key=lambda kv: (kv[0][0], not kv[0][1], not kv[0][2], kv[0][3])):
        names = ('body', 'orelse') if kind == 'ifexp' else ('LHS', 'RHS') if kind == 'assign' else ('left', 'right')
        cons = f"{TITLE[kind]}: {_flagtxt(le, re, names)}, {order}"
        wm, wq, wl_ = _where(w, HANDLER_OF[kind])
        bad = []
        for p in ps:
            _must, prob = _unify_verdict(w, p['exc'], le, re, p['wl'], p['wr'], p['l'], p['r'])
            if prob:
                bad.append((p, prob))
        if bad:
            p, prob = bad[0]
            ops = sorted({x['k'] + ('(constants)' if x['const'] else '') for x, _ in bad})
            r.bad(wm, wq, cons,
                  f"{_example(kind, p['k'], le, re, p['wl'], p['wr'])} is {prob}; affected: {', '.join(ops[:6])}"
                  f"{' ...' if len(ops) > 6 else ''}", wl_)
        else:
            r.ok(wm, wq, cons)
    for cons, handler, ex, must, excs in _bool_struct_points(repo):
        wm, wq, wl_ = _where(w, handler)
        bad = []
        for k, exc in excs:
            if must and exc is None:
                bad.append((k, "ACCEPTED although the widths differ (the simulator raises a bitwidth mismatch error)"))
            elif must and exc != 'PyMTLTypeError':
                bad.append((k, f"ends with {exc} instead of PyMTLTypeError"))
            elif not must and exc is not None:
                bad.append((k, "REJECTED although the widths agree" if exc == 'PyMTLTypeError' else f"ends with {exc}"))
        if bad:
            r.bad(wm, wq, cons, f"{ex} is {bad[0][1]}; affected: {', '.join(sorted(k for k, _ in bad)[:6])}", wl_)
        else:
            r.ok(wm, wq, cons)
    for cons, handler, ex, prob in _tmpvar_struct_points(repo):
        wm, wq, wl_ = _where(w, handler)
        if prob:
            r.bad(wm, wq, cons, f"{ex}: {prob}", wl_)
        else:
            r.ok(wm, wq, cons)
    pw = probe_world(repo)
    ppts = _run_pair_points(repo, pw, only=('cmp',))
    if not any(_unify_verdict(pw, p['exc'], p['le'], p['re'], p['wl'], p['wr'], p['l'], p['r'])[1] for p in ppts):
        raise AnalysisError("R-C10-mismatch: the embedded checker without width tests is not flagged")
    r.evaluations = w.evals + len(ppts)
    r.require_floor(100)
    return r



# ---------------------------------------------------------------------------
def rule_widthtable(repo):
    r = RuleResult('R-C10-widthtable', "the width (and explicitness) the checker assigns per node kind is the width of the "
                                       "value the simulator computes (PythonBits / helpers result widths)")
    w = world(repo)
    sim = sim_table(repo)
    _gm, _gf, opmap = gen_opmap(repo)
    pts = _run_pair_points(repo)

    for opname, (dunder, want, devs) in sorted(sim['_mixed'].items()):
        for term, branch, call, line in devs:
            r.bad(repo.mod(BITS), f"Bits.{dunder}", f"Bits.{dunder} {branch}: result width",
                  f"`return {call}` in the {branch} yields a value of width {'1' if term == '1' else 'nbits'} while the other returns of "
                  f"{dunder} (and the type checker, for ast.{opname}) give {'1 bit' if want == '1' else 'the operand width'}: the static "
                  f"width of `a {'>=' if opname == 'GtE' else opname} <int>` differs from the simulated one", line)
    # -- operators, comparisons, if-expressions ----------------------------------------------------
    groups = {}
    for p in pts:
        if p['kind'] == 'assign':
            continue
        groups.setdefault((p['kind'], p['k']), []).append(p)
    for (kind, k), ps in sorted(groups.items()):
        wm, wq, wl_ = _where(w, HANDLER_OF[kind])
        cons = f"{TITLE[kind]} {k}: result width"
        simw = {'bin': sim.get(k), 'shift': sim.get(k), 'cmp': sim.get(k), 'ifexp': 'N'}[kind]
        if simw is None:
            r.ok(wm, wq, cons, nontrivial=False, note=f"Bits has no operator for ast.{k}; the simulator cannot produce a width")
            continue
        probs = []
        accepted = 0
        for p in ps:
            if p['exc'] is not None:
                continue
            accepted += 1
            node, le, re, wl, wr = p['node'], p['le'], p['re'], p['wl'], p['wr']
            if 'Type' not in node.attrs or not isinstance(node.attrs['Type'], AInst):
                probs.append((p, "gets no Type"))
                continue
            got = w.nwidth(node)
            expl = node.attrs.get('_is_explicit')
            ex = _example(kind, k, le, re, wl, wr) + (' (constant operands)' if p['const'] else '')
            if simw == '1':
                if got.form != {1: 1}:
                    probs.append((p, f"{ex} is typed {got.v} bits, the simulator's value has 1 bit"))
                elif expl is not True:
                    probs.append((p, f"{ex}: a 1-bit comparison result is marked re-sizable"))
                continue
            if kind == 'shift':
                if not le and re:
                    continue        # int << Bits: the simulator has no such operator, no width to compare with
                if not (p['const'] and not le):
                    lf = w.nwidth(p['l']).form
                    if got.form != lf or (le and not _same(got.form, 'wl')):
                        probs.append((p, f"{ex} is typed {got.v} bits, a shift has the width of its left operand ({wl})"))
                    elif expl != le:
                        probs.append((p, f"{ex}: explicitness of a shift must be that of its left operand"))
                    continue
            want_expl = le or re
            if p['const'] and not want_expl:
                # python ints: the simulator computes an int, the width is that of the folded literal
                pyres = PY_BIN[k](LITVAL[wl], LITVAL[wr]) if kind in ('bin', 'shift') else None
                if kind in ('bin', 'shift'):
                    if got.form is not None and {'wl', 'wr'} & set(got.form):
                        probs.append((p, f"{ex}: two literals fold to one literal whose width must be inferred from the "
                                         f"folded value ({pyres} needs {lit_ref(pyres)} bits), the checker assigns {got.v}"))
                    elif got.v != lit_ref(pyres):
                        probs.append((p, f"{ex}: folded value {pyres} needs {lit_ref(pyres)} bits, typed {got.v}"))
                    elif expl is not False:
                        probs.append((p, f"{ex}: the folded literal must stay re-sizable"))
                    continue
            ok_syms = _expected_unified(le, re, wl, wr)
            if not any(_same(got.form, s_) for s_ in ok_syms):
                what = "a width inferred from the folded value" if got.derived_from_value() else f"{got.v} bits ({got.form})"
                probs.append((p, f"{ex} is typed {what}; the simulator's value has the operand width "
                                 f"{max(wl, wr) if not (le and re) else wl}"
                                 f"{' (explicitly sized operands compute modulo 2^n)' if p['const'] and want_expl else ''}"))
            elif expl != want_expl:
                probs.append((p, f"{ex}: result marked {'explicit' if expl else 're-sizable'}, must be "
                                 f"{'explicit' if want_expl else 're-sizable'}"))
        # no vacuous acceptance: equal explicit widths must be accepted
        base = [p for p in ps if p['le'] and p['re'] and p['order'] == 'wl=wr' and not p['const']]
        if not base or any(p['exc'] is not None for p in base):
            probs.append((base[0] if base else ps[0], f"`s.in6 {PY_TOKEN.get(k, k)} s.in6` (equal explicit widths) is not accepted "
                                                      f"({base[0]['exc'] if base else 'no point'})"))
        if probs:
            r.bad(wm, wq, cons, f"{probs[0][1]} ({len(probs)} of {len(ps)} abstract points wrong)", wl_)
        else:
            r.ok(wm, wq, cons, note=f"{accepted} accepted points")

    def check(handler, cons, node, want_form, want_expl=True, args=(), must_raise=False, ck=None, simkey=None, post=None):
        """run one handler on one abstract node and compare the width form / explicitness"""
        wm, wq, wl_ = _where(w, handler)
        if simkey is not None and sim.get(simkey[0]) != simkey[1]:
            r.bad(repo.mod(HELPERS if simkey[0] not in ('slice', 'index') else BITS), simkey[0], cons,
                  f"the simulator's {simkey[0]} no longer yields a value of width `{simkey[1]}` (extracted: {sim.get(simkey[0])}); "
                  f"the checker's table assumes it")
            return
        ck = ck or w.checker()
        exc = w.run(ck, handler, node, *args)
        if must_raise:
            if exc == 'PyMTLTypeError':
                r.ok(wm, wq, cons)
            else:
                r.bad(wm, wq, cons, f"must be rejected with PyMTLTypeError but {'is accepted' if exc is None else 'ends with ' + exc}", wl_)
            return
        if exc is not None:
            r.bad(wm, wq, cons, f"a valid node is {'rejected' if exc == 'PyMTLTypeError' else 'ending with ' + exc}", wl_)
            return
        T = node.attrs.get('Type')
        if not isinstance(T, AInst):
            r.bad(wm, wq, cons, "the node gets no Type", wl_)
            return
        got = w.width(T)
        if callable(want_form):
            msg = want_form(got)
        else:
            msg = None if got.form == want_form else f"typed {got.v} bits (form {got.form}), expected the quantity {want_form}"
        if msg is None and want_expl is not None and node.attrs.get('_is_explicit') != want_expl:
            msg = f"marked {'explicit' if node.attrs.get('_is_explicit') else 're-sizable'}, must be {'explicit' if want_expl else 're-sizable'}"
        if msg is None and post is not None:
            msg = post(node, ck)
        if msg:
            r.bad(wm, wq, cons, msg, wl_)
        else:
            r.ok(wm, wq, cons)

    S = lambda v, name: SymInt(v, sym=name)

    # -- unary operators ----------------------------------------------------------------------------
    for k, b in sorted(opmap.items()):
        if _kind(k) != 'un':
            continue
        for kindo in ('E', 'I'):
            opd = w.operand(kindo, S(5, 'w'))
            check('visit_UnaryOp', f"visit_UnaryOp {k} on {'explicit' if kindo == 'E' else 'implicit'} operand: operand width",
                  w.new(w.bir, 'UnaryOp', w.new(w.bir, b), opd), {'w': 1}, want_expl=(kindo == 'E'))
    # -- helpers -------------------------------------------------------------------------------------
    vals = [w.operand('E', S(3, 'w1')), w.operand('E', S(5, 'w2')), w.operand('Ec', S(2, 'w3'), S(1, 'v3'))]
    check('visit_Concat', "visit_Concat: sum of the operand widths", w.new(w.bir, 'Concat', vals),
          {'w1': 1, 'w2': 1, 'w3': 1}, simkey=('concat', 'sum'))
    for handler, cls, simk, grow in (('visit_ZeroExt', 'ZeroExt', 'zext', True), ('visit_SignExt', 'SignExt', 'sext', True),
                                     ('visit_Truncate', 'Truncate', 'trunc', False)):
        for oname, n, cw in (('n<w', 4, 8), ('n=w', 6, 6), ('n>w', 8, 4)):
            legal = (n >= cw) if grow else (n <= cw)
            node = w.new(w.bir, cls, S(n, 'n'), w.operand('E', S(cw, 'w')))
            check(handler, f"{handler}: target width n, operand width w, {oname}", node, {'n': 1}, must_raise=not legal,
                  simkey=(simk, 'target'))
    for simk, op in (('reduce_and', 'BitAnd'), ('reduce_or', 'BitOr'), ('reduce_xor', 'BitXor')):
        check('visit_Reduce', f"visit_Reduce {simk}: 1 bit", w.new(w.bir, 'Reduce', w.new(w.bir, op), w.operand('E', S(5, 'w'))),
              {1: 1}, simkey=(simk, '1'))
    for oname, n, cw in (('n<w', 4, 8), ('n=w', 6, 6), ('n>w', 8, 4)):
        check('visit_SizeCast', f"visit_SizeCast BitsN(x): target width, {oname}",
              w.new(w.bir, 'SizeCast', S(n, 'n'), w.operand('E', S(cw, 'w'))), {'n': 1})
    lit = w.operand('Ic', S(3, 'w'), S(5, 'v'))
    check('visit_SizeCast', "visit_SizeCast BitsN(literal): target width, value kept", w.new(w.bir, 'SizeCast', S(8, 'n'), lit), {'n': 1},
          post=lambda node, ck: None if form_of(node.attrs.get('_value', 0)) == {'v': 1} else
          "the value of the literal is not propagated to the cast (constant folding / range checks of parents lose it)")

    # -- literals and free integers -----------------------------------------------------------------
    def derived(v):
        def f(got):
            if got.form is not None and set(got.form) - {1} and not got.derived_from_value():
                return f"width {got.v} is not inferred from the value (form {got.form})"
            if got.v != lit_ref(v):
                return f"value {v} needs {lit_ref(v)} bits, typed {got.v}"
            return None
        return f
    for v in (0, 1, 5, 255, 256):
        check('visit_Number', f"visit_Number literal {v}: least width, re-sizable", w.new(w.bir, 'Number', S(v, 'v')),
              derived(v), want_expl=False)
    check('visit_FreeVar', "visit_FreeVar python int 300: least width, re-sizable", w.new(w.bir, 'FreeVar', 'k', S(300, 'v')),
          derived(300), want_expl=False,
          post=lambda node, ck: None if form_of(node.attrs.get('_value', 0)) == {'v': 1} else "the constant's value is not recorded")

    # explicitness of a free variable is decided by the python type of the object, not by whether its value is known
    check('visit_FreeVar', "visit_FreeVar BitsN constant: its own width, explicitly sized (although its value is known)",
          w.new(w.bir, 'FreeVar', 'K', w.bits_obj(S(4, 'wk'), S(9, 'v'))), {'wk': 1}, want_expl=True,
          post=lambda node, ck: None if form_of(node.attrs.get('_value', 0)) == {'v': 1} else "the constant's value is not recorded")
    sc = AInst(w.I.get_class(BIR, 'Base'))
    sc.attrs['_c10_dtype'] = w.new(w.rdt, 'Struct', Opaque('cls'), {'a': w.vec(S(3, 'fa')), 'b': w.vec(S(5, 'fb'))})
    check('visit_FreeVar', "visit_FreeVar bitstruct constant: struct width, explicitly sized (no integer value)",
          w.new(w.bir, 'FreeVar', 'K', sc), {'fa': 1, 'fb': 1}, want_expl=True)

    # -- slices ----------------------------------------------------------------------------------------
    SIZES = (1, 2, 6)      # 6 is not a power of two: the range tests, not the index width, must reject out-of-range bounds
    cls_of = {}
    for n in SIZES:
        for lo in range(-2, n + 2):
            for up in range(-2, n + 3):
                legal = 0 <= lo < up <= n
                key = ('legal' if legal else 'lower<0' if lo < 0 else 'upper<=lower' if up <= lo else 'upper>nbits')
                cls_of.setdefault(key, []).append((n, lo, up))
    wm, wq, wl_ = _where(w, 'visit_Slice')
    if sim.get('slice') != 'diff':
        r.bad(repo.mod(BITS), 'Bits.__getitem__', 'slice width', f"Bits slice read no longer has width stop-start ({sim.get('slice')})")
    for key, lst in sorted(cls_of.items()):
        probs = []
        for n, lo, up in lst:
            ck = w.checker()
            g = ck.attrs['rtlir_getter']

            def num(v, name):
                nd = w.new(w.bir, 'Number', S(v, name))
                nd.attrs['Type'] = g.get_rtlir(S(v, name))
                nd.attrs['_value'] = S(v, name)
                nd.attrs['_is_explicit'] = False
                return nd
            node = w.new(w.bir, 'Slice', w.operand('E', S(n, 'w')), num(lo, 'lo'), num(up, 'up'))
            exc = w.run(ck, 'visit_Slice', node)
            if key == 'legal':
                if exc is not None:
                    probs.append(f"s.in{n}[{lo}:{up}] is {'rejected' if exc == 'PyMTLTypeError' else 'ending with ' + exc}")
                elif w.nwidth(node).form != {'up': 1, 'lo': -1}:
                    probs.append(f"s.in{n}[{lo}:{up}] is typed {w.nwidth(node).v} bits (form {w.nwidth(node).form}), the simulator's "
                                 f"slice has upper-lower = {up - lo} bits")
                elif node.attrs.get('_is_explicit') is not True:
                    probs.append(f"s.in{n}[{lo}:{up}] must be explicitly sized")
            elif exc != 'PyMTLTypeError':
                probs.append(f"s.in{n}[{lo}:{up}] ({key}) is {'accepted' if exc is None else 'ending with ' + exc}; the simulator raises IndexError")
        cons = f"visit_Slice constant bounds: {key}"
        if probs:
            r.bad(wm, wq, cons, f"{probs[0]} ({len(probs)} of {len(lst)} bound pairs wrong)", wl_)
        else:
            r.ok(wm, wq, cons)
    # part select s.x[ base : base + size ]: only when the upper bound is structurally `<lower> + <positive constant>`
    ob, ob2 = Opaque('component'), Opaque('other component')

    def sig(name, base=None):
        nd = w.new(w.bir, 'Attribute', base or ob, name)
        nd.attrs.update(Type=w.new(w.rt, 'Wire', w.vec(S(3, 'wi'))), _is_explicit=True)
        return nd
    ps_cases = (
        ('upper = lower + constant size', sig('a'), sig('a'), 'Add', ('const', 4), True),
        ('upper = lower + constant size (same node object)', None, None, 'Add', ('const', 4), True),
        ('upper = OTHER signal + constant size', sig('a'), sig('b'), 'Add', ('const', 4), False),
        ('upper = same attribute of another object + constant size', sig('a'), sig('a', ob2), 'Add', ('const', 4), False),
        ('upper = lower + non-constant size', sig('a'), sig('a'), 'Add', ('sig', 0), False),
        ('upper = OTHER signal + non-constant size', sig('a'), sig('b'), 'Add', ('sig', 0), False),
        ('upper = lower - constant', sig('a'), sig('a'), 'Sub', ('const', 4), False),
        ('upper = lower + 0', sig('a'), sig('a'), 'Add', ('const', 0), False),
    )
    for txt, lower, left, op, (rk, size), legal in ps_cases:
        if lower is None:
            lower = left = sig('a')
        right = w.operand('Ic', S(3, 'ws'), S(size, 'size')) if rk == 'const' else sig('n')
        upper = w.new(w.bir, 'BinOp', left, w.new(w.bir, op), right)
        upper.attrs.update(Type=w.new(w.rt, 'NetWire', w.vec(S(3, 'wi'))), _is_explicit=True)
        check('visit_Slice', f"visit_Slice part select: {txt}", w.new(w.bir, 'Slice', w.operand('E', S(8, 'w')), lower, upper),
              {'size': 1}, must_raise=not legal, simkey=('slice', 'diff'),
              post=lambda node, ck: None if (form_of(node.attrs.get('size', 0)) == {'size': 1} and node.attrs.get('base') is node.attrs.get('lower'))
              else "the size / base fields the translator emits for `base +: size` are not those of the slice")

    # -- bit index ---------------------------------------------------------------------------------------
    def idx_points(size):
        return sorted({-2, -1, 0, 1, size - 1, size, size + 1})

    def const_index(ck, k):
        g = ck.attrs['rtlir_getter']
        idx = w.new(w.bir, 'Number', S(k, 'k'))
        idx.attrs.update(Type=g.get_rtlir(S(k, 'k')), _value=S(k, 'k'), _is_explicit=False)
        return idx
    wm, wq, wl_ = _where(w, 'visit_Index')
    if sim.get('index') != '1':
        r.bad(repo.mod(BITS), 'Bits.__getitem__', 'index width', "Bits index read no longer has width 1")
    for region in ('in range', 'negative', 'beyond the last element'):
        probs, cnt = [], 0
        for n in SIZES:
            for k in idx_points(n):
                reg = 'negative' if k < 0 else 'in range' if k < n else 'beyond the last element'
                if reg != region:
                    continue
                cnt += 1
                ck = w.checker()
                node = w.new(w.bir, 'Index', w.operand('E', S(n, 'w')), const_index(ck, k))
                exc = w.run(ck, 'visit_Index', node)
                if reg == 'in range':
                    if exc is not None:
                        probs.append(f"s.in{n}[{k}] is {'rejected' if exc == 'PyMTLTypeError' else 'ending with ' + exc}")
                    elif w.nwidth(node).form != {1: 1} or node.attrs.get('_is_explicit') is not True:
                        probs.append(f"s.in{n}[{k}] is typed {w.nwidth(node).v} bits / re-sizable; a bit select is 1 explicit bit")
                elif exc != 'PyMTLTypeError':
                    probs.append(f"s.in{n}[{k}] ({reg}) is {'accepted' if exc is None else 'ending with ' + exc}; the simulator raises IndexError")
        cons = f"visit_Index constant bit select of a vector: index {region}"
        if probs:
            r.bad(wm, wq, cons, f"{probs[0]} ({len(probs)} of {cnt} indices wrong)", wl_)
        else:
            r.ok(wm, wq, cons)
    # arrays (lists of ports / constants): the element type, constant index must lie in 0 .. size-1
    for what in ('port list', 'constant list', 'constant list of BitsN'):
        for region in ('in range', 'negative', 'beyond the last element'):
            probs, cnt = [], 0
            for n in SIZES:
                for k in idx_points(n):
                    reg = 'negative' if k < 0 else 'in range' if k < n else 'beyond the last element'
                    if reg != region:
                        continue
                    cnt += 1
                    ck = w.checker()
                    if what == 'port list':
                        sub = w.new(w.rt, 'Port', 'input', w.vec(S(5, 'we')))
                        arrT = w.new(w.rt, 'Array', [n], sub)
                    elif what == 'constant list':
                        sub = w.new(w.rt, 'Const', w.vec(S(5, 'we'), False), None)
                        arrT = w.new(w.rt, 'Array', [n], sub, [S(10 + i, f'e{i}') for i in range(n)])
                    else:
                        sub = w.new(w.rt, 'Const', w.vec(S(5, 'we')), None)
                        arrT = w.new(w.rt, 'Array', [n], sub, [w.bits_obj(S(5, 'we'), S(10 + i, f'e{i}')) for i in range(n)])
                    arr = w.new(w.bir, 'Attribute', Opaque('base'), 'tap')
                    arr.attrs.update(Type=arrT, _is_explicit=True)
                    node = w.new(w.bir, 'Index', arr, const_index(ck, k))
                    exc = w.run(ck, 'visit_Index', node)
                    ex = f"s.tap[{k}] on a {n}-entry {what}"
                    if reg == 'in range':
                        if exc is not None:
                            probs.append(f"{ex} is {'rejected' if exc == 'PyMTLTypeError' else 'ending with ' + exc}")
                        elif not isinstance(node.attrs.get('Type'), AInst) or w.nwidth(node).form != {'we': 1}:
                            probs.append(f"{ex} is not typed like the list element")
                        elif what != 'port list' and form_of(node.attrs.get('_value', 0)) != {f'e{k}': 1}:
                            probs.append(f"{ex} does not fold to element {k} of the list")
                        elif what != 'port list' and node.attrs.get('_is_explicit') is not (what == 'constant list of BitsN'):
                            probs.append(f"{ex} is marked {'explicitly sized' if node.attrs.get('_is_explicit') else 're-sizable'}: whether an "
                                         f"element may be re-sized is decided by its python type (int: yes, BitsN: no) -- "
                                         f"`s.o16 @= s.lut[0+0]` with a Bits8 element is accepted and zero-extended, simulation raises")
                    elif exc != 'PyMTLTypeError':
                        probs.append(f"{ex} ({reg}) is {'accepted' if exc is None else 'ending with ' + exc}; python wraps a negative index / "
                                     f"raises IndexError, hardware reads an out-of-range element")
            cons = f"visit_Index constant index into a {what}: index {region}"
            if probs:
                r.bad(wm, wq, cons, f"{probs[0]} ({len(probs)} of {cnt} indices wrong)", wl_)
            else:
                r.ok(wm, wq, cons)
    check('visit_Index', "visit_Index variable bit select with an index of the index width",
          w.new(w.bir, 'Index', w.operand('E', S(8, 'w')), w.operand('E', S(3, 'wi'))), {1: 1})

    # -- struct fields -------------------------------------------------------------------------------
    for base_kind in ('Port', 'Wire', 'Const'):
        st = w.new(w.rdt, 'Struct', Opaque('cls'), {'a': w.vec(S(3, 'fa')), 'b': w.vec(S(5, 'fb'))})
        T = w.new(w.rt, 'Port', 'input', st) if base_kind == 'Port' else w.new(w.rt, base_kind, st)
        b = w.new(w.bir, 'Attribute', Opaque('base'), 'sig')
        b.attrs.update(Type=T, _is_explicit=True)
        check('visit_Attribute', f"visit_Attribute field of a struct {base_kind}: field width",
              w.new(w.bir, 'Attribute', b, 'b'), {'fb': 1})
    st = w.new(w.rdt, 'Struct', Opaque('cls'), {'a': w.vec(S(3, 'fa'))})
    b = w.new(w.bir, 'Attribute', Opaque('base'), 'sig')
    b.attrs.update(Type=w.new(w.rt, 'Wire', st), _is_explicit=True)
    check('visit_Attribute', "visit_Attribute unknown struct field", w.new(w.bir, 'Attribute', b, 'zz'), None, must_raise=True)

    # -- loop and temporary variables ----------------------------------------------------------------
    ck = w.checker()
    ck.attrs['loopvar_nbits']['i'] = S(5, 'lw')
    ck.attrs['loopvar_is_explicit']['i'] = False
    check('visit_LoopVar', "visit_LoopVar: width recorded by the enclosing for", w.new(w.bir, 'LoopVar', 'i'), {'lw': 1},
          want_expl=False, ck=ck)
    for kindo in ('E', 'I', 'Ic'):
        ck = w.checker()
        val = w.operand(kindo, S(5, 'wr'), S(17, 'vr'))
        tgt = w.new(w.bir, 'TmpVar', 't', 'blk')
        tgt.attrs.update(Type=w.new(w.rt, 'NoneType'), _is_explicit=True)
        node = w.new(w.bir, 'Assign', [tgt], val, True)
        exc = w.run(ck, '_visit_Assign_single_target', node, tgt, 0)
        wm, wq, wl_ = _where(w, 'visit_TmpVar')
        cons = f"temporary variable assigned from an {'explicit' if kindo == 'E' else 'implicit'} {'literal' if kindo == 'Ic' else 'value'}: width and explicitness of the RHS"
        if exc is not None:
            r.bad(wm, wq, cons, f"creating the temporary ends with {exc}", wl_)
            continue
        use = w.new(w.bir, 'TmpVar', 't', 'blk')
        exc = w.run(ck, 'visit_TmpVar', use)
        if exc is not None or not isinstance(use.attrs.get('Type'), AInst):
            r.bad(wm, wq, cons, f"reading the temporary ends with {exc}", wl_)
        elif w.nwidth(use).form != {'wr': 1} or w.nwidth(tgt).form != {'wr': 1}:
            r.bad(wm, wq, cons, f"the temporary is typed {w.nwidth(use).v} bits, the value assigned to it has 5", wl_)
        elif use.attrs.get('_is_explicit') != (kindo == 'E'):
            r.bad(wm, wq, cons, "the temporary does not inherit whether its value may be re-sized: "
                  + ("a literal held in a temporary becomes explicitly sized" if kindo != 'E' else
                     "an explicitly sized value held in a temporary becomes re-sizable, width mismatches are repaired silently"), wl_)
        else:
            r.ok(wm, wq, cons)
    # for-loop: the loop variable holds every value of the range
    wm, wq, wl_ = _where(w, 'visit_For')
    for (a, b_, c) in ((0, 20, 1), (0, 16, 1), (0, 17, 1), (3, 17, 2), (10, 0, -1), (0, 1, 1), (5, 6, 1)):
        ck = w.checker()
        g = ck.attrs['rtlir_getter']

        def cnum(v):
            nd = w.new(w.bir, 'Number', v)
            nd.attrs.update(Type=g.get_rtlir(v), _value=v, _is_explicit=False)
            return nd
        use = w.new(w.bir, 'LoopVar', 'i')
        node = w.new(w.bir, 'For', w.new(w.bir, 'LoopVarDecl', 'i'), cnum(a), cnum(b_), cnum(c), [use])
        exc = w.run(ck, 'visit_For', node)
        vals_ = list(range(a, b_, c))
        cons = f"visit_For range({a}, {b_}, {c}): loop variable holds {max(vals_)}"
        if exc is not None or not isinstance(use.attrs.get('Type'), AInst):
            r.bad(wm, wq, cons, f"type checking the loop {'ends with ' + str(exc) if exc else 'leaves the loop variable untyped'}", wl_)
        elif w.nwidth(use).v != lit_ref(max(vals_)):
            r.bad(wm, wq, cons, f"the loop variable is typed {w.nwidth(use).v} bits but takes the value {max(vals_)} "
                  f"({lit_ref(max(vals_))} bits)", wl_)
        elif use.attrs.get('_is_explicit') is not False:
            r.bad(wm, wq, cons, "a loop variable over constant bounds must be re-sizable", wl_)
        else:
            r.ok(wm, wq, cons)
    pw = probe_world(repo)
    ppts = _run_pair_points(repo, pw, only=('cmp',))
    if all(p['exc'] is not None or pw.nwidth(p['node']).form == {1: 1} for p in ppts):
        raise AnalysisError("R-C10-widthtable: the embedded comparison typed like its operand is not flagged")
    # constant loop bounds: a negative start / end cannot be reproduced by the unsigned loop the back-ends emit
    wm, wq, wl_ = _where(w, 'visit_For')
    for (a, b_, c), legal in (((0, 4, 1), True), ((3, 0, -1), True), ((0, 0, 1), True), ((3, -1, -1), False), ((3, -2, -1), False),
                              ((-1, 4, 1), False), ((-2, -1, 1), False), ((0, 4, 0), False)):
        ck = w.checker()
        g = ck.attrs['rtlir_getter']

        def cnum2(v):
            nd = w.new(w.bir, 'Number', v)
            nd.attrs.update(Type=g.get_rtlir(v), _value=v, _is_explicit=False)
            return nd
        node = w.new(w.bir, 'For', w.new(w.bir, 'LoopVarDecl', 'i'), cnum2(a), cnum2(b_), cnum2(c), [w.new(w.bir, 'LoopVar', 'i')])
        exc = w.run(ck, 'visit_For', node)
        cons = f"visit_For range({a}, {b_}, {c}): {'accepted' if legal else 'rejected (negative bound / zero step)'}"
        if legal and exc is not None:
            r.bad(wm, wq, cons, f"a loop over non-negative constant bounds is {'rejected' if exc == 'PyMTLTypeError' else 'ending with ' + exc}", wl_)
        elif not legal and exc != 'PyMTLTypeError':
            r.bad(wm, wq, cons, f"range({a}, {b_}, {c}) is {'accepted' if exc is None else 'ending with ' + exc}: the loop variable is an unsigned "
                  f"value, the emitted comparison against a negative bound never / always holds while python iterates {len(range(a, b_, c)) if c else 0} times", wl_)
        else:
            r.ok(wm, wq, cons)
    r.evaluations = w.evals
    r.require_floor(97)
    return r


def rule_sim_accepts(repo):
    """"accepted code never raises a width error in simulation" also depends on the simulator accepting exactly the operands it
    documents: an int operand guard that is too strict (e.g. `other >= up` in __rsub__) makes checker-accepted code such as
    `7 - s.in3` raise.  Shared with C04 (R-C04-guard: every operator's accepted int region is exactly 0..2^n-1)."""
    from rules.c04 import rule_guard
    return rule_guard(repo)


# ---------------------------------------------------------------------------
CACHE_PROBE = """
class G:
  def __init__( self ):
    self._struct_dtype_cache = {}
  def _get_signal_dtype( self, obj ):
    Type = obj._dsl.Type
    key = ( Type.__name__, tuple( Type.__bitstruct_fields__ ) )
    if key not in self._struct_dtype_cache:
      self._struct_dtype_cache[ key ] = get_rtlir_dtype( obj )
    return self._struct_dtype_cache[ key ]
  def _by_class( self, obj ):
    Type = obj._dsl.Type
    if Type not in self._struct_dtype_cache:
      self._struct_dtype_cache[ Type ] = get_rtlir_dtype( obj )
    return self._struct_dtype_cache[ Type ]
"""
TYPE_PRODUCERS = ('get_rtlir_dtype', '_get_rtlir_dtype_struct', 'get_rtlir', '_get_rtlir_uncached', 'handler', 'Struct', 'Vector',
                  'PackedArray', 'Port', 'Wire', 'Const', 'Array', '_get_signal_dtype')


def _memo_stores(mod):
    """(function, container text, key expr, store stmt) for every dict that is both consulted and filled with an RTLIR
    type / data type inside one function of the module (= a memo on the path object -> RTLIR type)"""
    out = []
    for f in ast.walk(mod.tree):
        if not isinstance(f, (ast.FunctionDef, ast.AsyncFunctionDef)):
            continue
        stores = []
        for st in walk_no_nested(f):
            if isinstance(st, ast.Assign):
                for t in st.targets:
                    if isinstance(t, ast.Subscript):
                        stores.append((norm(t.value), t.slice, st))
                    elif isinstance(t, ast.Name) and isinstance(st.value, ast.Assign):
                        pass
        # chained `ret = C[k] = v`
        for cont, key, st in stores:
            consulted = False
            for n in walk_no_nested(f):
                if isinstance(n, ast.Compare) and any(isinstance(o, (ast.In, ast.NotIn)) for o in n.ops) and \
                        any(norm(c) == cont for c in n.comparators):
                    consulted = True
                if isinstance(n, ast.Subscript) and isinstance(n.ctx, ast.Load) and norm(n.value) == cont:
                    consulted = True
                if isinstance(n, ast.Call) and isinstance(n.func, ast.Attribute) and n.func.attr in ('get', 'setdefault') \
                        and norm(n.func.value) == cont:
                    consulted = True
            if not consulted:
                continue
            def is_producer(c):
                nm = norm(c.func).split('.')[-1]
                return nm in TYPE_PRODUCERS or nm.startswith('_handle_')
            produces = any(isinstance(c, ast.Call) and is_producer(c) for c in ast.walk(st.value))
            if not produces and isinstance(st.value, ast.Name):
                from sa.astutil import reaching_value
                rv = reaching_value(st.value.id, st)
                produces = rv is not None and any(isinstance(c, ast.Call) and is_producer(c) for c in ast.walk(rv))
            if produces:
                out.append((f, cont, key, st))
    return out


def _classify_key(key, st, f, depth=0):
    """'identity' (the object / its class object), 'types' (covers every field type), 'names' (only __name__ / field names /
    constants) -- for one element of a memo key"""
    from sa.astutil import reaching_value
    params = {a.arg for a in f.args.args + f.args.kwonlyargs}
    txt = norm(key)
    if isinstance(key, ast.Constant):
        return 'names'
    if isinstance(key, ast.Name):
        if key.id in params:
            return 'identity'
        rv = reaching_value(key.id, st) if depth < 5 else None
        if rv is None:
            raise AnalysisError(f"memo key `{key.id}` in {f.name} cannot be resolved")
        return _classify_key(rv, st, f, depth + 1)
    if isinstance(key, ast.Tuple):
        kinds = [_classify_key(e, st, f, depth + 1) for e in key.elts]
        return 'identity' if 'identity' in kinds else 'types' if 'types' in kinds else 'names'
    if isinstance(key, ast.Call) and norm(key.func) in ('_freeze', 'id') and len(key.args) == 1:
        return 'identity' if _classify_key(key.args[0], st, f, depth + 1) == 'identity' else 'names'
    if isinstance(key, ast.Call) and norm(key.func) == 'type' and len(key.args) == 1:
        return 'identity'
    if isinstance(key, ast.Attribute) and key.attr in ('Type', '__class__', 'cls'):
        return 'identity'
    if '__name__' in txt and not any(x in txt for x in ('.items()', '.values()')) and 'get_full_name' not in txt:
        return 'names'
    if any(x in txt for x in ('.items()', '.values()', 'get_full_name()', 'get_field_str()')):
        return 'types'
    if '__bitstruct_fields__' in txt or '.keys()' in txt or '__qualname__' in txt or '__module__' in txt:
        return 'names'
    raise AnalysisError(f"memo key `{txt}` in {f.name} is outside the recognised key shapes")


def rule_cache(repo):
    r = RuleResult('R-C10-cache', "a memo on the path object -> RTLIR (data) type is keyed by the object / its class object or by a "
                                  "key that covers every field type, never by class name / field names only")
    from sa.loader import Module
    found = 0
    for rel in (RT, RDT):
        m = repo.mod(rel)
        for f, cont, key, st in _memo_stores(m):
            kind = _classify_key(key, st, f)
            q = f.name
            from sa.astutil import qualname
            q = qualname(f)
            cons = f"{cont}[{norm(key)}] = {norm(st.value)[:60]}"
            found += 1
            if kind == 'names':
                shown = norm(key)
                if isinstance(key, ast.Name):
                    from sa.astutil import reaching_value
                    rv = reaching_value(key.id, st)
                    shown = f"{key.id} = {norm(rv)}" if rv is not None else shown
                r.bad(m, q, cons, f"the memo {cont} is keyed by names only ({shown}): two different BitStruct classes with the same "
                      f"class name and field names but other field widths share one entry, the second gets the stale widths "
                      f"(static width differs from the simulator's)", st.lineno)
            else:
                r.ok(m, q, cons, note=f"key kind: {kind}")
    # embedded positive example: the name-keyed memo must be flagged, the class-keyed one must not
    pm = Module(repo, '<c10-cache-probe>', CACHE_PROBE)
    kinds = {f.name: _classify_key(key, st, f) for f, cont, key, st in _memo_stores(pm)}
    if kinds != {'_get_signal_dtype': 'names', '_by_class': 'identity'}:
        raise AnalysisError(f"R-C10-cache: embedded examples classified as {kinds}")
    r.require_floor(2)
    return r


def rule_sim_helpers(repo):
    """the width (and acceptance) the checker assigns to trunc / zext / sext / concat / reduce_* is compared with what the
    simulator's helpers do; those helpers must themselves produce the advertised width and accept every in-range operand
    (a trunc that raises for a wide operand is accepted statically and fails in simulation).  Shared with C05 (R-C05-helpers)."""
    from rules.c05 import rule_helpers
    return rule_helpers(repo)


# ---------------------------------------------------------------------------
def rule_ir_eq(repo):
    r = RuleResult('R-C10-ir-eq', "structural equality of behavioural-RTLIR nodes (used by the part-select rule `lower == upper.left`) "
                                  "compares every constructor field of self with the same field of the other node")
    w = world(repo)
    bm = w.repo.mod(BIR)
    n_cls = 0
    for name, c in sorted(bm.classes.items()):
        init = next((x for x in c.body if isinstance(x, ast.FunctionDef) and x.name == '__init__'), None)
        if init is None or name in ('BaseBehavioralRTLIR', 'BehavioralRTLIRNodeVisitor'):
            continue
        me = init.args.args[0].arg
        fields = [t.attr for st in init.body if isinstance(st, ast.Assign) for t in st.targets
                  if isinstance(t, ast.Attribute) and norm(t.value) == me]
        params = [a.arg for a in init.args.args[1:]]
        if not fields or sorted(fields) != sorted(params):
            raise AnalysisError(f"bir.{name}.__init__ does not store exactly its parameters ({params} vs {fields})")
        n_cls += 1
        cls = w.I.clsval(bm, c)

        def make(changed=None):
            return w.I.call(cls, [[10 * i + (1 if p == changed else 0)] for i, p in enumerate(params)])
        probs = []
        try:
            w.evals += 1
            if not w.I.truth(w.I.eq(make(), make())):
                probs.append("two nodes with equal fields compare unequal")
            for p_ in params:
                w.evals += 1
                if w.I.truth(w.I.eq(make(), make(p_))) or not w.I.truth(w.I.ne(make(), make(p_))):
                    probs.append(f"nodes that differ only in field `{p_}` compare equal")
            other = w.new(w.bir, 'Number' if name != 'Number' else 'Base', [0])
            if w.I.truth(w.I.eq(make(), other)):
                probs.append("a node compares equal to a node of another class")
        except Raised as e:
            probs.append(f"__eq__ ends with {e.what}")
        cons = f"bir.{name}.__eq__ over fields {params}"
        eqf = w.I.find_method(cls, '__eq__')
        if probs:
            r.bad(bm, f"{name}.__eq__", cons, f"{probs[0]}: e.g. the part-select rule takes s.x[a[0] : a[1]+4] for s.x[base : base+4] "
                  f"when `lower == upper.left` holds for different expressions", eqf.node.lineno if eqf else c.lineno)
        else:
            r.ok(bm, f"{name}.__eq__", cons)
    w.sync()
    r.evaluations = w.evals
    r.require_floor(25)
    return r


def rule_slice_step(repo):
    r = RuleResult('R-C10-slicestep', "every branch (and python-version sibling) of the generator that builds a bir.Slice from a "
                                      "(lower, upper[, step]) source rejects a step first")
    from sa.astutil import guards_of, reaching_value, qualname, preceding_stmts, walk_no_nested as wnn
    n = 0
    for rel in GEN:
        m = repo.mod(rel)
        for f in ast.walk(m.tree):
            if not isinstance(f, ast.FunctionDef):
                continue
            for c in wnn(f):
                if not (isinstance(c, ast.Call) and norm(c.func) == 'bir.Slice'):
                    continue
                n += 1
                # where do lower / upper come from?
                srcs = set()
                for a in c.args[1:3]:
                    for x in ast.walk(a):
                        if isinstance(x, ast.Name):
                            val = x.id
                            for st_ in preceding_stmts(c):
                                if isinstance(st_, ast.Assign) and any(isinstance(y, ast.Name) and y.id == x.id
                                                                       for t_ in st_.targets for y in ast.walk(t_)):
                                    val = norm(st_.value)
                            srcs.add(val)
                        elif isinstance(x, ast.Attribute):
                            srcs.add(norm(x))
                stext = ' '.join(sorted(srcs))
                ok = False
                for g in guards_of(c):
                    t = g.test
                    if g.kind not in ('exit', 'assert') or not isinstance(t, (ast.Compare, ast.Attribute)):
                        continue
                    step = t.left if isinstance(t, ast.Compare) else t
                    if not (isinstance(step, ast.Attribute) and step.attr == 'step'):
                        continue
                    owner = norm(step.value)
                    rvo = reaching_value(owner, c) if isinstance(step.value, ast.Name) else None
                    related = owner in stext or (rvo is not None and norm(rvo) in stext)
                    if isinstance(t, ast.Compare) and len(t.ops) == 1 and norm(t.comparators[0]) == 'None':
                        rejects_step = (isinstance(t.ops[0], ast.IsNot) and g.polarity is False) or \
                                       (isinstance(t.ops[0], ast.Is) and g.polarity is True) or \
                                       (isinstance(t.ops[0], ast.NotEq) and g.polarity is False) or \
                                       (isinstance(t.ops[0], ast.Eq) and g.polarity is True)
                    else:
                        rejects_step = False
                    raises = g.kind == 'assert' or any(isinstance(x, ast.Raise) for b in g.exit_block for x in ast.walk(b))
                    if related and rejects_step and raises:
                        ok = True
                cons = f"{norm(c)[:70]}"
                q = qualname(f)
                if ok:
                    r.ok(m, q, cons)
                else:
                    r.bad(m, q, cons, "this branch builds a slice node without first rejecting a slice step: "
                          "`s.in_[sl]` with sl = slice(0, 8, 2) is translated / typed as in_[0:8] (8 bits) while the simulator "
                          "raises / selects every second bit; the sibling branches reject it", c.lineno)
    r.require_floor(4)
    return r


def rule_constcache_dep(repo):
    """constants the type checker folds (node._value, widths of s.W-style parameters) come from ConstantExtractor's memo keyed by
    AST node; the AST of a block is shared by all instances of a component class, so the memo must live in the extractor instance
    created per block.  Shared with C03 (R-tr-constcache)."""
    from rules.c03 import BACKEND
    from sa import tr_util
    return tr_util.rule_constcache(repo, BACKEND)


# ---------------------------------------------------------------------------
def rule_dtype(repo):
    """two results: widths of the rdt data types, element type of constant lists"""
    w = world(repo)
    S = lambda v, name: SymInt(v, sym=name)
    r = RuleResult('R-C10-dtype-length', "get_length of every RTLIR data type is the simulator's nbits of the same shape: Vector n, "
                                         "PackedArray prod(dims)*element, Struct sum(fields), Bool 1")
    m = w.repo.mod(RDT)

    def length(dt):
        w.evals += 1
        try:
            return SymInt.of(w.I.call(w.I.getattr(dt, 'get_length')))
        except Raised as e:
            return e.what
    def judge(q, cons, dt, want, shape):
        got = length(dt)
        if isinstance(got, SymInt) and got.form == want:
            r.ok(m, q, cons)
        else:
            r.bad(m, q, cons, f"{shape}: get_length gives {got.v if isinstance(got, SymInt) else 'exception ' + str(got)} "
                  f"(form {getattr(got, 'form', None)}), the simulator's value has the width {want}: every width the checker derives "
                  f"for such a signal / field differs from the simulated width")
    for n in (1, 7, 32):
        judge('Vector.get_length', f"Vector of n = {n} bits", w.vec(S(n, 'n')), {'n': 1}, f"Bits{n}")
    judge('Bool.get_length', "Bool", w.new(w.rdt, 'Bool'), {1: 1}, "comparison result")
    for dims in ((3,), (2, 2), (2, 3), (3, 2, 2), (1, 5)):
        prod = 1
        for d in dims:
            prod *= d
        judge('PackedArray.get_length', f"PackedArray{list(dims)} of w-bit vectors", w.new(w.rdt, 'PackedArray', list(dims), w.vec(S(4, 'w'))),
              {'w': prod}, f"a field [[Bits4]*...] of shape {dims} has {prod} elements")
    inner = w.new(w.rdt, 'Struct', w.I.get_class(BIR, 'Number'), {'p': w.vec(S(3, 'fp')), 'q': w.vec(S(5, 'fq'))})
    st = w.new(w.rdt, 'Struct', w.I.get_class(BIR, 'Base'),
               {'a': w.vec(S(8, 'fa')), 'arr': w.new(w.rdt, 'PackedArray', [2, 3], w.vec(S(4, 'w'))), 'in_': inner, 'b': w.vec(S(1, 'fb'))})
    judge('Struct.get_length', "Struct {vector, PackedArray[2,3], nested struct, vector}", st,
          {'fa': 1, 'w': 6, 'fp': 1, 'fq': 1, 'fb': 1}, "bitstruct with an array field and a nested struct")
    r.evaluations = w.evals
    r.require_floor(10)

    r2 = RuleResult('R-C10-arraytype', "a constant list is typed with an element type that holds every element (or is rejected): "
                                       "RTLIRGetter._handle_Array never types [1, 300] by its first element")
    gm = w.repo.mod(RT)
    gcls = w.I.get_class(RT, 'RTLIRGetter')
    cases = (('[1, 300]', lambda: [S(1, 'e0'), S(300, 'e1')]), ('[300, 1]', lambda: [S(300, 'e0'), S(1, 'e1')]),
             ('[3, 3]', lambda: [S(3, 'e0'), S(3, 'e1')]), ('[5, 7, 4]', lambda: [S(5, 'e0'), S(7, 'e1'), S(4, 'e2')]),
             ('[1, 2, 300, 7]', lambda: [S(1, 'e0'), S(2, 'e1'), S(300, 'e2'), S(7, 'e3')]),
             ('[1, 1, 300]', lambda: [S(1, 'e0'), S(1, 'e1'), S(300, 'e2')]),
             ('[3, 2, 3, 300]', lambda: [S(3, 'e0'), S(2, 'e1'), S(3, 'e2'), S(300, 'e3')]),
             ('[Bits8(1), Bits8(2)]', lambda: [w.bits_obj(S(8, 'wb'), 1), w.bits_obj(S(8, 'wb'), 2)]),
             ('[Bits8(1), 5]', lambda: [w.bits_obj(S(8, 'wb'), 1), S(5, 'e1')]),
             ('[5, Bits8(1)]', lambda: [S(5, 'e0'), w.bits_obj(S(8, 'wb'), 1)]),
             ('[Bits8(1), Bits4(1)]', lambda: [w.bits_obj(S(8, 'wb'), 1), w.bits_obj(S(4, 'wc'), 1)]))
    for cached in (True, False):
        for txt, mk in cases:
            lst = mk()
            cons = f"get_rtlir({txt}) [{'cached' if cached else 'uncached'} getter]"
            try:
                w.evals += 1
                g = w.I.call(gcls, [], {'cache': cached})
                T = w.I.call(w.I.getattr(g, 'get_rtlir'), [lst])
            except Raised as e:
                if e.what in ('RTLIRConversionError',):
                    uniform = len({(type(x).__name__, lit_ref(x.v) if isinstance(x, SymInt) else x.attrs['_nbits'].v) for x in lst}) == 1
                    if uniform:
                        r2.bad(gm, 'RTLIRGetter._handle_Array', cons, f"a list of elements of one type is rejected ({e.what})")
                    else:
                        r2.ok(gm, 'RTLIRGetter._handle_Array', cons, note="rejected")
                else:
                    r2.bad(gm, 'RTLIRGetter._handle_Array', cons, f"ends with {e.what}")
                continue
            if not isinstance(T, AInst) or T.cls.name != 'Array':
                r2.bad(gm, 'RTLIRGetter._handle_Array', cons, f"does not yield an Array type ({T!r})")
                continue
            sub = w.I.call(w.I.getattr(T, 'get_sub_type'))
            ew = w.width(sub).v
            need = max(lit_ref(x.v) if isinstance(x, SymInt) else x.attrs['_nbits'].v for x in lst)
            kinds = {isinstance(x, SymInt) for x in lst}
            if ew < need:
                r2.bad(gm, 'RTLIRGetter._handle_Array', cons, f"the list is typed with {ew}-bit elements but one element needs {need} bits: "
                       f"`s.LUT[s.sel]` is typed {ew} bit(s), the simulator yields values up to {need} bits")
            elif len(kinds) > 1:
                r2.bad(gm, 'RTLIRGetter._handle_Array', cons, "a list mixing python ints and Bits objects gets one element type: "
                       "explicitness of the elements is lost")
            else:
                r2.ok(gm, 'RTLIRGetter._handle_Array', cons, note=f"{ew}-bit elements")
    # lists of components: typed by element 0, so every element must expose the same ports WITH the same port types
    ccls = w.I.get_class(RT, 'Component')

    def comp(width, names=('in_', 'out'), extra=None):
        c = AInst(ccls)
        props = {names[0]: w.new(w.rt, 'Port', 'input', w.vec(width)), names[1]: w.new(w.rt, 'Port', 'output', w.vec(width))}
        if extra:
            props[extra] = w.new(w.rt, 'Wire', w.vec(3))
        c.attrs.update(name='Lane', params=[], properties=props, unpacked=False, obj=None)
        return c
    sa_cls = w.I.get_class(BIR, 'Base')

    def sport(wa, wb):
        return w.new(w.rt, 'Port', 'input', w.new(w.rdt, 'Struct', sa_cls, {'a': w.vec(wa), 'b': w.vec(wb)}))
    ccases = (('[InPort(A(a:3,b:5)), InPort(A(a:3,b:5))]', lambda: [sport(3, 5), sport(3, 5)], True),
              ('[InPort(A(a:3,b:5)), InPort(A(a:4,b:4))] (same class name, other field widths)', lambda: [sport(3, 5), sport(4, 4)], False),
              ('[Lane(8), Lane(8)]', lambda: [comp(8), comp(8)], True),
              ('[Lane(8), Lane(8) with another internal wire]', lambda: [comp(8), comp(8, extra='tmp')], True),
              ('[Lane(8), Lane(4), Lane(8)]', lambda: [comp(8), comp(4), comp(8)], False),
              ('[Lane(4), Lane(8)]', lambda: [comp(4), comp(8)], False),
              ('[Lane(8), Lane(8) with renamed ports]', lambda: [comp(8), comp(8, names=('a', 'b'))], False))
    for txt, mk, same in ccases:
        types = mk()
        objs = [Opaque(f'component{i}') for i in range(len(types))]
        table = {id(o): t for o, t in zip(objs, types)}
        g = w.I.call(gcls, [], {'cache': False})
        g.attrs['get_rtlir'] = lambda o, table=table: table[id(o)]
        cons = f"get_rtlir({txt})"
        w.evals += 1
        try:
            T = w.I.call(w.I.getattr(g, '_handle_Array'), ['lanes', objs])
            exc = None
        except Raised as e:
            T, exc = None, e.what
        if same and exc is not None:
            r2.bad(gm, 'RTLIRGetter._handle_Array', cons, f"a list of components with identical ports is rejected ({exc})")
        elif not same and exc is None:
            r2.bad(gm, 'Component._has_same_interface' if 'Lane' in txt else 'RTLIRGetter._handle_Array', cons,
                   "a list whose elements differ (port width / port name / struct field widths) is typed by its "
                   "first element: `s.lanes[1].out` gets the width of element 0, the simulator's value has another width")
        elif not same and exc not in ('AssertionError', 'RTLIRConversionError'):
            r2.bad(gm, 'RTLIRGetter._handle_Array', cons, f"ends with {exc}")
        else:
            r2.ok(gm, 'RTLIRGetter._handle_Array' if same else 'Component._has_same_interface', cons)
    r2.evaluations = w.evals
    r2.require_floor(29)

    r3 = RuleResult('R-C10-nextdim', "indexing a packed-array signal peels exactly one dimension, for Port / Wire / NetWire / Const alike: "
                                     "after k indices the remaining dims, after all indices the element")
    for kind in ('Port', 'Wire', 'NetWire', 'Const'):
        for dims in ((3,), (2, 3), (2, 3, 2)):
            dt = w.new(w.rdt, 'PackedArray', list(dims), w.vec(S(4, 'w')))
            T = w.new(w.rt, 'Port', 'input', dt) if kind == 'Port' else w.new(w.rt, kind, dt)
            cons = f"{kind}.get_next_dim_type on PackedArray{list(dims)}"
            prob = None
            rest = list(dims)
            try:
                while rest:
                    w.evals += 1
                    T = w.I.call(w.I.getattr(T, 'get_next_dim_type'))
                    rest = rest[1:]
                    n = 1
                    for d in rest:
                        n *= d
                    if not isinstance(T, AInst) or T.cls.name != kind:
                        prob = f"after {len(dims) - len(rest)} index(es) the type is {T!r}, not a {kind}"
                        break
                    got = w.width(T)
                    dtn = w.I.call(w.I.getattr(T, 'get_dtype')).cls.name
                    if got.form != {'w': n} or dtn != ('PackedArray' if rest else 'Vector'):
                        prob = (f"after {len(dims) - len(rest)} index(es) into a {list(dims)} array of 4-bit elements the type is a {dtn} of "
                                f"{got.v} bits, expected {'the ' + str(rest) + ' sub-array' if rest else 'the element'} ({4 * n} bits): "
                                f"`s.w.arr[1]{'[2]' if len(dims) > 1 else ''}` is typed with the wrong width")
                        break
            except Raised as e:
                prob = f"ends with {e.what}"
            if prob:
                r3.bad(gm, f"{kind}.get_next_dim_type", cons, prob)
            else:
                r3.ok(gm, f"{kind}.get_next_dim_type", cons)
    # through the checker: s.sig[1] on a packed-array wire
    for kind in ('Port', 'Wire'):
        ck = w.checker()
        gt = ck.attrs['rtlir_getter']
        dt = w.new(w.rdt, 'PackedArray', [2, 3], w.vec(S(4, 'w')))
        base = w.new(w.bir, 'Attribute', Opaque('base'), 'arr')
        base.attrs.update(Type=(w.new(w.rt, 'Port', 'input', dt) if kind == 'Port' else w.new(w.rt, kind, dt)), _is_explicit=True)
        idx = w.new(w.bir, 'Number', S(1, 'k'))
        idx.attrs.update(Type=gt.get_rtlir(S(1, 'k')), _value=S(1, 'k'), _is_explicit=False)
        node = w.new(w.bir, 'Index', base, idx)
        exc = w.run(ck, 'visit_Index', node)
        cons = f"visit_Index s.arr[1] on a {kind} of PackedArray[2, 3]"
        wm, wq, wl_ = _where(w, 'visit_Index')
        if exc is not None or not isinstance(node.attrs.get('Type'), AInst):
            r3.bad(wm, wq, cons, f"ends with {exc}", wl_)
        elif w.nwidth(node).form != {'w': 3}:
            r3.bad(wm, wq, cons, f"typed {w.nwidth(node).v} bits, the row has 3 elements of 4 bits", wl_)
        else:
            r3.ok(wm, wq, cons)
    w.sync()
    r3.evaluations = w.evals
    r3.require_floor(14)
    return [r, r2, r3]


# ---------------------------------------------------------------------------
BLOCK_ATTRS = ('__closure__', '__code__', '__globals__')
BLOCKSTATE_PROBE = """
class V:
  def __init__( s ):
    s.closure = {}
  def enter( s, blk ):
    s.globals = blk.__globals__
    for i, var in enumerate( blk.__code__.co_freevars ):
      s.closure[ var ] = blk.__closure__[ i ].cell_contents
class W:
  def enter( s, blk ):
    s.closure = {}
    for i, var in enumerate( blk.__code__.co_freevars ):
      s.closure[ var ] = blk.__closure__[ i ].cell_contents
"""


def _blockstate_fills(mod):
    """(class, function, attribute, fill stmt, fresh?) for every table of the visitor that is filled in place inside a function
    that reads the update block's namespaces (blk.__closure__ / __code__ / __globals__)"""
    from sa.astutil import preceding_stmts
    out = []
    for c in mod.classes.values():
        for f in mod._defs_in(c.body):
            if not isinstance(f, ast.FunctionDef) or not f.args.args:
                continue
            me = f.args.args[0].arg
            if not any(isinstance(n, ast.Attribute) and n.attr in BLOCK_ATTRS for n in walk_no_nested(f)):
                continue
            seen = set()
            for n in walk_no_nested(f):
                attr = None
                if isinstance(n, (ast.Assign, ast.AugAssign)):
                    for t in (n.targets if isinstance(n, ast.Assign) else [n.target]):
                        if isinstance(t, ast.Subscript) and isinstance(t.value, ast.Attribute) and norm(t.value.value) == me:
                            attr = t.value.attr
                elif isinstance(n, ast.Expr) and isinstance(n.value, ast.Call) and isinstance(n.value.func, ast.Attribute) \
                        and n.value.func.attr in ('update', 'add', 'append', 'setdefault', 'extend') \
                        and isinstance(n.value.func.value, ast.Attribute) and norm(n.value.func.value.value) == me:
                    attr = n.value.func.value.attr
                if attr is None or attr in seen:
                    continue
                seen.add(attr)
                fresh = False
                for st in preceding_stmts(n):
                    if isinstance(st, ast.Assign) and any(isinstance(t, ast.Attribute) and norm(t.value) == me and t.attr == attr
                                                          for t in st.targets):
                        # fresh = built without looking at the visitor itself (no s.closure, no getattr(s, ...), no vars(s))
                        fresh = not any(isinstance(x, ast.Name) and x.id == me for x in ast.walk(st.value))
                out.append((c, f, attr, n, fresh))
    return out


def rule_blockstate(repo):
    r = RuleResult('R-C10-blockstate', "the name tables a visitor fills from an update block (closure variables ...) are created anew in "
                                       "the same per-block entry that fills them, never once per visitor")
    from sa.loader import Module
    for rel in GEN + [TC1, TC2, TC3, BEH + 'BehavioralRTLIRTypeCheckL4Pass.py', BEH + 'BehavioralRTLIRTypeCheckL5Pass.py']:
        m = repo.mod(rel)
        for c, f, attr, n, fresh in _blockstate_fills(m):
            me = f.args.args[0].arg
            cons = f"{me}.{attr} filled in {c.name}.{f.name}"
            if fresh:
                r.ok(m, f"{c.name}.{f.name}", cons)
            else:
                r.bad(m, f"{c.name}.{f.name}", cons, f"{me}.{attr} is filled from the block being entered but not re-created there: entries of "
                      f"an earlier update block of the same component stay visible (a closure variable MASK of block 1 shadows the "
                      f"module global MASK in block 2, so its value and inferred width are taken from the wrong object)", n.lineno)
    pm = Module(repo, '<c10-blockstate-probe>', BLOCKSTATE_PROBE)
    got = {(c.name, attr): fresh for c, f, attr, n, fresh in _blockstate_fills(pm)}
    if got != {('V', 'closure'): False, ('W', 'closure'): True}:
        raise AnalysisError(f"R-C10-blockstate: embedded examples classified as {got}")
    r.require_floor(2)
    return r


# ---------------------------------------------------------------------------
def rule_constfold(repo):
    r = RuleResult('R-C10-constfold', "the generator folds a constant subscript `value[idx]` whenever both parts are constants -- also "
                                      "for index 0 / key '' (test `is not None`, not truthiness); the version siblings agree")
    from sa.astutil import guards_of
    m = repo.mod(GEN[0])
    meths = m.methods('ConstantExtractor')
    n = 0
    for name, f in sorted(meths.items()):
        for st in walk_no_nested(f):
            if not (isinstance(st, ast.Assign) and isinstance(st.value, ast.Subscript) and isinstance(st.value.value, ast.Name)
                    and isinstance(st.value.slice, ast.Name)):
                continue
            vn, xn = st.value.value.id, st.value.slice.id
            gs = [g for g in guards_of(st) if g.kind == 'if' and {vn, xn} & {x.id for x in ast.walk(g.test) if isinstance(x, ast.Name)}]
            n += 1
            cons = f"{name}: {norm(st)} under {' and '.join(('' if g.polarity else 'not ') + '(' + norm(g.test) + ')' for g in gs) or 'no guard'}"
            wrong = []
            for v in (None, [5, 6], (7,), {'': 1, 0: 2}, 'ab'):
                for i in (None, 0, 1, '', False):
                    r.evaluations += 1
                    taken = all(bool(Evaluator({vn: v, xn: i}).ev(g.test)) == g.polarity for g in gs)
                    if taken != (v is not None and i is not None):
                        wrong.append((v, i, taken))
            if wrong:
                v, i, taken = wrong[0]
                r.bad(m, f"ConstantExtractor.{name}", cons, f"for value {v!r} and index {i!r} the subscript is "
                      f"{'evaluated' if taken else 'NOT folded'} ({len(wrong)} of 25 combinations wrong): `s.lut[0]` is not turned into "
                      f"the explicitly sized constant BitsN(...) but left to the checker's array-index path", st.lineno)
            else:
                r.ok(m, f"ConstantExtractor.{name}", cons)
    r.require_floor(2)
    return r


# ---------------------------------------------------------------------------
def rule_namescope(repo):
    r = RuleResult('R-C10-namescope', "the RTLIR generator resolves a bare name like python scoping at the use site: the open loop "
                                      "variable first, then a known temporary; an unknown name may only be stored to; the loop variable "
                                      "is visible exactly while the loop body is visited")
    w = world(repo)
    gm = w.repo.mod(BEH + 'BehavioralRTLIRGenL5Pass.py')
    pcls = w.I.clsval(gm, gm.get_class('BehavioralRTLIRGenL5Pass'))
    gv = w.I.find_method(pcls, 'get_rtlir_generator_class')
    if gv is None:
        raise AnalysisError("anchor vanished: get_rtlir_generator_class")
    gen = w.I.call_function(gv, [Opaque('pass')], {})
    if not isinstance(gen, ClsVal):
        raise AnalysisError("get_rtlir_generator_class does not return a class")

    def generator(loop, tmp, glob=None):
        g = AInst(gen)
        g.attrs.update(closure={}, globals=dict(glob or {}), loop_var_env=set(loop), tmp_var_env=set(tmp), _upblk_name='blk',
                       blk=Opaque('blk'), component=Opaque('component'))
        return g

    def where(meth):
        f = w.I.find_method(gen, meth)
        if f is None:
            raise AnalysisError(f"anchor vanished: generator {meth}")
        return f.mod, f"{f.defcls.name}.{meth}", f.node.lineno
    wm, wq, wl_ = where('visit_Name')
    for sit, loop, tmp in (('the open loop variable only', {'i'}, set()), ('a known temporary only', set(), {'i'}),
                           ('both a temporary (assigned earlier) and the open loop variable', {'i'}, {'i'}), ('neither', set(), set())):
        for ctx, ctxn in ((ast.Load(), 'load'), (ast.Store(), 'store')):
            g = generator(loop, tmp)
            node = ast.Name(id='i', ctx=ctx)
            w.evals += 1
            try:
                ret = w.I.call(w.I.getattr(g, 'visit_Name'), [node])
                got = ret.cls.name if isinstance(ret, AInst) else repr(ret)
            except Raised as e:
                got = 'raises ' + e.what
            want = 'LoopVar' if loop else 'TmpVar' if tmp else ('raises PyMTLSyntaxError' if ctxn == 'load' else 'TmpVar')
            cons = f"visit_Name: name is {sit} ({ctxn})"
            if got != want:
                r.bad(wm, wq, cons, f"the name becomes {got}, expected {want}: `i = s.sel` (2 bits) followed by `for i in range(16): s.idx @= i` "
                      f"types the loop index as the 2-bit temporary, the block is accepted and simulation raises at i = 4", wl_)
            elif not loop and not tmp and ctxn == 'store' and 'i' not in g.attrs['tmp_var_env']:
                r.bad(wm, wq, cons, "a newly created temporary is not registered: its next use is rejected as 'used before assignment'", wl_)
            else:
                r.ok(wm, wq, cons)
    # a module-level constant is not a temporary
    g = generator(set(), {'K'}, glob={'K': SymInt(5, sym='k')})
    w.evals += 1
    try:
        ret = w.I.call(w.I.getattr(g, 'visit_Name'), [ast.Name(id='K', ctx=ast.Load())])
        got = ret.cls.name if isinstance(ret, AInst) else repr(ret)
    except Raised as e:
        got = 'raises ' + e.what
    (r.ok if got == 'FreeVar' else r.bad)(wm, wq, "visit_Name: name is a module global", *([] if got == 'FreeVar' else
                                          [f"a global constant becomes {got}, expected FreeVar (its value and width come from the object)", wl_]))
    # visit_For: the loop variable is in scope exactly while the body is visited
    fm, fq_, fl_ = where('visit_For')
    tree = ast.parse("for i in range( 4 ):\n  s.out @= i\n  s.out2 @= i\n").body[0]
    g = generator(set(), set())
    seen = []
    g.attrs['visit'] = lambda n, g=g: seen.append((type(n).__name__, 'i' in g.attrs['loop_var_env'])) or Opaque('bir')
    w.evals += 1
    try:
        ret = w.I.call(w.I.getattr(g, 'visit_For'), [tree])
        body_vis = [v for k, v in seen if k == 'AugAssign']
        prob = None
        if not isinstance(ret, AInst) or ret.cls.name != 'For':
            prob = f"does not build a bir.For ({ret!r})"
        elif len(body_vis) != 2 or not all(body_vis):
            prob = "the loop variable is not registered while the loop body is translated: `i` in the body is taken for a temporary / unknown name"
        elif 'i' in g.attrs['loop_var_env']:
            prob = "the loop variable stays registered after the loop: a later temporary `i` is typed as the (finished) loop index"
    except Raised as e:
        prob = f"ends with {e.what}"
    (r.bad if prob else r.ok)(fm, fq_, "visit_For: loop variable registered exactly during the body", *([prob, fl_] if prob else []))
    w.sync()
    r.evaluations = w.evals
    r.require_floor(10)
    return r


# ---------------------------------------------------------------------------
class _NoConst(NativeModel):
    def enter(self, node):
        return None


def rule_slicepair(repo):
    r = RuleResult('R-C10-slicepair', "every path of the generator that builds a bir.Slice (literal lo:hi, static slice object; both python-"
                                      "version siblings) hands (lower, upper) = (start, stop) to it -- the pair the checker's visit_Slice "
                                      "reads: the selection is typed stop - start bits")
    from sa.astutil import reaching_value, subst
    w = world(repo)
    S = lambda v, name: SymInt(v, sym=name)
    gm = w.repo.mod(BEH + 'BehavioralRTLIRGenL5Pass.py')
    gv = w.I.find_method(w.I.clsval(gm, gm.get_class('BehavioralRTLIRGenL5Pass')), 'get_rtlir_generator_class')
    if gv is None:
        raise AnalysisError("anchor vanished: get_rtlir_generator_class")
    gen = w.I.call_function(gv, [Opaque('pass')], {})
    LO, HI, N = 2, 7, 8

    def run(meth, src):
        g = AInst(gen)
        g.attrs.update(closure={}, globals={}, blk=Opaque('blk'), component=Opaque('component'), const_extractor=_NoConst(),
                       _upblk_name='blk', loop_var_env=set(), tmp_var_env=set())

        def visit(n):
            if isinstance(n, ast.Slice):
                return w.I.call(w.I.getattr(g, 'visit_Slice'), [n])
            if isinstance(n, ast.Constant):
                return w.new(w.bir, 'Number', S(n.value, 'lo' if n.value == LO else 'hi'))
            if isinstance(n, ast.Name) and n.id == 'sl':
                return w.new(w.bir, 'FreeVar', 'sl', slice(S(LO, 'lo'), S(HI, 'hi')))
            if isinstance(n, ast.Attribute):
                return w.operand('E', S(N, 'w'))
            raise AnalysisError(f"slice probe: unexpected node {type(n).__name__}")
        g.attrs['visit'] = visit
        node = ast.parse(src, mode='eval').body
        w.evals += 1
        return w.I.call(w.I.getattr(g, meth), [node])
    meths = [n for n in ('_visit_Subscript_starting_py39', '_visit_Subscript_up_to_py38') if w.I.find_method(gen, n) is not None]
    if len(meths) < 1:
        raise AnalysisError("anchor vanished: generator _visit_Subscript_*")
    for meth in meths:
        f = w.I.find_method(gen, meth)
        for path, src in (('literal slice s.in_[lo:hi]', f"s.in_[{LO}:{HI}]"), ('static slice object s.in_[sl]', "s.in_[sl]")):
            if meth.endswith('py38') and 'object' in path:
                continue        # needs ast.Index nodes, which python >= 3.9 no longer creates: covered by the sibling comparison below
            cons = f"{meth}: {path}"
            try:
                ret = run(meth, src)
            except Raised as e:
                r.bad(f.mod, f"{f.defcls.name}.{meth}", cons, f"translating the subscript ends with {e.what}", f.node.lineno)
                continue
            prob = None
            if not isinstance(ret, AInst) or ret.cls.name != 'Slice':
                prob = f"does not build a bir.Slice ({ret!r})"
            else:
                lo, up = ret.attrs.get('lower'), ret.attrs.get('upper')
                vals = [form_of(x.attrs.get('value')) if isinstance(x, AInst) and x.cls.name == 'Number' else None for x in (lo, up)]
                if vals != [{'lo': 1}, {'hi': 1}]:
                    prob = (f"bir.Slice gets (lower, upper) = ({vals[0]}, {vals[1]}) instead of (start, stop): the checker's visit_Slice reads "
                            f"the pair as (lower, upper), so s.in_[{LO}:{HI}] is typed {HI - 2 * LO if vals[1] == {'hi': 1, 'lo': -1} else '?'} "
                            f"bits while the simulator selects {HI - LO} bits")
                else:
                    ck = w.checker()
                    for x in (lo, up):
                        w.run(ck, 'visit_Number', x)
                    exc = w.run(ck, 'visit_Slice', ret)
                    if exc is not None or w.nwidth(ret).form != {'hi': 1, 'lo': -1}:
                        prob = f"the checker types the produced slice {exc or w.nwidth(ret).form}, the simulator's value has stop - start bits"
            if prob:
                r.bad(f.mod, f"{f.defcls.name}.{meth}", cons, prob, f.node.lineno)
            else:
                r.ok(f.mod, f"{f.defcls.name}.{meth}", cons)
    # version siblings build their slices from the same pairs
    if len(meths) == 2:
        sig = {}
        for meth in meths:
            f = w.I.find_method(gen, meth)
            calls = []
            for c in walk_no_nested(f.node):
                if isinstance(c, ast.Call) and norm(c.func) == 'bir.Slice':
                    args = []
                    for a in c.args:
                        for _ in range(3):
                            mp = {x.id: reaching_value(x.id, c) for x in ast.walk(a) if isinstance(x, ast.Name)}
                            mp = {k: v for k, v in mp.items() if v is not None and not isinstance(v, ast.Call) or
                                  (v is not None and isinstance(v, ast.Call) and norm(v.func) == 'bir.Number')}
                            if not mp:
                                break
                            a = subst(a, mp)
                        args.append(norm(a))
                    calls.append(tuple(args))
            sig[meth] = sorted(calls)
        f = w.I.find_method(gen, meths[0])
        cons = "version siblings build bir.Slice from the same (value, lower, upper) expressions"
        if sig[meths[0]] == sig[meths[1]]:
            r.ok(f.mod, f.defcls.name, cons)
        else:
            r.bad(f.mod, f.defcls.name, cons, f"{meths[0]} builds {sig[meths[0]]} but {meths[1]} builds {sig[meths[1]]}: the same update "
                  f"block is translated differently depending on the python version", f.node.lineno)
    w.sync()
    r.evaluations = w.evals
    r.require_floor(4)
    return r


RULES = [rule_intlog, rule_litwidth, rule_idxwidth, rule_optable, rule_handlers, rule_mismatch, rule_widthtable, rule_cache, rule_ir_eq, rule_slice_step, rule_dtype, rule_blockstate, rule_constfold, rule_namescope, rule_slicepair,
         rule_constcache_dep, rule_sim_accepts,
         rule_sim_helpers]


# ---------------------------------------------------------------------------
# self-test of the checker
def _m(name, file, old, new, rule=None, count=1):
    return dict(name=name, file=file, old=old, new=new, rule=rule, count=count)


_FIX_A = """      if isinstance( lhs_type, rdt.Vector ) and isinstance( rhs_type, rdt.Vector ) and \\
         lhs_type.get_length() < rhs_type.get_length():
        raise PyMTLTypeError( s.blk, node.ast,
          f'LHS target#{i+1} has {lhs_type.get_length()} bits but the RHS requires more bits ({rhs_type.get_length()})!' )
"""
_FIX_C = """      if node._is_explicit:
        # Explicitly sized operands: the result has the operand bitwidth and
        # wraps around like the Bits arithmetic of the simulator
        node._value = node._value & ((1 << res_nbits) - 1)
        node.Type = rt.Const( rdt.Vector( res_nbits ), None )
      else:
        node.Type = s.rtlir_getter.get_rtlir( node._value )
"""

MUTANTS = [
    # the four repaired defects, re-introduced
    _m('defect-a-assign-truncation-unchecked', TC1, _FIX_A, "", 'R-C10-mismatch'),
    _m('defect-b-ifexp-enforces-wider-arm', TC2, "          target_nbits = lhs_nbits\n          op = node.orelse\n        else:\n          target_nbits = rhs_nbits\n          op = node.body\n",
       "          target_nbits = lhs_nbits\n          op = node.body\n        else:\n          target_nbits = rhs_nbits\n          op = node.orelse\n", 'R-C10'),
    _m('defect-c-fold-explicit-by-value', TC2, _FIX_C, "      node.Type = s.rtlir_getter.get_rtlir( node._value )\n", 'R-C10-widthtable'),
    _m('defect-d-negative-width-L1', TC1, "      return (abs(value)-1).bit_length() + 1\n", "      return (abs(value)-1).bit_length()\n", 'R-C10-litwidth'),
    _m('defect-d-negative-width-rdt', RDT, "    return (abs(value)-1).bit_length() + 1\n", "    return (abs(value)-1).bit_length()\n", 'R-C10-litwidth'),
    # second round: rdt equality of comparison results, struct <-> vector assignment
    _m('bool-equals-any-vector', RDT, "    return isinstance(other, Bool) or \\\n           (isinstance(other, Vector) and other.nbits==1)",
       "    return isinstance( other, ( Bool, Vector ) )", 'R-C10-mismatch'),
    _m('vector-equals-bool-any-width', RDT, "(s.nbits == 1 and isinstance(other, Bool))", "isinstance(other, Bool)", 'R-C10-mismatch'),
    _m('struct-rhs-width-compared-with-itself', TC3, "        if l_is_struct:\n          vector_nbits = node.value.Type.get_dtype().get_length()\n",
       "        vector_nbits = node.value.Type.get_dtype().get_length()\n", 'R-C10-mismatch'),
    _m('struct-vector-width-test-one-sided', TC3, "        if struct_nbits != vector_nbits:\n          if l_is_struct:", "        if struct_nbits < vector_nbits:\n          if l_is_struct:", 'R-C10-mismatch'),
    _m('struct-name-test-dropped', TC3, "        if lhs_type.get_name() != rhs_type.get_name():", "        if lhs_type.get_length() != rhs_type.get_length():", 'R-C10-mismatch'),
    _m('struct-literal-not-resized', TC3, "        if not r_is_struct and is_rhs_reinterpretable and struct_nbits != vector_nbits:", "        if not r_is_struct and not is_rhs_reinterpretable and struct_nbits != vector_nbits:", 'R-C10-mismatch'),
    _m('defect-e-ifexp-bool-arm-not-unified', TC2, "    lhs_is_vector = isinstance(lhs_dtype, (rdt.Vector, rdt.Bool))\n    rhs_is_vector = isinstance(rhs_dtype, (rdt.Vector, rdt.Bool))\n",
       "    lhs_is_vector = isinstance(lhs_dtype, rdt.Vector)\n    rhs_is_vector = isinstance(rhs_dtype, rdt.Vector)\n", 'R-C10-mismatch'),
    # third round: free-variable explicitness by python type; memo keys on the path object -> RTLIR type
    _m('freevar-explicit-iff-value-unknown', TC1, "    node._is_explicit = not isinstance(node.obj, int)", "    node._is_explicit = not hasattr(node, '_value')", 'R-C10-widthtable'),
    _m('rtlir-cache-keyed-by-class-name', RT, "    obj = _freeze( _obj )\n    if obj in self._rtlir_cache:", "    obj = type( _obj ).__name__\n    if obj in self._rtlir_cache:", 'R-C10-cache'),
    dict(name='struct-dtype-memo-keyed-by-names', rule='R-C10-cache', edits=[
        dict(file=RT, old="from pymtl3.datatypes import Bits, is_bitstruct_inst\n", new="from pymtl3.datatypes import Bits, is_bitstruct_class, is_bitstruct_inst\n", count=1),
        dict(file=RT, old="    self._RTLIR_ifc_handlers = [\n", new="    self._struct_dtype_cache = {}\n\n    self._RTLIR_ifc_handlers = [\n", count=1),
        dict(file=RT, old="  def _handle_Wire( self, w_id, obj ):\n    return Wire( get_rtlir_dtype( obj ) )\n",
             new="  def _get_signal_dtype( self, obj ):\n    Type = obj._dsl.Type\n    if is_bitstruct_class( Type ):\n      key = ( Type.__name__, tuple( Type.__bitstruct_fields__ ) )\n"
                 "      if key not in self._struct_dtype_cache:\n        self._struct_dtype_cache[ key ] = get_rtlir_dtype( obj )\n      return self._struct_dtype_cache[ key ]\n"
                 "    return get_rtlir_dtype( obj )\n\n  def _handle_Wire( self, w_id, obj ):\n    return Wire( self._get_signal_dtype( obj ) )\n", count=1)]),
    # constant index / slice bounds: negative constants are never accepted
    _m('array-index-lower-bound-lost', TC1, "      if idx is not None and not (0 <= idx < node.value.Type.get_dim_sizes()[0]):", "      if idx is not None and idx >= node.value.Type.get_dim_sizes()[0]:", 'R-C10-widthtable'),
    _m('array-index-upper-bound-inclusive', TC1, "      if idx is not None and not (0 <= idx < node.value.Type.get_dim_sizes()[0]):", "      if idx is not None and not (0 <= idx <= node.value.Type.get_dim_sizes()[0]):", 'R-C10-widthtable'),
    _m('bit-index-lower-bound-lost', TC1, "        if idx is not None and not(0 <= idx < dtype.get_length()):", "        if idx is not None and idx >= dtype.get_length():", 'R-C10-widthtable'),
    _m('slice-lower-bound-lost', TC1, "      if not ( 0 <= lower_val < upper_val <= signal_nbits ):", "      if not ( lower_val < upper_val <= signal_nbits ):", 'R-C10-widthtable'),
    _m('array-const-element-off-by-one', TC1, "          node._value = int( obj[ int( idx ) ] )", "          node._value = int( obj[ int( idx ) - 1 ] )", 'R-C10-widthtable'),
    # fourth round
    _m('tmpvar-literal-overwrites-recorded-type', TC2, "      if lhs_type != rt.NoneType() and lhs_type.get_dtype() != rhs_type.get_dtype():",
       "      if lhs_type != rt.NoneType() and node.value._is_explicit and \\\n         lhs_type.get_dtype() != rhs_type.get_dtype():", 'R-C10-mismatch'),
    _m('tmpvar-may-shrink', TC2, "      if lhs_type != rt.NoneType() and lhs_type.get_dtype() != rhs_type.get_dtype():",
       "      if lhs_type != rt.NoneType() and lhs_type.get_dtype().get_length() < rhs_type.get_dtype().get_length():", 'R-C10-mismatch'),
    _m('defect-f-tmpvar-explicitness-overwritten', TC2, "      s.tmpvars_is_explicit[ tmpvar_id ] = node.value._is_explicit or \\\n                                           s.tmpvars_is_explicit.get( tmpvar_id, False )\n",
       "      s.tmpvars_is_explicit[ tmpvar_id ] = node.value._is_explicit\n", 'R-C10-mismatch'),
    _m('defect-g-structinst-literal-truncated', TC3, "          if v_dtype.get_length() > target_nbits:\n", "          if False:\n", 'R-C10-mismatch'),
    _m('structinst-explicit-arg-castable-suffices', TC3, "        else:\n          raise PyMTLTypeError( s.blk, node.ast,\n            f\"Expected argument#{idx+1}",
       "        elif not field( v_dtype ):\n          raise PyMTLTypeError( s.blk, node.ast,\n            f\"Expected argument#{idx+1}", 'R-C10-mismatch'),
    _m('structinst-literal-not-resized', TC3, "          s.enforcer.enter( s.blk, rt.NetWire(rdt.Vector(target_nbits)), value )", "          pass", 'R-C10-mismatch'),
    dict(name='const-cache-shared-by-all-extractors', rule='R-tr-constcache', edits=[
        dict(file=GEN[0], old="class ConstantExtractor( ast.NodeVisitor ):\n  def __init__", new="class ConstantExtractor( ast.NodeVisitor ):\n  cache = {}\n\n  def __init__", count=1),
        dict(file=GEN[0], old="    s.cache = {}\n", new="", count=1)]),
    _m('ir-index-eq-self-vs-self', BIR, "s.idx == other.idx", "s.idx == s.idx", 'R-C10-ir-eq'),
    _m('ir-attribute-eq-ignores-attr', BIR, "isinstance(other, Attribute) and s.value == other.value and s.attr == other.attr", "isinstance(other, Attribute) and s.value == other.value", 'R-C10-ir-eq'),
    _m('ir-concat-eq-any-class', BIR, "    if not isinstance(other, Concat):\n      return False\n", "", 'R-C10-ir-eq'),
    _m('slice-object-step-unchecked-py39', GEN[0], "      slice_obj = idx.obj\n      if slice_obj.step is not None:\n        raise PyMTLSyntaxError( s.blk, node,\n          'Slice with steps is not supported!' )\n",
       "      slice_obj = idx.obj\n", 'R-C10-slicestep'),
    _m('slice-literal-step-unchecked-py38', GEN[0], "      if node.slice.step is not None:\n        raise PyMTLSyntaxError( s.blk, node,\n          'Slice with steps is not supported!' )\n      lower, upper = s.visit( node.slice )",
       "      lower, upper = s.visit( node.slice )", 'R-C10-slicestep', count='first'),
    _m('part-select-base-equality-lost', TC1, "        assert node.lower == node.upper.left\n", "", 'R-C10-widthtable'),
    _m('part-select-as-if-chain-without-equality', TC1,
       "      try:\n        assert isinstance( node.upper, bir.BinOp )\n        assert isinstance( node.upper.op, bir.Add )\n        nbits = node.upper.right\n        slice_size = nbits._value\n        assert node.lower == node.upper.left\n"
       "        node.Type = rt.NetWire( rdt.Vector( slice_size ) )\n        node._is_explicit = True\n        # Add new fields that might help translation\n        node.size = slice_size\n        node.base = node.lower\n      except Exception:\n",
       "      upper = node.upper\n      if isinstance( upper, bir.BinOp ) and isinstance( upper.op, bir.Add ) and \\\n         hasattr( upper.right, '_value' ):\n        slice_size = upper.right._value\n"
       "        node.Type = rt.NetWire( rdt.Vector( slice_size ) )\n        node._is_explicit = True\n        # Add new fields that might help translation\n        node.size = slice_size\n        node.base = node.lower\n      else:\n", 'R-C10-widthtable'),
    _m('part-select-any-operator', TC1, "        assert isinstance( node.upper.op, bir.Add )\n", "", 'R-C10-widthtable'),
    # fifth round
    _m('packed-array-length-sum-of-dims', RDT, "return int(s.sub_dtype.get_length()*reduce( lambda p,x: p*x, s.dim_sizes, 1 ))", "return int(s.sub_dtype.get_length()*sum( s.dim_sizes ))", 'R-C10-dtype-length'),
    _m('packed-array-length-first-dim-only', RDT, "return int(s.sub_dtype.get_length()*reduce( lambda p,x: p*x, s.dim_sizes, 1 ))", "return int(s.sub_dtype.get_length()*s.dim_sizes[0])", 'R-C10-dtype-length'),
    _m('struct-length-widest-field', RDT, "    return int(sum( d.get_length() for d in s.properties.values() ))", "    return int(max( d.get_length() for d in s.properties.values() ))", 'R-C10-dtype-length'),
    _m('vector-length-off-by-one', RDT, "  def get_length( s ):\n    return int(s.nbits)\n", "  def get_length( s ):\n    return int(s.nbits) - 1\n", 'R-C10'),
    _m('int-list-typed-by-first-element', RT, "    for x in obj[1:]:\n      assert self.get_rtlir(x) == ref_type,", "    for x in obj[1:]:\n      if type(x) is int and type(obj[0]) is int: continue\n      assert self.get_rtlir(x) == ref_type,", 'R-C10-arraytype'),
    _m('list-elements-compared-with-themselves', RT, "      assert self.get_rtlir(x) == ref_type,", "      assert self.get_rtlir(x) == self.get_rtlir(x),", 'R-C10-arraytype'),
    _m('list-only-second-element-checked', RT, "    for x in obj[1:]:\n      assert self.get_rtlir(x) == ref_type,", "    for x in obj[1:2]:\n      assert self.get_rtlir(x) == ref_type,", 'R-C10-arraytype'),
    _m('for-end-minus-one-accepted', TC2, "      if node.end._value < 0:", "      if node.end._value < -1:", 'R-C10-widthtable'),
    _m('for-start-negative-accepted', TC2, "      if node.start._value < 0:", "      if node.start._value < -1:", 'R-C10-widthtable'),
    _m('for-zero-step-accepted', TC2, "      if step == 0:\n        raise PyMTLTypeError( s.blk, node.ast,\n          'the step of for-loop cannot be zero!' )", "      if step is None:\n        raise PyMTLTypeError( s.blk, node.ast,\n          'the step of for-loop cannot be zero!' )", 'R-C10-widthtable'),
    # sixth round
    dict(name='generator-closure-created-once', rule='R-C10-blockstate', edits=[
        dict(file=GEN[0], old="    s.component = component\n\n    if sys.version_info", new="    s.component = component\n    s.closure = {}\n\n    if sys.version_info", count='first'),
        dict(file=GEN[0], old="    # Basically this is the model instance s.\n    s.closure = {}\n\n    for i, var in enumerate( blk.__code__.co_freevars ):\n      try:\n        s.closure[ var ] = blk.__closure__[ i ].cell_contents\n      except ValueError:\n        pass\n\n    s.const_extractor",
             new="    # Basically this is the model instance s.\n\n    for i, var in enumerate( blk.__code__.co_freevars ):\n      try:\n        s.closure[ var ] = blk.__closure__[ i ].cell_contents\n      except ValueError:\n        pass\n\n    s.const_extractor", count=1)]),
    _m('checker-closure-accumulates', TC1, "    s.closure = {}\n\n    for i, var in enumerate( blk.__code__.co_freevars ):", "    s.closure = getattr( s, 'closure', {} )\n\n    for i, var in enumerate( blk.__code__.co_freevars ):", 'R-C10-blockstate'),
    _m('component-interface-compared-by-port-names', RT, "all(_u == _v for _u, _v in zip(u, v))", "all(_u[0] == _v[0] for _u, _v in zip(u, v))", 'R-C10-arraytype'),
    _m('component-interface-compared-by-port-count', RT, "    return (len(u)==len(v)) and all(_u == _v for _u, _v in zip(u, v))", "    return (len(u)==len(v))", 'R-C10-arraytype'),
    _m('port-eq-ignores-dtype', RT, "    return isinstance(other, Port) and s.dtype == other.dtype and \\\n           s.direction == other.direction", "    return isinstance(other, Port) and \\\n           s.direction == other.direction", 'R-C10-arraytype'),
    _m('wire-next-dim-jumps-to-element', RT, "    return Wire( s.dtype.get_next_dim_type(), s.unpacked )", "    return Wire( s.dtype.get_sub_dtype(), s.unpacked )", 'R-C10-nextdim'),
    _m('port-next-dim-keeps-array', RT, "    return Port( s.direction, s.dtype.get_next_dim_type(), s.unpacked )", "    return Port( s.direction, s.dtype, s.unpacked )", 'R-C10-nextdim'),
    _m('packed-array-next-dim-drops-last', RDT, "    return PackedArray( s.dim_sizes[1:], s.sub_dtype )", "    return PackedArray( s.dim_sizes[:-1], s.sub_dtype )", 'R-C10-nextdim'),
    # seventh round
    _m('defect-h-constant-list-element-always-resizable', TC1, "          node._is_explicit = not isinstance( obj[ int( idx ) ], int )\n", "          node._is_explicit = False if isinstance(node._value, int) else True\n", 'R-C10-widthtable'),
    _m('constant-list-element-always-explicit', TC1, "          node._is_explicit = not isinstance( obj[ int( idx ) ], int )\n", "          node._is_explicit = True\n", 'R-C10-widthtable'),
    _m('assign-loop-checks-first-target-only', TC2, "    for i, target in enumerate( node.targets ):\n      s._visit_Assign_single_target( node, target, i )", "    for i, target in enumerate( node.targets ):\n      s._visit_Assign_single_target( node, node.targets[0], i )", 'R-C10-mismatch'),
    _m('assign-loop-skips-last-target', TC2, "    for i, target in enumerate( node.targets ):\n      s._visit_Assign_single_target( node, target, i )", "    for i, target in enumerate( node.targets[:1] ):\n      s._visit_Assign_single_target( node, target, i )", 'R-C10-mismatch'),
    _m('sim-ge-int-branch-operand-width', BITS, "      return _new_valid_bits( 1, self._uint >= other )", "      return _new_valid_bits( nbits, self._uint >= other )", 'R-C10-widthtable'),
    _m('sim-add-int-branch-one-bit', BITS, "      return _new_valid_bits( nbits, (self._uint + other) & up )", "      return _new_valid_bits( 1, (self._uint + other) & up )", 'R-C10-widthtable', count='first'),
    _m('const-subscript-truthiness-py39', GEN[0], "    idx = s.visit( node.slice )\n    if value is not None and idx is not None:", "    idx = s.visit( node.slice )\n    if value and idx:", 'R-C10-constfold'),
    _m('const-subscript-idx-truthiness-py38', GEN[0], "      if value is not None and idx is not None:", "      if value is not None and idx:", 'R-C10-constfold'),
    _m('const-subscript-or-instead-of-and', GEN[0], "    idx = s.visit( node.slice )\n    if value is not None and idx is not None:", "    idx = s.visit( node.slice )\n    if value is not None or idx is not None:", 'R-C10-constfold'),
    _m('struct-identity-by-class-name', TC3, "        if lhs_type.get_name() != rhs_type.get_name():", "        if lhs_type.get_class().__name__ != rhs_type.get_class().__name__:", 'R-C10-mismatch'),
    _m('struct-eq-by-class-name', RDT, "    return isinstance(u, Struct) and s.get_full_name() == u.get_full_name()", "    return isinstance(u, Struct) and s.cls.__name__ == u.cls.__name__", 'R-C10'),
    # eighth round: name scoping in the generator
    _m('name-temporary-shadows-loop-variable', GEN2, "      if node.id in s.loop_var_env:\n        ret = bir.LoopVar( node.id )\n      elif node.id in s.tmp_var_env:\n        ret = bir.TmpVar( node.id, s._upblk_name )\n",
       "      if node.id in s.tmp_var_env:\n        ret = bir.TmpVar( node.id, s._upblk_name )\n      elif node.id in s.loop_var_env:\n        ret = bir.LoopVar( node.id )\n", 'R-C10-namescope'),
    _m('name-unknown-load-becomes-temporary', GEN2, "      elif isinstance( node.ctx, ast.Load ):\n        # trying to load", "      elif isinstance( node.ctx, ast.Store ):\n        # trying to load", 'R-C10-namescope'),
    _m('name-new-temporary-not-registered', GEN2, "        s.tmp_var_env.add( node.id )\n", "        pass\n", 'R-C10-namescope'),
    _m('loop-variable-never-unregistered', GEN2, "    s.loop_var_env.remove( loop_var_name )\n", "", 'R-C10-namescope'),
    _m('loop-variable-registered-after-body', GEN2, "    s.loop_var_env.add( loop_var_name )\n    var = bir.LoopVarDecl( node.target.id )", "    var = bir.LoopVarDecl( node.target.id )", 'R-C10-namescope'),
    _m('name-global-taken-for-temporary', GEN2, "    if (not node.id in s.closure) and (not node.id in s.globals):", "    if (not node.id in s.closure):", 'R-C10-namescope'),
    # tenth round: (lower, upper) pair handed to bir.Slice
    _m('slice-object-start-size-py39', GEN[0], "    if isinstance( idx, bir.FreeVar ) and isinstance( idx.obj, slice ):\n      slice_obj = idx.obj\n      if slice_obj.step is not None:\n        raise PyMTLSyntaxError( s.blk, node,\n          'Slice with steps is not supported!' )\n      assert isinstance( slice_obj.start, int ) and \\\n             isinstance( slice_obj.stop, int ), \\\n          f\"start and stop of slice object {slice_obj} must be integers!\"\n      ret = bir.Slice( value,\n            bir.Number(slice_obj.start), bir.Number(slice_obj.stop) )",
       "    if isinstance( idx, bir.FreeVar ) and isinstance( idx.obj, slice ):\n      slice_obj = idx.obj\n      if slice_obj.step is not None:\n        raise PyMTLSyntaxError( s.blk, node,\n          'Slice with steps is not supported!' )\n      assert isinstance( slice_obj.start, int ) and \\\n             isinstance( slice_obj.stop, int ), \\\n          f\"start and stop of slice object {slice_obj} must be integers!\"\n      base = bir.Number( slice_obj.start )\n      size = bir.Number( slice_obj.stop - slice_obj.start )\n      ret = bir.Slice( value, base, size )", 'R-C10-slicepair'),
    _m('slice-object-bounds-swapped-py38', GEN[0], "        ret = bir.Slice( value,\n              bir.Number(slice_obj.start), bir.Number(slice_obj.stop) )", "        ret = bir.Slice( value,\n              bir.Number(slice_obj.stop), bir.Number(slice_obj.start) )", 'R-C10-slicepair'),
    _m('literal-slice-pair-swapped', GEN[0], "    return ( s.visit( node.lower ), s.visit( node.upper ) )", "    return ( s.visit( node.upper ), s.visit( node.lower ) )", 'R-C10-slicepair'),
    _m('literal-slice-upper-inclusive-py39', GEN[0], "      lower, upper = s.visit( node.slice )\n      ret = bir.Slice( value, lower, upper )", "      lower, upper = s.visit( node.slice )\n      ret = bir.Slice( value, lower, lower )", 'R-C10-slicepair', count=2),
    # literal width
    _m('float-log-reintroduced-L1', TC1, "      return value.bit_length()\n", "      return math.ceil(math.log2(value+1))\n", 'R-intlog'),
    _m('float-log-reintroduced-rdt', RDT, "    return value.bit_length()\n", "    return ceil(log2(value+1))\n", 'R-C10-litwidth'),
    _m('litwidth-clog2-formula', RDT, "    return value.bit_length()\n", "    return (value-1).bit_length()\n", 'R-C10-litwidth'),
    _m('litwidth-plus-one', TC1, "      return value.bit_length()\n", "      return (value+1).bit_length()\n", 'R-C10-litwidth'),
    _m('litwidth-special-case-too-wide', TC1, "    if -1 <= value <= 1:\n      return 1", "    if -1 <= value <= 2:\n      return 1", 'R-C10-litwidth'),
    _m('index-width-vector', RDT, "      return ceil(log2(s.nbits))", "      return ceil(log2(s.nbits+1))", 'R-C10-idxwidth'),
    _m('index-width-array', RT, "      return math.ceil(math.log2(n_elements))", "      return n_elements.bit_length()", 'R-C10-idxwidth'),
    # assignment
    _m('assign-strong-check-weakened', TC1, "    if rhs_type != lhs_type:\n      raise PyMTLTypeError( s.blk, node.ast,\n        f'LHS and RHS of assignment should have the same type",
       "    if not lhs_type( rhs_type ):\n      raise PyMTLTypeError( s.blk, node.ast,\n        f'LHS and RHS of assignment should have the same type", 'R-C10-mismatch'),
    _m('assign-reinterprets-explicit', TC1, "    is_rhs_reinterpretable = not node.value._is_explicit\n    if is_rhs_reinterpretable and ((not",
       "    is_rhs_reinterpretable = node.value._is_explicit\n    if is_rhs_reinterpretable and ((not", 'R-C10-mismatch'),
    _m('assign-truncation-test-inverted', TC1, "         lhs_type.get_length() < rhs_type.get_length():", "         lhs_type.get_length() > rhs_type.get_length():", 'R-C10-mismatch'),
    _m('vector-eq-weakened', RDT, "(isinstance(other, Vector) and s.nbits == other.nbits)", "(isinstance(other, Vector) and s.nbits <= other.nbits)", 'R-C10-mismatch'),
    # binop / compare / if-exp unification
    _m('binop-explicit-mismatch-one-sided', TC2, "if not isinstance( op, s.BinOp_left_nbits ) and l_type != r_type:", "if not isinstance( op, s.BinOp_left_nbits ) and l_nbits < r_nbits:", 'R-C10-mismatch'),
    _m('binop-truncation-test-inverted', TC2, "        if explicit < implicit:\n          raise PyMTLTypeError( s.blk, node.ast,\n              f\"The explicitly sized side of operation",
       "        if explicit > implicit:\n          raise PyMTLTypeError( s.blk, node.ast,\n              f\"The explicitly sized side of operation", 'R-C10-mismatch'),
    _m('binop-implicit-enforces-wider', TC2, "          target_nbits = l_nbits\n          op = node.right\n", "          target_nbits = l_nbits\n          op = node.left\n", 'R-C10-mismatch'),
    _m('binop-context-from-implicit-side', TC2, "        if not l_explicit:\n          context, op, explicit, implicit = node.right.Type, node.left, r_nbits, l_nbits\n        # Check if any implicit truncation happens\n        if explicit < implicit:\n          raise PyMTLTypeError( s.blk, node.ast,\n              f\"The explicitly sized side of operation",
       "        if l_explicit:\n          context, op, explicit, implicit = node.right.Type, node.left, r_nbits, l_nbits\n        # Check if any implicit truncation happens\n        if explicit < implicit:\n          raise PyMTLTypeError( s.blk, node.ast,\n              f\"The explicitly sized side of operation", 'R-C10-mismatch'),
    _m('binop-result-left-width', TC2, "      res_nbits = max( l_nbits, r_nbits )", "      res_nbits = l_nbits", 'R-C10-widthtable'),
    _m('binop-explicitness-and', TC2, "      node._is_explicit = l_explicit or r_explicit", "      node._is_explicit = l_explicit and r_explicit", 'R-C10-widthtable'),
    _m('shift-result-right-width', TC2, "      res_nbits = l_nbits\n      node._is_explicit = l_explicit\n", "      res_nbits = r_nbits\n      node._is_explicit = l_explicit\n", 'R-C10-widthtable'),
    _m('shift-explicitness-of-amount', TC2, "      res_nbits = l_nbits\n      node._is_explicit = l_explicit\n", "      res_nbits = l_nbits\n      node._is_explicit = r_explicit\n", 'R-C10-widthtable'),
    _m('compare-truncation-dropped', TC2, "      if explicit < implicit:\n        raise PyMTLTypeError( s.blk, node.ast,\n            f\"The explicitly sized side of comparison",
       "      if explicit < 0:\n        raise PyMTLTypeError( s.blk, node.ast,\n            f\"The explicitly sized side of comparison", 'R-C10-mismatch'),
    _m('compare-explicit-mismatch-one-sided', TC2, "    if l_explicit and r_explicit:\n      if l_type != r_type:", "    if l_explicit and r_explicit:\n      if l_nbits > r_nbits:", 'R-C10-mismatch'),
    _m('compare-result-operand-width', TC2, "    node.Type = rt.NetWire( rdt.Bool() )", "    node.Type = rt.NetWire( rdt.Vector( max( l_nbits, r_nbits ) ) )", 'R-C10-widthtable'),
    _m('compare-implicit-enforces-wider', TC2, "        target_nbits = l_nbits\n        op = node.right\n", "        target_nbits = l_nbits\n        op = node.left\n", 'R-C10-mismatch'),
    _m('bool-length', RDT, "  def get_length( s ):\n    return 1\n", "  def get_length( s ):\n    return 2\n", 'R-C10-widthtable'),
    _m('ifexp-explicit-mismatch-one-sided', TC2, "if lhs_is_vector and rhs_is_vector and lhs_nbits != rhs_nbits:", "if lhs_is_vector and rhs_is_vector and lhs_nbits < rhs_nbits:", 'R-C10-mismatch'),
    _m('ifexp-truncation-test-inverted', TC2, "        if explicit < implicit:\n          raise PyMTLTypeError( s.blk, node.ast,\n              f\"The {exp_str} side",
       "        if explicit > implicit:\n          raise PyMTLTypeError( s.blk, node.ast,\n              f\"The {exp_str} side", 'R-C10-mismatch'),
    _m('ifexp-explicitness-and', TC2, "node._is_explicit = node.body._is_explicit or node.orelse._is_explicit", "node._is_explicit = node.body._is_explicit and node.orelse._is_explicit", 'R-C10-widthtable'),
    # operator tables
    _m('sub-in-left-group', TC2, "    s.BinOp_max_nbits = (bir.Add, bir.Sub, bir.Mult, bir.Div, bir.Mod, bir.Pow,\n                         bir.BitAnd, bir.BitOr, bir.BitXor)\n    s.BinOp_left_nbits = ( bir.ShiftLeft, bir.ShiftRightLogic )\n    s.type_expect",
       "    s.BinOp_max_nbits = (bir.Add, bir.Mult, bir.Div, bir.Mod, bir.Pow,\n                         bir.BitAnd, bir.BitOr, bir.BitXor)\n    s.BinOp_left_nbits = ( bir.ShiftLeft, bir.ShiftRightLogic, bir.Sub )\n    s.type_expect", 'R-C10-optable'),
    _m('xor-in-no-group', TC2, "                         bir.BitAnd, bir.BitOr, bir.BitXor)\n    s.BinOp_left_nbits = ( bir.ShiftLeft, bir.ShiftRightLogic )\n    s.type_expect",
       "                         bir.BitAnd, bir.BitOr)\n    s.BinOp_left_nbits = ( bir.ShiftLeft, bir.ShiftRightLogic )\n    s.type_expect", 'R-C10-optable'),
    _m('enforcer-group-copy-diverges', TC2, "    s.BinOp_left_nbits = ( bir.ShiftLeft, bir.ShiftRightLogic )\n    s.tmpvars_is_explicit = tmpvars_is_explicit",
       "    s.BinOp_left_nbits = ( bir.ShiftLeft, )\n    s.tmpvars_is_explicit = tmpvars_is_explicit", 'R-C10-optable'),
    _m('fold-shift-tokens-swapped', TC2, "bir.ShiftLeft : '<<',  bir.ShiftRightLogic : '>>',", "bir.ShiftLeft : '>>',  bir.ShiftRightLogic : '<<',", 'R-C10-optable'),
    _m('fold-and-or-swapped', TC2, "bir.BitAnd    : '&',   bir.BitOr : '|',", "bir.BitAnd    : '|',   bir.BitOr : '&',", 'R-C10-optable'),
    _m('fold-unary-invert-as-minus', TC2, "          bir.Invert : '~',", "          bir.Invert : '-',", 'R-C10-optable'),
    _m('gen-shift-ops-swapped', GEN2, "ast.LShift : bir.ShiftLeft(), ast.RShift : bir.ShiftRightLogic(),", "ast.LShift : bir.ShiftRightLogic(), ast.RShift : bir.ShiftLeft(),", 'R-C10-optable'),
    _m('gen-mod-maps-to-mult', GEN2, "ast.Mod    : bir.Mod(), ", "ast.Mod    : bir.Mult(),", 'R-C10-optable'),
    # handlers / enforcer
    _m('handler-truncate-lost', TC1, "  def visit_Truncate( s, node ):", "  def visit_Trunc( s, node ):", 'R-C10-handlers'),
    _m('handler-structinst-lost', TC3, "  def visit_StructInst( s, node ):", "  def visit_Struct( s, node ):", 'R-C10-handlers'),
    _m('enforcer-mutates-explicit', TC1, "    if not node._is_explicit:\n      # assert", "    if node._is_explicit:\n      # assert", 'R-C10-handlers'),
    _m('enforcer-number-noop', TC1, "    s.mutate_datatype( node, node.value )", "    pass", 'R-C10-handlers'),
    _m('enforcer-loopvar-noop', TC2, "    s.mutate_datatype( node, f'loop variable {node.name}' )", "    pass", 'R-C10-handlers'),
    _m('enforcer-tmpvar-flag-inverted', TC2, "    if not s.tmpvars_is_explicit[tmpvar_id]:", "    if s.tmpvars_is_explicit[tmpvar_id]:", 'R-C10-handlers'),
    _m('enforcer-ifexp-skips-orelse', TC2, "    s.visit( node.body )\n    s.visit( node.orelse )\n", "    s.visit( node.body )\n", 'R-C10-handlers'),
    # per-node widths
    _m('number-explicit', TC1, "    node._value = int(node.value)\n    node._is_explicit = False", "    node._value = int(node.value)\n    node._is_explicit = True", 'R-C10-widthtable'),
    _m('freevar-int-explicit', TC1, "    node._is_explicit = not isinstance(node.obj, int)", "    node._is_explicit = True", 'R-C10-widthtable'),
    _m('concat-last-width-only', TC1, "      nbits += child.Type.get_dtype().get_length()", "      nbits = child.Type.get_dtype().get_length()", 'R-C10-widthtable'),
    _m('zext-guard-flipped', TC1, "    if new_nbits < old_nbits:", "    if new_nbits > old_nbits:", 'R-C10-widthtable', count='first'),
    _m('trunc-guard-strict', TC1, "    if new_nbits > old_nbits:", "    if new_nbits >= old_nbits:", 'R-C10-widthtable'),
    _m('reduce-keeps-operand-width', TC1, "    node.Type.dtype = rdt.Vector( 1 )", "    node.Type.dtype = child_type.get_dtype()", 'R-C10-widthtable'),
    _m('sizecast-never-narrows', TC1, "    node.Type.dtype = rdt.Vector( nbits )", "    node.Type.dtype = rdt.Vector( max( nbits, Type.get_dtype().get_length() ) )", 'R-C10-widthtable'),
    _m('slice-width-off-by-one', TC1, "rdt.Vector( int( upper_val - lower_val ) )", "rdt.Vector( int( upper_val - lower_val ) + 1 )", 'R-C10-widthtable'),
    _m('slice-upper-bound-loose', TC1, "      if not ( 0 <= lower_val < upper_val <= signal_nbits ):", "      if not ( 0 <= lower_val < upper_val <= signal_nbits + 1 ):", 'R-C10-widthtable'),
    _m('part-select-width-from-base', TC1, "        slice_size = nbits._value\n", "        slice_size = node.lower.Type.get_dtype().get_length()\n", 'R-C10-widthtable'),
    _m('index-range-inclusive', TC1, "        if idx is not None and not(0 <= idx < dtype.get_length()):", "        if idx is not None and not(0 <= idx <= dtype.get_length()):", 'R-C10-widthtable'),
    _m('index-result-whole-vector', TC1, "        node.Type = rt.NetWire( rdt.Vector( 1 ) )", "        node.Type = rt.NetWire( rdt.Vector( dtype.get_length() ) )", 'R-C10-widthtable'),
    _m('unary-always-explicit', TC2, "    node.Type = node.operand.Type\n    node._is_explicit = node.operand._is_explicit", "    node.Type = node.operand.Type\n    node._is_explicit = True", 'R-C10-widthtable'),
    _m('tmpvar-forgets-implicit', TC2, "      s.tmpvars_is_explicit[ tmpvar_id ] = node.value._is_explicit", "      s.tmpvars_is_explicit[ tmpvar_id ] = True", 'R-C10-widthtable'),
    _m('loopvar-width-from-count', TC2, "        lvar_nbits = s._get_nbits_from_value(max(loop_range))", "        lvar_nbits = s._get_nbits_from_value(len(loop_range))", 'R-C10-widthtable'),
    _m('loopvar-explicit', TC2, "      s.loopvar_is_explicit[node.var.name] = False", "      s.loopvar_is_explicit[node.var.name] = True", 'R-C10-widthtable'),
    _m('struct-field-gets-struct-width', TC3, "      dtype = dtype.get_property( node.attr )\n", "      dtype.get_property( node.attr )\n", 'R-C10-widthtable'),
    _m('sim-zext-keeps-width', HELPERS, "    assert new_width >= value.nbits\n    return Bits( new_width, value.uint() )", "    assert new_width >= value.nbits\n    return Bits( value.nbits, value.uint() )", 'R-C10-widthtable'),
]

EQUIV = [
    _m('slice-object-pair-via-helper-names', GEN[0], "      ret = bir.Slice( value,\n            bir.Number(slice_obj.start), bir.Number(slice_obj.stop) )", "      lo_node = bir.Number( slice_obj.start )\n      hi_node = bir.Number( slice_obj.stop )\n      ret = bir.Slice( value, lo_node, hi_node )"),
    _m('literal-slice-pair-unpacked-later', GEN[0], "    return ( s.visit( node.lower ), s.visit( node.upper ) )", "    lo = s.visit( node.lower )\n    hi = s.visit( node.upper )\n    return ( lo, hi )"),
    _m('name-lookup-as-nested-if', GEN2, "      if node.id in s.loop_var_env:\n        ret = bir.LoopVar( node.id )\n      elif node.id in s.tmp_var_env:\n        ret = bir.TmpVar( node.id, s._upblk_name )\n      elif isinstance",
       "      is_loop = node.id in s.loop_var_env\n      is_tmp = not is_loop and node.id in s.tmp_var_env\n      if is_loop:\n        ret = bir.LoopVar( node.id )\n      elif is_tmp:\n        ret = bir.TmpVar( node.id, s._upblk_name )\n      elif isinstance"),
    dict(name='name-lookup-through-chainmap', edits=[
        dict(file=GEN2, old="import ast\n\nfrom pymtl3.passes.rtlir.errors", new="import ast\nfrom collections import ChainMap\n\nfrom pymtl3.passes.rtlir.errors", count=1),
        dict(file=GEN2, old="      if node.id in s.loop_var_env:\n        ret = bir.LoopVar( node.id )\n      elif node.id in s.tmp_var_env:\n        ret = bir.TmpVar( node.id, s._upblk_name )\n      elif isinstance",
             new="      kind = ChainMap( { n : 'loop' for n in s.loop_var_env }, { n : 'tmp' for n in s.tmp_var_env } ).get( node.id )\n      if kind == 'loop':\n        ret = bir.LoopVar( node.id )\n      elif kind == 'tmp':\n        ret = bir.TmpVar( node.id, s._upblk_name )\n      elif isinstance", count=1)]),
    _m('loop-variable-discard', GEN2, "    s.loop_var_env.remove( loop_var_name )\n", "    s.loop_var_env.discard( loop_var_name )\n"),
    _m('assign-loop-by-index', TC2, "    for i, target in enumerate( node.targets ):\n      s._visit_Assign_single_target( node, target, i )", "    for i in range( len( node.targets ) ):\n      s._visit_Assign_single_target( node, node.targets[i], i )"),
    _m('const-subscript-guard-as-not-none-in', GEN[0], "    idx = s.visit( node.slice )\n    if value is not None and idx is not None:", "    idx = s.visit( node.slice )\n    if not (value is None or idx is None):"),
    _m('struct-identity-by-full-name', TC3, "        if lhs_type.get_name() != rhs_type.get_name():", "        if lhs_type.get_full_name() != rhs_type.get_full_name():"),
    _m('constant-list-element-explicit-by-type-test', TC1, "          node._is_explicit = not isinstance( obj[ int( idx ) ], int )\n", "          node._is_explicit = type( obj[ int( idx ) ] ) != int\n"),
    _m('closure-created-with-dict-call', GEN[0], "    s.closure = {}\n\n    for i, var in enumerate( blk.__code__.co_freevars ):", "    s.closure = dict()\n\n    for i, var in enumerate( blk.__code__.co_freevars ):"),
    _m('component-interface-explicit-pair-compare', RT, "all(_u == _v for _u, _v in zip(u, v))", "all(_u[0] == _v[0] and _u[1] == _v[1] for _u, _v in zip(u, v))"),
    _m('wire-next-dim-helper-variable', RT, "    return Wire( s.dtype.get_next_dim_type(), s.unpacked )", "    sub = s.dtype.get_next_dim_type()\n    return Wire( sub, s.unpacked )"),
    _m('packed-array-length-math-prod-loop', RDT, "return int(s.sub_dtype.get_length()*reduce( lambda p,x: p*x, s.dim_sizes, 1 ))", "return int(reduce( lambda p,x: p*x, s.dim_sizes, s.sub_dtype.get_length() ))"),
    _m('struct-length-as-list-sum', RDT, "    return int(sum( d.get_length() for d in s.properties.values() ))", "    return int(sum( [ s.properties[k].get_length() for k in s.properties ] ))"),
    _m('for-end-test-mirrored', TC2, "      if node.end._value < 0:", "      if 0 > node.end._value:"),
    _m('list-type-check-as-ne', RT, "      assert self.get_rtlir(x) == ref_type,", "      assert not (self.get_rtlir(x) != ref_type),"),
    _m('part-select-equality-mirrored', TC1, "        assert node.lower == node.upper.left\n", "        assert node.upper.left == node.lower\n"),
    _m('ir-index-eq-reordered', BIR, "isinstance(other, Index) and s.value == other.value and s.idx == other.idx", "isinstance(other, Index) and other.idx == s.idx and other.value == s.value"),
    _m('tmpvar-nonetype-test-as-not-eq', TC2, "      if lhs_type != rt.NoneType() and lhs_type.get_dtype() != rhs_type.get_dtype():", "      if not (lhs_type == rt.NoneType()) and lhs_type.get_dtype() != rhs_type.get_dtype():"),
    _m('slice-step-test-as-not-is-none', GEN[0], "      if slice_obj.step is not None:", "      if not (slice_obj.step is None):", count=2),
    dict(name='struct-dtype-memo-keyed-by-class-object', edits=[
        dict(file=RT, old="    self._RTLIR_ifc_handlers = [\n", new="    self._struct_dtype_cache = {}\n\n    self._RTLIR_ifc_handlers = [\n", count=1),
        dict(file=RT, old="  def _handle_Wire( self, w_id, obj ):\n    return Wire( get_rtlir_dtype( obj ) )\n",
             new="  def _get_signal_dtype( self, obj ):\n    Type = obj._dsl.Type\n    if Type not in self._struct_dtype_cache:\n      self._struct_dtype_cache[ Type ] = get_rtlir_dtype( obj )\n"
                 "    return self._struct_dtype_cache[ Type ]\n\n  def _handle_Wire( self, w_id, obj ):\n    return Wire( self._get_signal_dtype( obj ) )\n", count=1)]),
    _m('freevar-explicit-iff-not-int-type', TC1, "    node._is_explicit = not isinstance(node.obj, int)", "    node._is_explicit = type(node.obj) != int"),
    _m('compare-mismatch-as-not-eq', TC2, "    if l_explicit and r_explicit:\n      if l_type != r_type:", "    if l_explicit and r_explicit:\n      if not (l_type == r_type):"),
    _m('max-as-conditional', TC2, "      res_nbits = max( l_nbits, r_nbits )", "      res_nbits = l_nbits if l_nbits >= r_nbits else r_nbits"),
    _m('litwidth-len-bin', RDT, "    return value.bit_length()\n", "    return len(bin(value)) - 2\n"),
    _m('litwidth-special-case-as-membership', TC1, "    if -1 <= value <= 1:\n      return 1", "    if value in (-1, 0, 1):\n      return 1"),
    _m('litwidth-negative-as-invert', TC1, "      return (abs(value)-1).bit_length() + 1\n", "      return (~value).bit_length() + 1\n"),
    _m('truncation-test-mirrored', TC2, "        if explicit < implicit:\n          raise PyMTLTypeError( s.blk, node.ast,\n              f\"The explicitly sized side of operation",
       "        if implicit > explicit:\n          raise PyMTLTypeError( s.blk, node.ast,\n              f\"The explicitly sized side of operation"),
    _m('slice-bounds-as-disjunction', TC1, "      if not ( 0 <= lower_val < upper_val <= signal_nbits ):", "      if lower_val < 0 or upper_val > signal_nbits:"),
    _m('slice-order-check-covered-by-range-check', TC1, "      if ( lower_val >= upper_val ):", "      if ( lower_val > upper_val ):"),
    _m('index-width-bit-length', RDT, "      return ceil(log2(s.nbits))", "      return (s.nbits-1).bit_length()"),
    _m('local-renamed', TC1, "is_rhs_reinterpretable", "rhs_may_be_resized", count=2),
    _m('concat-plain-add', TC1, "      nbits += child.Type.get_dtype().get_length()", "      nbits = nbits + child.Type.get_dtype().get_length()"),
    _m('equal-implicit-widths-either-side', TC2, "        if l_nbits >= r_nbits:\n          target_nbits = l_nbits\n          op = node.right\n        else:\n          target_nbits = r_nbits\n          op = node.left\n",
       "        if l_nbits > r_nbits:\n          target_nbits = l_nbits\n          op = node.right\n        else:\n          target_nbits = r_nbits\n          op = node.left\n"),
    _m('assign-truncation-test-as-helper-vars', TC1, "      if isinstance( lhs_type, rdt.Vector ) and isinstance( rhs_type, rdt.Vector ) and \\\n         lhs_type.get_length() < rhs_type.get_length():",
       "      both_vectors = isinstance( lhs_type, rdt.Vector ) and isinstance( rhs_type, rdt.Vector )\n      if both_vectors and rhs_type.get_length() > lhs_type.get_length():"),
    _m('fold-mask-as-modulo', TC2, "        node._value = node._value & ((1 << res_nbits) - 1)", "        node._value = node._value % (1 << res_nbits)"),
]

LEVEL_TEXT = ("Static analysis by abstract interpretation of the type-checker source: every width-deciding handler of the most-derived "
              "RTLIR type checker (and the enforcer and rtype/rdt classes it calls) is interpreted over exhaustively enumerated "
              "abstract inputs -- explicit/implicit flags x order types of symbolic widths x constant/non-constant operands -- with "
              "integers carrying linear forms, and the accept/reject region, the re-sizing of implicit terms and the resulting width "
              "form are compared with the specification and with result widths extracted from PythonBits/helpers; literal and index "
              "width functions are folded on all power-of-two boundaries against their closed forms; operator tables and handler "
              "coverage are compared as tables. Decides the width rules for all programs at the level of the rules themselves "
              "(which example-based tests cannot); does not execute pymtl3.")
LEVEL_NOTE = ("Clauses, not the whole property: node-by-node agreement on concrete runs, array/interface/component indexing, "
              "struct assignment and non-constant loop bounds are not decided. Trusted: Python int semantics, faithfulness of the "
              "interpreted Python subset (unsupported constructs end in ANALYSIS-ERROR), get_rtlir(int)=Const(get_rtlir_dtype(int)).")
TECHNIQUE = ("abstract interpretation of ast (symbolic linear widths, order-type and Boolean enumeration), constant folding of pure "
             "integer functions on boundary sets, table extraction and sibling comparison, MRO-resolved handler exhaustiveness")
