"""C11 -- Combinational cycles settle on a fixed point or are reported.  (DESIGN.md section 4, C11)"""
import ast
import builtins

from sa.astutil import (norm, guards_of, walk_no_nested, always_exits, exit_kind, parent, preceding_stmts,
                        names_in, dotted)
from sa.c11_util import SrcBuilder, Sym, Paths, known_atoms, const_truth, key_mentions
from sa.errors import AnalysisError
from sa.loader import _set_parents
from sa.minieval import Evaluator
from sa.report import RuleResult

PID = 'C11'
DYN = 'pymtl3/passes/sim/DynamicSchedulePass.py'
MAMBA = 'pymtl3/passes/mamba/Mamba2020Pass.py'
SIMPLE = 'pymtl3/passes/sim/SimpleSchedulePass.py'
TICK = 'pymtl3/passes/sim/SimpleTickPass.py'
OPENLOOP = 'pymtl3/passes/autotick/OpenLoopCLPass.py'
ERRORS = 'pymtl3/dsl/errors.py'

HOST_REPRS = ['s', 's.sub_[1].q']               # modelled repr() of host components (top itself, a nested one)
VAR_SUFFIX = ['va', 'vb[2].fld', 'vc[0:4]']     # modelled member paths of watched signals below their host
WRAPPERS = {'sorted', 'list', 'tuple', 'reversed', 'set', 'frozenset', 'iter'}


# ---------------------------------------------------------------------------
# small helpers
def strip_wrappers(e):
    """sorted(X, key=..) / list(X) / reversed(X) ... -> X : wrappers that keep every element"""
    while isinstance(e, ast.Call) and isinstance(e.func, ast.Name) and e.func.id in WRAPPERS and e.args:
        e = e.args[0]
    return e


def mentions(e, name):
    return any(isinstance(n, ast.Name) and n.id == name for n in ast.walk(e))


def is_method_call(n, attr):
    return isinstance(n, ast.Call) and isinstance(n.func, ast.Attribute) and n.func.attr == attr


def inside(node, anc):
    p = node
    while p is not None:
        if p is anc:
            return True
        p = parent(p)
    return False


def assigned_values(func, name):
    """values of all simple assignments `name = expr` directly in func (not nested defs)"""
    out = []
    for n in walk_no_nested(func):
        if isinstance(n, ast.Assign):
            for t in n.targets:
                if isinstance(t, ast.Name) and t.id == name:
                    out.append(n.value)
                elif isinstance(t, (ast.Tuple, ast.List)) and isinstance(n.value, (ast.Tuple, ast.List)) \
                        and len(t.elts) == len(n.value.elts):
                    for te, ve in zip(t.elts, n.value.elts):
                        if isinstance(te, ast.Name) and te.id == name:
                            out.append(ve)
    return out


class Impl:
    """one implementation of the SCC super-block (Dynamic / Mamba): located pieces + partial evaluation"""
    def __init__(self, repo, name, rel, qual, outer_qual=None):
        self.repo, self.name, self.rel, self.qual = repo, name, rel, qual
        self.mod = repo.mod(rel)
        self.root = self.mod.get_func(qual)
        self.outer = self.mod.get_func(outer_qual) if outer_qual else self.root
        self._located = False
        self._emits = None
        self._gens = None

    # -- name resolution across the closure ------------------------------------
    def value_of(self, name):
        """the single value expression assigned to `name` in the root function or its enclosing function"""
        vals = assigned_values(self.root, name)
        if not vals and self.outer is not self.root:
            vals = assigned_values(self.outer, name)
        texts = {norm(v) for v in vals}
        if len(texts) == 1:
            return vals[0]
        return None

    def resolves_to_class(self, name, clsname, rel):
        r = self.repo.resolve(self.mod, name)
        return bool(r) and isinstance(r[1], ast.ClassDef) and r[1].name == clsname and r[0].rel == rel

    # -- locating the pieces -----------------------------------------------------
    def locate(self):
        if self._located:
            return
        root = self.root
        fors = [n for n in walk_no_nested(root) if isinstance(n, ast.For)]
        cands = [f for f in fors if any(is_method_call(c, 'get_top_level_signal')
                                        for s in f.body for c in walk_no_nested(s))]
        cands = [f for f in cands if not any(g is not f and inside(g, f) for g in cands)]
        if len(cands) != 1:
            raise AnalysisError(f"{self.qual}: cannot locate the reduction loop (get_top_level_signal) -- "
                                f"{len(cands)} candidates")
        self.red = red = cands[0]
        if not isinstance(red.target, ast.Name):
            raise AnalysisError(f"{self.qual}: reduction loop target is not a simple name")
        self.X = red.target.id
        recv = {c.func.value.id for s in red.body for c in walk_no_nested(s)
                if is_method_call(c, 'add') and isinstance(c.func.value, ast.Name)}
        if len(recv) != 1:
            raise AnalysisError(f"{self.qual}: reduction loop adds to {sorted(recv)}; expected one watch set")
        self.FV = recv.pop()
        core = strip_wrappers(red.iter)
        vnames = [n.id for n in ast.walk(core) if isinstance(n, ast.Name)]
        if not vnames:
            raise AnalysisError(f"{self.qual}: reduction loop iterates {norm(red.iter)}")
        self.VARS = core.id if isinstance(core, ast.Name) else vnames[0]
        self.red_iter_core = core
        # grouping loop: iterates FV, files each element under D[key]
        gl = [f for f in fors if mentions(f.iter, self.FV) and f is not red and not inside(f, red)]
        if len(gl) != 1:
            raise AnalysisError(f"{self.qual}: cannot locate the loop that groups the watch set by host ({len(gl)})")
        self.group = gl[0]
        dn = set()
        for s in self.group.body:
            for c in walk_no_nested(s):
                if isinstance(c, ast.Call) and isinstance(c.func, ast.Attribute) and c.func.attr in ('append', 'add') \
                        and isinstance(c.func.value, ast.Subscript) and isinstance(c.func.value.value, ast.Name):
                    dn.add(c.func.value.value.id)
        if len(dn) != 1:
            raise AnalysisError(f"{self.qual}: grouping loop files elements into {sorted(dn)}")
        self.D = dn.pop()
        # emission loops
        ol = [f for f in fors if mentions(f.iter, self.D) and f is not self.group and not inside(f, self.group)]
        ol = [f for f in ol if not any(g is not f and inside(f, g) for g in ol)]
        if len(ol) != 1:
            raise AnalysisError(f"{self.qual}: cannot locate the loop over the per-host groups ({len(ol)})")
        self.outer_loop = outer = ol[0]
        ocore = strip_wrappers(outer.iter)
        self.H = self.L = None
        if is_method_call(ocore, 'items') and isinstance(outer.target, (ast.Tuple, ast.List)) \
                and len(outer.target.elts) == 2 and all(isinstance(x, ast.Name) for x in outer.target.elts):
            self.H, self.L = outer.target.elts[0].id, outer.target.elts[1].id
            inner = [f for s in outer.body for f in walk_no_nested(s) if isinstance(f, ast.For) and mentions(f.iter, self.L)]
        elif isinstance(outer.target, ast.Name):
            self.H = outer.target.id
            inner = [f for s in outer.body for f in walk_no_nested(s) if isinstance(f, ast.For)
                     and mentions(f.iter, self.D) and mentions(f.iter, self.H)]
        else:
            raise AnalysisError(f"{self.qual}: loop over the host groups has an unexpected shape: {norm(outer.iter)}")
        if len(inner) != 1 or not isinstance(inner[0].target, ast.Name):
            raise AnalysisError(f"{self.qual}: cannot locate the per-variable emission loop")
        self.inner_loop = inner[0]
        self.V = inner[0].target.id
        self._located = True

    # -- partial evaluation of the generated source ---------------------------------
    def emits(self):
        if self._emits is None:
            self.locate()
            outer, inner, H, V = self.outer_loop, self.inner_loop, self.H, self.V

            def on_bind(b, st, name, value, loop, k):
                if not isinstance(value, Sym):
                    return
                if loop is outer and name == H:
                    b.repr_models[value.key] = HOST_REPRS[k % len(HOST_REPRS)]
                elif loop is inner and name == V:
                    h = st.lookup(H)
                    hr = b.repr_models.get(h.key) if isinstance(h, Sym) else None
                    if hr is not None:
                        b.repr_models[value.key] = hr + '.' + VAR_SUFFIX[k % len(VAR_SUFFIX)]
            self.builder = SrcBuilder(self.root, on_bind=on_bind)
            self._emits = self.builder.run_all()
            if not self._emits:
                raise AnalysisError(f"{self.qual}: partial evaluation found no generated source")
        return self._emits

    def gens(self):
        if self._gens is None:
            self._gens = [Gen(self, e) for e in self.emits()]
        return self._gens


def impls(repo):
    c = getattr(repo, '_c11_impls', None)
    if c is None:
        c = [Impl(repo, 'Dynamic', DYN, 'DynamicSchedulePass.schedule_intra_cycle'),
             Impl(repo, 'Mamba', MAMBA, 'Mamba2020Pass.schedule_intra_cycle.compile_scc',
                  'Mamba2020Pass.schedule_intra_cycle')]
        repo._c11_impls = c
    return c


# ---------------------------------------------------------------------------
# analysis of one generated super-block
def access_path(e, alias):
    if isinstance(e, ast.Name):
        return alias.get(e.id, e.id)
    if isinstance(e, ast.Attribute):
        b = access_path(e.value, alias)
        return None if b is None else b + '.' + e.attr
    if isinstance(e, ast.Subscript):
        b = access_path(e.value, alias)
        if b is None or any(isinstance(n, (ast.Name, ast.Call)) for n in ast.walk(e.slice)):
            return None
        return b + '[' + norm(e.slice) + ']'
    return None


def copy_of(v, alias):
    """('clone'|'deepcopy', access path) when v takes an independent copy of a live object"""
    if isinstance(v, ast.Call) and isinstance(v.func, ast.Attribute) and v.func.attr == 'clone' and not v.args:
        p = access_path(v.func.value, alias)
        return ('clone', p) if p is not None else None
    if isinstance(v, ast.Call) and (dotted(v.func) in ('deepcopy', 'copy.deepcopy')) and len(v.args) == 1:
        p = access_path(v.args[0], alias)
        return ('deepcopy', p) if p is not None else None
    return None


def is_block_call(st):
    return isinstance(st, ast.Expr) and isinstance(st.value, ast.Call) and norm(st.value.func) != 'print'


class Gen:
    """parsed generated source of one partial-evaluation variant and the facts derived from its paths"""
    def __init__(self, impl, emit):
        self.impl, self.emit = impl, emit
        self.problems = []        # (check, kind, construct, message)
        self.tree = self.F = None
        self.entry_names = []
        self.snapshots = []       # (temp, var, kind) in source order
        self.calls = []           # callee texts of the block calls, source order
        self.W = set()
        self.exit_paths = self.all_paths = 0
        self.bounds = []          # forced-termination iteration per while loop
        self.compared = set()
        try:
            self.tree = ast.parse(emit.src)
        except SyntaxError as ex:
            self.problems.append(('parse', 'syntax', emit.src.strip()[:120],
                                  f"generated super-block source does not compile: {ex.msg} (line {ex.lineno})"))
            self.label = 'unparsable variant'
            return
        _set_parents(self.tree)
        self._entry()
        if self.F is not None:
            self._static_facts()
            self._paths()
            self._bounded()
        self.label = self._label()

    def _label(self):
        kinds = '+'.join(k for _, _, k in self.snapshots) or 'none'
        hosts = len({v.rsplit('.', 1)[0] for _, v, _ in self.snapshots})
        return (f"{self.impl.name}: {len(self.snapshots)} snapshot(s) [{kinds}] on {hosts} host(s), "
                f"{len(self.calls)} block call(s) [{', '.join(self._callee_kind(c) for c in self.calls)}]")

    def _callee_kind(self, c):
        g = self.emit.globals if isinstance(self.emit.globals, dict) else {}
        v = g.get(c)
        if isinstance(v, Sym):
            k = v.key
            if k[0] == 'elem':
                return f"element {k[2]}"
            if k[0] == 'call' and isinstance(k[1], tuple) and k[1][0] == 'attr':
                return k[1][2]
        return c

    # T1: the function the pass retrieves after exec is the generated loop
    def _entry(self):
        func = self.emit.func
        la = self.emit.locals_arg
        keys = []
        if isinstance(la, ast.Name) and func is not None:
            for n in ast.walk(func):
                if isinstance(n, ast.Subscript) and isinstance(n.ctx, ast.Load) and isinstance(n.value, ast.Name) \
                        and n.value.id == la.id and isinstance(n.slice, ast.Constant) and isinstance(n.slice.value, str):
                    keys.append(n.slice.value)
        self.entry_names = keys
        top = {}
        for st in self.tree.body:
            if isinstance(st, ast.FunctionDef):
                top[st.name] = st
            elif isinstance(st, ast.Assign) and isinstance(st.value, ast.Name):
                for t in st.targets:
                    if isinstance(t, ast.Name):
                        top[t.id] = top.get(st.value.id)
        if not keys:
            self.problems.append(('parse', 'entry', norm(self.emit.call),
                                  "the pass never retrieves a function from the namespace it executed the generated "
                                  "source in"))
            return
        for k in keys:
            if top.get(k) is None:
                self.problems.append(('parse', 'entry', f"{norm(la)}['{k}']",
                                      f"the pass retrieves '{k}' after exec but the generated source does not bind "
                                      f"that name to the generated loop function"))
                return
        self.F = top[keys[0]]
        if self.F.args.args or self.F.args.kwonlyargs or self.F.args.vararg:
            self.problems.append(('parse', 'entry', self.F.name, "generated block takes arguments; schedule calls it "
                                                                  "without any"))

    def _static_facts(self):
        F = self.F
        self.calls = [norm(s.value.func) for s in ast.walk(F) if is_block_call(s)]
        self.whiles = [n for n in ast.walk(F) if isinstance(n, ast.While)]

    # T4 + snapshot pairing: interpret every bounded path
    def _paths(self):
        F = self.F
        paths = Paths(max_iter=2).block(F.body)
        self.all_paths = len(paths)
        all_calls = set(self.calls)
        records = []
        snaps_seen = {}
        for events, outcome in paths:
            alias, snap, est = {}, {}, set()
            ncalls = 0
            conds = []
            for ev in events:
                if ev[0] == 'stmt':
                    st = ev[1]
                    if isinstance(st, ast.Assign) and len(st.targets) == 1 and isinstance(st.targets[0], ast.Name):
                        t = st.targets[0].id
                        cp = copy_of(st.value, alias)
                        if cp is not None:
                            snap[t] = dict(var=cp[1], kind=cp[0], since=set())
                            alias.pop(t, None)
                            snaps_seen[(t, cp[1], cp[0])] = getattr(st, 'lineno', 0)
                        else:
                            snap.pop(t, None)
                            p = access_path(st.value, alias)
                            if p is not None:
                                alias[t] = p
                            else:
                                alias.pop(t, None)
                    elif is_block_call(st):
                        ncalls += 1
                        callee = norm(st.value.func)
                        for s in snap.values():
                            s['since'].add(callee)
                        est = set()
                    else:
                        for n in ast.walk(st):
                            if isinstance(n, ast.Name) and isinstance(n.ctx, ast.Store):
                                alias.pop(n.id, None)
                                snap.pop(n.id, None)
                elif ev[0] == 'branch':
                    test, taken = ev[1], ev[2]
                    conds.append((norm(test), taken))
                    for atom, truth in known_atoms(test, taken):
                        self._atom(atom, truth, alias, snap, est, all_calls)
                    # atoms whose truth is not implied are still inspected for pairing anomalies
                    for atom in _all_atoms(test):
                        self._atom(atom, None, alias, snap, est, all_calls)
            if outcome in ('fall', 'return'):
                records.append((ncalls, set(est), conds))
        self.snapshots = [k for k, _ in sorted(snaps_seen.items(), key=lambda kv: kv[1])]
        self.W = {v for _, v, _ in self.snapshots}
        self.exit_paths = len(records)
        if not self.W:
            self.problems.append(('watch', 'nosnap', self.F.name,
                                  "generated super-block takes no snapshot (copy) of any watched variable: stability "
                                  "of the cycle is never tested"))
        if not records:
            self.problems.append(('exit', 'noexit', self.F.name,
                                  "generated loop has no normal exit: even a cycle that has settled is iterated until "
                                  "the error is raised"))
        for ncalls, est, conds in records:
            cdesc = ' ; '.join(f"{c} is {t}" for c, t in conds[-4:])
            if ncalls == 0 and self.calls:
                self.problems.append(('exit', 'nocall', cdesc or 'straight-line',
                                      "generated block can return without having run the blocks of the cycle"))
                continue
            missing = sorted(self.W - est)
            if missing:
                self.problems.append(('exit', 'unstable', cdesc,
                                      f"generated block can return although {', '.join(missing)} was not shown unchanged "
                                      f"over a complete pass of the cycle (path: {cdesc}) -- an unstable state is returned"))
        if not self.calls:
            self.problems.append(('exit', 'nocalls', self.F.name, "generated loop runs no block of the cycle"))

    def _atom(self, atom, truth, alias, snap, est, all_calls):
        if not (isinstance(atom, ast.Compare) and len(atom.ops) == 1):
            return
        op = atom.ops[0]
        l, r = atom.left, atom.comparators[0]
        lt = isinstance(l, ast.Name) and l.id in snap
        rt = isinstance(r, ast.Name) and r.id in snap
        pl, pr = access_path(l, alias), access_path(r, alias)
        if not lt and not rt:
            if pl is not None and pl == pr and isinstance(op, (ast.Eq, ast.NotEq, ast.Is, ast.IsNot)) \
                    and norm(l) != norm(r):
                self.problems.append(('watch', 'alias', norm(atom),
                                      f"`{norm(atom)}` compares {pl} with itself: the snapshot is an alias of the live "
                                      f"signal, not a copy, so a change is never seen"))
            return
        if lt and rt:
            return
        t, p = (l.id, pr) if lt else (r.id, pl)
        if p is None:
            return
        s = snap[t]
        self.compared.add((p, t))
        if p != s['var']:
            self.problems.append(('watch', 'mismatch', norm(atom),
                                  f"`{norm(atom)}` compares {p} with {t}, which holds the snapshot of {s['var']}"))
            return
        if truth is None:
            return
        if isinstance(op, (ast.Is, ast.IsNot)):
            self.problems.append(('watch', 'identity', norm(atom),
                                  f"`{norm(atom)}` compares identity with a copy: always different, the loop can never "
                                  f"see a stable value"))
            return
        equal = (isinstance(op, ast.Eq) and truth) or (isinstance(op, ast.NotEq) and not truth)
        if equal and s['since'] >= all_calls and all_calls:
            est.add(p)

    # T3: every while loop is left after a bounded number of iterations
    def _bounded(self):
        for lp in self.whiles:
            if const_truth(lp.test) is False:
                continue
            b, why = loop_bound(self.F, lp)
            if b is None:
                self.problems.append(('bounded', 'unbounded', f"while {norm(lp.test)}",
                                      f"no iteration bound: {why} -- a cycle that never settles hangs the simulator"))
            else:
                self.bounds.append(b)
                if b < 3:
                    self.problems.append(('bounded', 'toosmall', f"while {norm(lp.test)}",
                                          f"the error is forced in iteration {b}: a second pass can never confirm that "
                                          f"the first one reached the fixed point"))

    def raises(self):
        return [n for n in ast.walk(self.F) if isinstance(n, ast.Raise)] if self.F is not None else []

    def probs(self, check):
        seen, out = set(), []
        for c, kind, cons, msg in self.problems:
            if c == check and (kind, cons) not in seen:
                seen.add((kind, cons))
                out.append((kind, cons, msg))
        return out


def _all_atoms(test):
    if isinstance(test, ast.BoolOp):
        for v in test.values:
            yield from _all_atoms(v)
    elif isinstance(test, ast.UnaryOp) and isinstance(test.op, ast.Not):
        yield from _all_atoms(test.operand)
    else:
        yield test


def loop_bound(F, lp, limit=5000):
    """Iteration (1-based) in which leaving `lp` is forced, derived from a counter that is initialised to a
    constant before the loop, stepped by a positive constant on every continuing path and tested against
    constants; (None, reason) when no such ranking argument exists."""
    body_paths = Paths(max_iter=1).block(lp.body)
    cont = [ev for ev, out in body_paths if out in ('fall', 'continue')]
    if not cont:
        return 1, ''
    cands = []
    for n in ast.walk(lp):
        if isinstance(n, ast.AugAssign) and isinstance(n.target, ast.Name) and isinstance(n.op, ast.Add) \
                and isinstance(n.value, ast.Constant) and isinstance(n.value.value, int) and n.value.value > 0:
            if n.target.id not in cands:
                cands.append(n.target.id)
    if not cands:
        return None, "no counter is incremented in the loop"
    why = "no counter with a constant initial value and a test that forces an exit"
    for N in cands:
        init = None
        for st in preceding_stmts(lp):
            if isinstance(st, ast.Assign) and any(isinstance(t, ast.Name) and t.id == N for t in st.targets):
                init = st.value.value if isinstance(st.value, ast.Constant) and isinstance(st.value.value, int) \
                    and not isinstance(st.value.value, bool) else None
            elif any(isinstance(x, ast.Name) and x.id == N and isinstance(x.ctx, ast.Store) for x in ast.walk(st)):
                init = None
        if init is None:
            why = f"counter {N} has no constant initial value before the loop"
            continue
        worst = 0
        ok = True
        for events in cont:
            tests = [e for e in events if e[0] == 'branch' and names_in(e[1]) == {N}]
            if isinstance(lp, ast.While) and names_in(lp.test) == {N}:
                pass
            if not tests:
                ok, why = False, f"a path through the loop body never tests the counter {N}"
                break
            n, forced = init, None
            for it in range(1, limit + 1):
                for e in events:
                    if e[0] == 'stmt':
                        st = e[1]
                        if isinstance(st, ast.AugAssign) and isinstance(st.target, ast.Name) and st.target.id == N:
                            if isinstance(st.op, ast.Add) and isinstance(st.value, ast.Constant) \
                                    and isinstance(st.value.value, int):
                                n += st.value.value
                            else:
                                ok, why = False, f"counter {N} is modified by `{norm(st)}`"
                        elif any(isinstance(x, ast.Name) and x.id == N and isinstance(x.ctx, ast.Store)
                                 for x in ast.walk(st)):
                            ok, why = False, f"counter {N} is re-assigned by `{norm(st)}` inside the loop"
                    elif e[0] == 'branch' and names_in(e[1]) == {N}:
                        try:
                            val = bool(Evaluator({N: n}, arith=True).ev(e[1]))
                        except AnalysisError:
                            ok, why = False, f"counter test `{norm(e[1])}` is outside the evaluated vocabulary"
                            break
                        if val != e[2]:
                            # this continuing path is impossible now: the other side of the test is taken
                            if _other_side_leaves(e[1], e[2]):
                                forced = it
                            else:
                                ok, why = False, (f"when `{norm(e[1])}` becomes {val} the loop is not left "
                                                  f"(no raise/break/return on that side)")
                            break
                    if not ok:
                        break
                if forced is not None or not ok:
                    break
            if not ok:
                break
            if forced is None:
                ok, why = False, f"counter test never forces an exit within {limit} iterations"
                break
            worst = max(worst, forced)
        if ok:
            return worst, ''
    return None, why


def _other_side_leaves(test, taken):
    """the side of the test that is NOT `taken` always leaves the loop (raise/return/break)"""
    p = parent(test)
    while p is not None and not isinstance(p, (ast.If, ast.While)):
        p = parent(p)
    if isinstance(p, ast.While):
        return taken is True       # test false => loop exits
    if not isinstance(p, ast.If):
        return False
    blk = p.orelse if taken else p.body
    return bool(blk) and always_exits(blk) and 'continue' not in exit_kind(blk)
