"""C11 -- Combinational cycles settle on a fixed point or are reported.  (DESIGN.md section 4, C11)"""
import ast
import builtins

from sa.astutil import (enclosing, norm, guards_of, walk_no_nested, always_exits, exit_kind, parent, preceding_stmts,
                        names_in, dotted)
from sa.c11_util import SrcBuilder, Sym, Paths, known_atoms, const_truth
from sa.errors import AnalysisError
from sa.loader import _set_parents
from sa.minieval import Evaluator
from sa.report import RuleResult

PID = 'C11'
DYN = 'pymtl3/passes/sim/DynamicSchedulePass.py'
MAMBA = 'pymtl3/passes/mamba/Mamba2020Pass.py'
SIMPLE = 'pymtl3/passes/sim/SimpleSchedulePass.py'
TICK = 'pymtl3/passes/sim/SimpleTickPass.py'
GENDAG = 'pymtl3/passes/sim/GenDAGPass.py'
GREENLET = 'pymtl3/passes/sim/WrapGreenletPass.py'
OPENLOOP = 'pymtl3/passes/autotick/OpenLoopCLPass.py'
ERRORS = 'pymtl3/dsl/errors.py'

HOST_REPRS = ['s', 's.sub_[1].q']               # modelled repr() of host components (top itself, a nested one)
VAR_SUFFIX = ['va', 'vb[2].fld', 'vc[0:4]']     # modelled member paths of watched signals below their host
WRAPPERS = {'sorted', 'list', 'tuple', 'reversed', 'set', 'frozenset', 'iter'}


# ---------------------------------------------------------------------------
# small helpers
def _floor(r, n):
    """instance floor against vacuous passes; a rule that already reports findings (e.g. a generated source that
    no longer compiles yields fewer analysable instances) keeps its findings instead of turning into an error"""
    if r.findings:
        r.floor = n
    else:
        r.require_floor(n)


def strip_wrappers(e):
    """sorted(X, key=..) / list(X) / reversed(X) ... -> X : wrappers that keep every element"""
    while isinstance(e, ast.Call) and isinstance(e.func, ast.Name) and e.func.id in WRAPPERS and e.args:
        e = e.args[0]
    return e


def mentions(e, name):
    return any(isinstance(n, ast.Name) and n.id == name for n in ast.walk(e))


def is_method_call(n, attr):
    return isinstance(n, ast.Call) and isinstance(n.func, ast.Attribute) and n.func.attr == attr


def inside(node, anc):
    p = node
    while p is not None:
        if p is anc:
            return True
        p = parent(p)
    return False


def assigned_values(func, name):
    """values of all simple assignments `name = expr` directly in func (not nested defs)"""
    out = []
    for n in walk_no_nested(func):
        if isinstance(n, ast.Assign):
            for t in n.targets:
                if isinstance(t, ast.Name) and t.id == name:
                    out.append(n.value)
                elif isinstance(t, (ast.Tuple, ast.List)) and isinstance(n.value, (ast.Tuple, ast.List)) \
                        and len(t.elts) == len(n.value.elts):
                    for te, ve in zip(t.elts, n.value.elts):
                        if isinstance(te, ast.Name) and te.id == name:
                            out.append(ve)
    return out


class Impl:
    """one implementation of the SCC super-block (Dynamic / Mamba): located pieces + partial evaluation"""
    def __init__(self, repo, name, rel, qual, outer_qual=None):
        self.repo, self.name, self.rel, self.qual = repo, name, rel, qual
        self.mod = repo.mod(rel)
        self.root = self.mod.get_func(qual)
        self.outer = self.mod.get_func(outer_qual) if outer_qual else self.root
        self._located = False
        self.scc_name = None
        self._collected = False
        self._emits = None
        self._gens = None

    # -- name resolution across the closure ------------------------------------
    def value_of(self, name):
        """the single value expression assigned to `name` in the root function or its enclosing function"""
        vals = assigned_values(self.root, name)
        if not vals and self.outer is not self.root:
            vals = assigned_values(self.outer, name)
        texts = {norm(v) for v in vals}
        if len(texts) == 1:
            return vals[0]
        return None

    def resolves_to_class(self, name, clsname, rel):
        r = self.repo.resolve(self.mod, name)
        return bool(r) and isinstance(r[1], ast.ClassDef) and r[1].name == clsname and r[0].rel == rel

    # -- locating the pieces -----------------------------------------------------
    def locate(self):
        if self._located:
            return
        root = self.root
        fors = [n for n in walk_no_nested(root) if isinstance(n, ast.For)]
        cands = [f for f in fors if any(is_method_call(c, 'get_top_level_signal')
                                        for s in f.body for c in walk_no_nested(s))]
        cands = [f for f in cands if not any(g is not f and inside(g, f) for g in cands)]
        if len(cands) != 1:
            raise AnalysisError(f"{self.qual}: cannot locate the reduction loop (get_top_level_signal) -- "
                                f"{len(cands)} candidates")
        self.red = red = cands[0]
        if not isinstance(red.target, ast.Name):
            raise AnalysisError(f"{self.qual}: reduction loop target is not a simple name")
        self.X = red.target.id
        recv = {c.func.value.id for s in red.body for c in walk_no_nested(s)
                if is_method_call(c, 'add') and isinstance(c.func.value, ast.Name)}
        if not recv:
            raise AnalysisError(f"{self.qual}: reduction loop adds to no set")
        self.red_sets = sorted(recv)
        # the watch set is the one the per-host grouping iterates; the others are auxiliary book-keeping sets
        used = [nm for nm in self.red_sets
                if any(mentions(f.iter, nm) and f is not red and not inside(f, red) for f in fors)]
        if len(used) != 1:
            raise AnalysisError(f"{self.qual}: reduction loop adds to {sorted(recv)}; cannot tell which one is the watch set "
                                f"(iterated afterwards: {used})")
        self.FV = used[0]
        core = strip_wrappers(red.iter)
        vnames = [n.id for n in ast.walk(core) if isinstance(n, ast.Name) and n.id not in WRAPPERS
                  and n.id not in dir(builtins)]
        if not vnames:
            raise AnalysisError(f"{self.qual}: reduction loop iterates {norm(red.iter)}")
        self.VARS = core.id if isinstance(core, ast.Name) else vnames[0]
        self.red_iter_core = core
        # grouping loop: iterates FV, files each element under D[key]
        gl = [f for f in fors if mentions(f.iter, self.FV) and f is not red and not inside(f, red)]
        if len(gl) != 1:
            raise AnalysisError(f"{self.qual}: cannot locate the loop that groups the watch set by host ({len(gl)})")
        self.group = gl[0]
        dn = set()
        for s in self.group.body:
            for c in walk_no_nested(s):
                if isinstance(c, ast.Call) and isinstance(c.func, ast.Attribute) and c.func.attr in ('append', 'add') \
                        and isinstance(c.func.value, ast.Subscript) and isinstance(c.func.value.value, ast.Name):
                    dn.add(c.func.value.value.id)
        if len(dn) != 1:
            raise AnalysisError(f"{self.qual}: grouping loop files elements into {sorted(dn)}")
        self.D = dn.pop()
        # emission loops
        ol = [f for f in fors if mentions(f.iter, self.D) and f is not self.group and not inside(f, self.group)]
        ol = [f for f in ol if not any(g is not f and inside(f, g) for g in ol)]
        if len(ol) != 1:
            raise AnalysisError(f"{self.qual}: cannot locate the loop over the per-host groups ({len(ol)})")
        self.outer_loop = outer = ol[0]
        ocore = strip_wrappers(outer.iter)
        self.H = self.L = None
        if is_method_call(ocore, 'items') and isinstance(outer.target, (ast.Tuple, ast.List)) \
                and len(outer.target.elts) == 2 and all(isinstance(x, ast.Name) for x in outer.target.elts):
            self.H, self.L = outer.target.elts[0].id, outer.target.elts[1].id
            inner = [f for s in outer.body for f in walk_no_nested(s) if isinstance(f, ast.For) and mentions(f.iter, self.L)]
        elif isinstance(outer.target, ast.Name):
            self.H = outer.target.id
            inner = [f for s in outer.body for f in walk_no_nested(s) if isinstance(f, ast.For)
                     and mentions(f.iter, self.D) and mentions(f.iter, self.H)]
        else:
            raise AnalysisError(f"{self.qual}: loop over the host groups has an unexpected shape: {norm(outer.iter)}")
        if len(inner) != 1:
            raise AnalysisError(f"{self.qual}: cannot locate the per-variable emission loop")
        self.inner_loop = inner[0]
        it = strip_wrappers(inner[0].iter)
        pair = inner[0].target.elts if isinstance(inner[0].target, (ast.Tuple, ast.List)) else None
        if isinstance(inner[0].target, ast.Name):
            self.V = inner[0].target.id
        elif isinstance(it, ast.Call) and norm(it.func) == 'enumerate' and pair and len(pair) == 2 \
                and isinstance(pair[1], ast.Name):
            self.V = pair[1].id
        else:
            raise AnalysisError(f"{self.qual}: per-variable emission loop has target {norm(inner[0].target)}")
        self._located = True

    # -- partial evaluation of the generated source ---------------------------------
    def emits(self):
        if self._emits is None:
            self.locate()
            outer, inner, H, V = self.outer_loop, self.inner_loop, self.H, self.V

            def on_bind(b, st, name, value, loop, k):
                if not isinstance(value, Sym):
                    return
                if loop is outer and name == H:
                    b.repr_models[value.key] = HOST_REPRS[k % len(HOST_REPRS)]
                elif loop is inner and name == V:
                    h = st.lookup(H)
                    hr = b.repr_models.get(h.key) if isinstance(h, Sym) else None
                    if hr is not None:
                        b.repr_models[value.key] = hr + '.' + VAR_SUFFIX[k % len(VAR_SUFFIX)]
            self.builder = SrcBuilder(self.root, on_bind=on_bind)
            def block_loop(node):
                # loops that emit one call per block / per part: `for i, b in enumerate(...)` -- also unrolled 3 times
                it = strip_wrappers(node.iter) if isinstance(node, ast.For) else None
                return isinstance(it, ast.Call) and norm(it.func) == 'enumerate' and node is not inner and node is not outer
            self._emits = self.builder.run_all(triple=block_loop)
            if not self._emits:
                raise AnalysisError(f"{self.qual}: partial evaluation found no generated source")
        return self._emits

    def gens(self):
        if self._gens is None:
            self._gens = [Gen(self, e) for e in self.emits()]
        return self._gens


def impls(repo):
    c = getattr(repo, '_c11_impls', None)
    if c is None:
        c = [Impl(repo, 'Dynamic', DYN, 'DynamicSchedulePass.schedule_intra_cycle'),
             Impl(repo, 'Mamba', MAMBA, 'Mamba2020Pass.schedule_intra_cycle.compile_scc',
                  'Mamba2020Pass.schedule_intra_cycle')]
        repo._c11_impls = c
    return c


# ---------------------------------------------------------------------------
# analysis of one generated super-block
def access_path(e, alias):
    if isinstance(e, ast.Name):
        return alias.get(e.id, e.id)
    if isinstance(e, ast.Attribute):
        b = access_path(e.value, alias)
        return None if b is None else b + '.' + e.attr
    if isinstance(e, ast.Subscript):
        b = access_path(e.value, alias)
        if b is None or any(isinstance(n, (ast.Name, ast.Call)) for n in ast.walk(e.slice)):
            return None
        return b + '[' + norm(e.slice) + ']'
    return None


def copy_of(v, alias):
    """('clone'|'deepcopy', access path) when v takes an independent copy of a live object"""
    if isinstance(v, ast.Call) and isinstance(v.func, ast.Attribute) and v.func.attr == 'clone' and not v.args:
        p = access_path(v.func.value, alias)
        return ('clone', p) if p is not None else None
    if isinstance(v, ast.Call) and (dotted(v.func) in ('deepcopy', 'copy.deepcopy')) and len(v.args) == 1:
        p = access_path(v.args[0], alias)
        return ('deepcopy', p) if p is not None else None
    return None


def is_block_call(st):
    return isinstance(st, ast.Expr) and isinstance(st.value, ast.Call) and norm(st.value.func) != 'print'


class Gen:
    """parsed generated source of one partial-evaluation variant and the facts derived from its paths"""
    def __init__(self, impl, emit):
        self.impl, self.emit = impl, emit
        self.problems = []        # (check, kind, construct, message)
        self.tree = self.F = None
        self.entry_names = []
        self.snapshots = []       # (temp, var, kind) in source order
        self.calls = []           # callee texts of the block calls, source order
        self.W = set()
        self.exit_paths = self.all_paths = 0
        self.bounds = []          # forced-termination iteration per while loop
        self.compared = set()
        try:
            self.tree = ast.parse(emit.src)
        except SyntaxError as ex:
            self.problems.append(('parse', 'syntax', emit.src.strip()[:120],
                                  f"generated super-block source does not compile: {ex.msg} (line {ex.lineno})"))
            self.label = 'unparsable variant'
            return
        _set_parents(self.tree)
        self._entry()
        if self.F is not None:
            self._static_facts()
            self._paths()
            self._bounded()
        self.label = self._label()

    def _label(self):
        kinds = '+'.join(k for _, _, k in self.snapshots) or 'none'
        hosts = len({max((h for h in HOST_REPRS if v.startswith(h + '.')), key=len, default='?')
                     for _, v, _ in self.snapshots})
        return (f"{self.impl.name}: {len(self.snapshots)} snapshot(s) [{kinds}] on {hosts} host(s), "
                f"{len(self.calls)} block call(s) [{', '.join(self._callee_kind(c) for c in self.calls)}]")

    def _callee_kind(self, c):
        g = self.emit.globals if isinstance(self.emit.globals, dict) else {}
        v = g.get(c)
        if isinstance(v, Sym):
            k = v.key
            if k[0] == 'elem':
                return f"element {k[2]}"
            if k[0] == 'call' and isinstance(k[1], tuple) and k[1][0] == 'attr':
                return k[1][2]
        return c

    # T1: the function the pass retrieves after exec is the generated loop
    def _entry(self):
        func = self.emit.func
        la = self.emit.locals_arg
        keys = []
        if isinstance(la, ast.Name) and func is not None:
            for n in ast.walk(func):
                if isinstance(n, ast.Subscript) and isinstance(n.ctx, ast.Load) and isinstance(n.value, ast.Name) \
                        and n.value.id == la.id and isinstance(n.slice, ast.Constant) and isinstance(n.slice.value, str):
                    keys.append(n.slice.value)
        self.entry_names = keys
        top = {}
        for st in self.tree.body:
            if isinstance(st, ast.FunctionDef):
                top[st.name] = st
            elif isinstance(st, ast.Assign) and isinstance(st.value, ast.Name):
                for t in st.targets:
                    if isinstance(t, ast.Name):
                        top[t.id] = top.get(st.value.id)
        if not keys:
            self.problems.append(('parse', 'entry', norm(self.emit.call),
                                  "the pass never retrieves a function from the namespace it executed the generated "
                                  "source in"))
            return
        for k in keys:
            if top.get(k) is None:
                self.problems.append(('parse', 'entry', f"{norm(la)}['{k}']",
                                      f"the pass retrieves '{k}' after exec but the generated source does not bind "
                                      f"that name to the generated loop function"))
                return
        self.F = top[keys[0]]
        if self.F.args.args or self.F.args.kwonlyargs or self.F.args.vararg:
            self.problems.append(('parse', 'entry', self.F.name, "generated block takes arguments; schedule calls it "
                                                                  "without any"))

    def _static_facts(self):
        F = self.F
        self.calls = [norm(s.value.func) for s in ast.walk(F) if is_block_call(s)]
        self.whiles = [n for n in ast.walk(F) if isinstance(n, ast.While)]

    # T4 + snapshot pairing: interpret every bounded path
    def _paths(self):
        F = self.F
        paths = Paths(max_iter=2).block(F.body)
        self.all_paths = len(paths)
        all_calls = set(self.calls)
        records = []
        snaps_seen = {}
        for events, outcome in paths:
            alias, snap, est = {}, {}, set()
            ncalls = 0
            conds = []
            for ev in events:
                if ev[0] == 'stmt':
                    st = ev[1]
                    if isinstance(st, ast.Assign) and len(st.targets) == 1 and isinstance(st.targets[0], ast.Name):
                        t = st.targets[0].id
                        cp = copy_of(st.value, alias)
                        if cp is not None:
                            snap[t] = dict(var=cp[1], kind=cp[0], since=set())
                            alias.pop(t, None)
                            snaps_seen[(t, cp[1], cp[0])] = getattr(st, 'lineno', 0)
                        else:
                            snap.pop(t, None)
                            p = access_path(st.value, alias)
                            if p is not None:
                                alias[t] = p
                            else:
                                alias.pop(t, None)
                    elif is_block_call(st):
                        ncalls += 1
                        callee = norm(st.value.func)
                        for s in snap.values():
                            s['since'].add(callee)
                        est = set()
                    else:
                        for n in ast.walk(st):
                            if isinstance(n, ast.Name) and isinstance(n.ctx, ast.Store):
                                alias.pop(n.id, None)
                                snap.pop(n.id, None)
                elif ev[0] == 'branch':
                    test, taken = ev[1], ev[2]
                    conds.append((norm(test), taken))
                    for atom, truth in known_atoms(test, taken):
                        self._atom(atom, truth, alias, snap, est, all_calls)
                    # atoms whose truth is not implied are still inspected for pairing anomalies
                    for atom in _all_atoms(test):
                        self._atom(atom, None, alias, snap, est, all_calls)
            if outcome in ('fall', 'return'):
                records.append((ncalls, set(est), conds))
        self.snapshots = [k for k, _ in sorted(snaps_seen.items(), key=lambda kv: kv[1])]
        self.W = {v for _, v, _ in self.snapshots}
        self.exit_paths = len(records)
        if not self.W:
            self.problems.append(('watch', 'nosnap', self.F.name,
                                  "generated super-block takes no snapshot (copy) of any watched variable: stability "
                                  "of the cycle is never tested"))
        if not records:
            self.problems.append(('exit', 'noexit', self.F.name,
                                  "generated loop has no normal exit: even a cycle that has settled is iterated until "
                                  "the error is raised"))
        for ncalls, est, conds in records:
            cdesc = ' ; '.join(f"{c} is {t}" for c, t in conds[-4:])
            if ncalls == 0 and self.calls:
                self.problems.append(('exit', 'nocall', cdesc or 'straight-line',
                                      "generated block can return without having run the blocks of the cycle"))
                continue
            missing = sorted(self.W - est)
            if missing:
                self.problems.append(('exit', 'unstable', cdesc,
                                      f"generated block can return although {', '.join(missing)} was not shown unchanged "
                                      f"over a complete pass of the cycle (path: {cdesc}) -- an unstable state is returned"))
        if not self.calls:
            self.problems.append(('exit', 'nocalls', self.F.name, "generated loop runs no block of the cycle"))

    def _atom(self, atom, truth, alias, snap, est, all_calls):
        if not (isinstance(atom, ast.Compare) and len(atom.ops) == 1):
            return
        op = atom.ops[0]
        l, r = atom.left, atom.comparators[0]
        lt = isinstance(l, ast.Name) and l.id in snap
        rt = isinstance(r, ast.Name) and r.id in snap
        pl, pr = access_path(l, alias), access_path(r, alias)
        if not lt and not rt:
            if pl is not None and pl == pr and isinstance(op, (ast.Eq, ast.NotEq, ast.Is, ast.IsNot)) \
                    and norm(l) != norm(r):
                self.problems.append(('watch', 'alias', norm(atom),
                                      f"`{norm(atom)}` compares {pl} with itself: the snapshot is an alias of the live "
                                      f"signal, not a copy, so a change is never seen"))
            return
        if lt and rt:
            return
        t, p = (l.id, pr) if lt else (r.id, pl)
        if p is None:
            return
        s = snap[t]
        self.compared.add((p, t))
        if p != s['var']:
            self.problems.append(('watch', 'mismatch', norm(atom),
                                  f"`{norm(atom)}` compares {p} with {t}, which holds the snapshot of {s['var']}"))
            return
        if truth is None:
            return
        if isinstance(op, (ast.Is, ast.IsNot)):
            self.problems.append(('watch', 'identity', norm(atom),
                                  f"`{norm(atom)}` compares identity with a copy: always different, the loop can never "
                                  f"see a stable value"))
            return
        equal = (isinstance(op, ast.Eq) and truth) or (isinstance(op, ast.NotEq) and not truth)
        if equal and s['since'] >= all_calls and all_calls:
            est.add(p)

    # T3: every while loop is left after a bounded number of iterations
    def _bounded(self):
        for lp in [n for n in ast.walk(self.F) if isinstance(n, ast.For)]:
            it = lp.iter
            if isinstance(it, ast.Call) and norm(it.func) == 'range' and len(it.args) == 1 \
                    and isinstance(it.args[0], ast.Constant) and isinstance(it.args[0].value, int) \
                    and any(is_block_call(x) for x in ast.walk(lp)):
                # K passes at most; leaving by exhaustion is judged by the exit rule (must raise)
                self.bounds.append(it.args[0].value + 1)
        for lp in self.whiles:
            if const_truth(lp.test) is False:
                continue
            b, why = loop_bound(self.F, lp)
            if b is None:
                self.problems.append(('bounded', 'unbounded', f"while {norm(lp.test)}",
                                      f"no iteration bound: {why} -- a cycle that never settles hangs the simulator"))
            else:
                self.bounds.append(b)
                if b < 3:
                    self.problems.append(('bounded', 'toosmall', f"while {norm(lp.test)}",
                                          f"the error is forced in iteration {b}: a second pass can never confirm that "
                                          f"the first one reached the fixed point"))

    def raises(self):
        return [n for n in ast.walk(self.F) if isinstance(n, ast.Raise)] if self.F is not None else []

    def probs(self, check):
        seen, out = set(), []
        for c, kind, cons, msg in self.problems:
            if c == check and (kind, cons) not in seen:
                seen.add((kind, cons))
                out.append((kind, cons, msg))
        return out


def _all_atoms(test):
    if isinstance(test, ast.BoolOp):
        for v in test.values:
            yield from _all_atoms(v)
    elif isinstance(test, ast.UnaryOp) and isinstance(test.op, ast.Not):
        yield from _all_atoms(test.operand)
    else:
        yield test


def loop_bound(F, lp, limit=5000):
    """Iteration (1-based) in which leaving `lp` is forced, derived from a counter that is initialised to a
    constant before the loop, stepped by a positive constant on every continuing path and tested against
    constants; (None, reason) when no such ranking argument exists."""
    body_paths = Paths(max_iter=1).block(lp.body)
    cont = [ev for ev, out in body_paths if out in ('fall', 'continue')]
    if not cont:
        return 1, ''
    cands = []
    for n in ast.walk(lp):
        if isinstance(n, ast.AugAssign) and isinstance(n.target, ast.Name) and isinstance(n.op, ast.Add) \
                and isinstance(n.value, ast.Constant) and isinstance(n.value.value, int) and n.value.value > 0:
            if n.target.id not in cands:
                cands.append(n.target.id)
    if not cands:
        return None, "no counter is incremented in the loop"
    why = "no counter with a constant initial value and a test that forces an exit"
    for N in cands:
        init = None
        for st in preceding_stmts(lp):
            if isinstance(st, ast.Assign) and any(isinstance(t, ast.Name) and t.id == N for t in st.targets):
                init = st.value.value if isinstance(st.value, ast.Constant) and isinstance(st.value.value, int) \
                    and not isinstance(st.value.value, bool) else None
            elif any(isinstance(x, ast.Name) and x.id == N and isinstance(x.ctx, ast.Store) for x in ast.walk(st)):
                init = None
        if init is None:
            why = f"counter {N} has no constant initial value before the loop"
            continue
        worst = 0
        ok = True
        for events in cont:
            tests = [e for e in events if e[0] == 'branch' and names_in(e[1]) == {N}]
            if isinstance(lp, ast.While) and names_in(lp.test) == {N}:
                pass
            if not tests:
                ok, why = False, f"a path through the loop body never tests the counter {N}"
                break
            n, forced = init, None
            for it in range(1, limit + 1):
                for e in events:
                    if e[0] == 'stmt':
                        st = e[1]
                        if isinstance(st, ast.AugAssign) and isinstance(st.target, ast.Name) and st.target.id == N:
                            if isinstance(st.op, ast.Add) and isinstance(st.value, ast.Constant) \
                                    and isinstance(st.value.value, int):
                                n += st.value.value
                            else:
                                ok, why = False, f"counter {N} is modified by `{norm(st)}`"
                        elif any(isinstance(x, ast.Name) and x.id == N and isinstance(x.ctx, ast.Store)
                                 for x in ast.walk(st)):
                            ok, why = False, f"counter {N} is re-assigned by `{norm(st)}` inside the loop"
                    elif e[0] == 'branch' and names_in(e[1]) == {N}:
                        try:
                            val = bool(Evaluator({N: n}, arith=True).ev(e[1]))
                        except AnalysisError:
                            ok, why = False, f"counter test `{norm(e[1])}` is outside the evaluated vocabulary"
                            break
                        if val != e[2]:
                            # this continuing path is impossible now: the other side of the test is taken
                            if _other_side_leaves(e[1], e[2]):
                                forced = it
                            else:
                                ok, why = False, (f"when `{norm(e[1])}` becomes {val} the loop is not left "
                                                  f"(no raise/break/return on that side)")
                            break
                    if not ok:
                        break
                if forced is not None or not ok:
                    break
            if not ok:
                break
            if forced is None:
                ok, why = False, f"counter test never forces an exit within {limit} iterations"
                break
            worst = max(worst, forced)
        if ok:
            return worst, ''
    return None, why


def _other_side_leaves(test, taken):
    """the side of the test that is NOT `taken` always leaves the loop (raise/return/break)"""
    p = parent(test)
    while p is not None and not isinstance(p, (ast.If, ast.While)):
        p = parent(p)
    if isinstance(p, ast.While):
        return taken is True       # test false => loop exits
    if not isinstance(p, ast.If):
        return False
    blk = p.orelse if taken else p.body
    return bool(blk) and always_exits(blk) and 'continue' not in exit_kind(blk)


# ---------------------------------------------------------------------------
# R-C11-template
BUILTIN_NAMES = set(dir(builtins))


def _check_names(im, g):
    out = []
    glob = g.emit.globals
    if not isinstance(glob, dict):
        raise AnalysisError(f"{im.qual}: the globals handed to exec are not a statically known dictionary")
    if any(isinstance(k, str) and k.startswith('**') for k in glob):
        raise AnalysisError(f"{im.qual}: the globals handed to exec are merged from an unknown mapping")
    tree, F = g.tree, g.F
    defined = set(BUILTIN_NAMES) | {k for k in glob if isinstance(k, str)}
    imported = {}
    for n in ast.walk(tree):
        if isinstance(n, ast.Name) and isinstance(n.ctx, ast.Store):
            defined.add(n.id)
        elif isinstance(n, ast.FunctionDef):
            defined.add(n.name)
        elif isinstance(n, ast.ImportFrom):
            for a in n.names:
                defined.add(a.asname or a.name)
                imported[a.asname or a.name] = (n.module, a.name)
        elif isinstance(n, ast.Import):
            for a in n.names:
                defined.add((a.asname or a.name).split('.')[0])
    for n in ast.walk(tree):
        if isinstance(n, ast.Name) and isinstance(n.ctx, ast.Load) and n.id not in defined:
            out.append(('unbound', n.id, f"generated super-block uses `{n.id}` but neither the source nor the globals "
                                         f"dictionary given to exec binds it: NameError when the cycle is evaluated"))
    # the root of every watched access path is the top component
    roots = {v.split('.')[0].split('[')[0] for v in g.W}
    params = {a.arg for a in im.outer.args.args[1:]} | {a.arg for a in im.root.args.args}
    for rt in sorted(roots):
        v = glob.get(rt)
        if rt in glob and not (isinstance(v, Sym) and v.key[0] == 'free' and v.key[1] in params and v.key[1] != 'self'
                               and v.key[1] == im.top_name()):
            out.append(('root', rt, f"`{rt}` in the generated block is bound to {v!r}, not to the top-level component "
                                    f"whose signals the snapshot lines name"))
    # deepcopy really is copy.deepcopy
    if any(isinstance(n, ast.Name) and n.id == 'deepcopy' for n in ast.walk(F)):
        okc = imported.get('deepcopy') == ('copy', 'deepcopy')
        v = glob.get('deepcopy')
        if not okc and isinstance(v, Sym) and v.key[0] == 'free':
            okc = im.mod.imports.get(v.key[1]) == ('copy', 'deepcopy')
        if not okc and 'deepcopy' in defined:
            out.append(('deepcopy', 'deepcopy', "`deepcopy` in the generated block is not copy.deepcopy: the snapshot of "
                                                "a non-Bits signal is not an independent copy"))
    return out


def _check_raises(im, g):
    out = []
    glob = g.emit.globals if isinstance(g.emit.globals, dict) else {}
    imported = {}
    for n in ast.walk(g.tree):
        if isinstance(n, ast.ImportFrom):
            for a in n.names:
                imported[a.asname or a.name] = (n.module, a.name)
    rs = g.raises()
    for rz in rs:
        e = rz.exc.func if isinstance(rz.exc, ast.Call) else rz.exc
        nm = e.id if isinstance(e, ast.Name) else None
        good = False
        if nm is not None:
            v = glob.get(nm)
            if isinstance(v, Sym) and v.key[0] == 'free':
                good = im.resolves_to_class(v.key[1], 'UpblkCyclicError', ERRORS)
            elif imported.get(nm) == ('pymtl3.dsl.errors', 'UpblkCyclicError'):
                good = True
        if not good:
            out.append(('class', norm(rz)[:80], f"the generated block raises `{norm(e) if e is not None else 're-raise'}`, "
                                                f"which is not pymtl3.dsl.errors.UpblkCyclicError: a cycle that does not "
                                                f"settle is not reported as a cyclic-dependency error"))
    if not rs:
        out.append(('noraise', g.F.name, "generated block never raises: a cycle that does not settle is not reported"))
    return out


def _top_name(self):
    """name of the parameter holding the top-level component: the object whose _dag is read"""
    for n in ast.walk(self.outer):
        if isinstance(n, ast.Attribute) and n.attr == '_dag' and isinstance(n.value, ast.Name):
            return n.value.id
    raise AnalysisError(f"{self.qual}: cannot identify the top-level component parameter")


Impl.top_name = _top_name

TEMPLATE_CHECKS = (
    ('parse', "generated source compiles and binds the function the pass retrieves"),
    ('names', "every name used by the generated block is bound (globals of exec / generated imports)"),
    ('bounded', "iteration counter: constant start, stepped on every pass, exceeding the constant raises"),
    ('exit', "every normal exit follows snapshot -> all blocks -> every watched variable compared unchanged"),
    ('raise', "the only exception raised is UpblkCyclicError"),
)


_PROBE_HOST = """
def host_fn(code, g):
    l = {}
    custom_exec(code, g, l)
    return l['generated_block']
"""
_PROBES = [
    # (generated source, problem kinds the analysis must report)
    ("""
def f():
  N = 0
  while True:
    N += 1
    if N > 100: raise UpblkCyclicError("x")
    host=s; t1=host.a
    blk0()
    if host.a != t1: continue
    break
generated_block = f
""", {'alias', 'nosnap'}),
    ("""
def f():
  N = 0
  while True:
    N += 1
    if N > 100: raise UpblkCyclicError("x")
    host=s; t1=host.a.clone(); t2=host.b.clone()
    blk0()
    if host.a != t1: continue
    if host.b != t2: break
    break
generated_block = f
""", {'unstable'}),
    ("""
def f():
  while True:
    t1=s.a.clone()
    blk0()
    if s.a != t1: continue
    break
generated_block = f
""", {'unbounded'}),
    ("""
def f():
  N = 0
  while True:
    N += 1
    if N > 100: raise UpblkCyclicError("x")
    t1=s.a.clone(); t2=s.b.clone()
    blk0()
    if s.a != t2 or s.b != t1: continue
    break
generated_block = f
""", {'mismatch'}),
]


def _self_probe():
    """embedded positive examples: broken super-blocks the path analysis must flag on every run"""
    host = ast.parse(_PROBE_HOST)
    _set_parents(host)
    call = [n for n in ast.walk(host) if isinstance(n, ast.Call) and norm(n.func) == 'custom_exec'][0]
    from sa.c11_util import Emit
    n = 0
    for src, want in _PROBES:
        g = Gen(_Stub('probe'), Emit(src, src, {}, call, host.body[0], [], {}))
        got = {k for _, k, _, _ in g.problems}
        if not want <= got:
            raise AnalysisError(f"R-C11-template: embedded broken example not flagged (expected {sorted(want)}, got {sorted(got)})")
        n += 1
    return n


class _Stub:
    def __init__(self, name):
        self.name = name


def rule_template(repo):
    r = RuleResult('R-C11-template',
                   "the generated SCC super-block (template + generated lines, partially evaluated and parsed) never "
                   "hangs (bounded counter -> UpblkCyclicError) and never returns unless a complete pass left every "
                   "snapshotted variable unchanged")
    for im in impls(repo):
        for g in im.gens():
            r.evaluations += g.all_paths
            extra = {}
            if g.F is not None:
                extra['names'] = _check_names(im, g)
                extra['raise'] = _check_raises(im, g)
            for check, title in TEMPLATE_CHECKS:
                if g.F is None and check != 'parse':
                    continue
                probs = g.probs(check) + extra.get(check, [])
                cons = f"{g.label}: {title}"
                if not probs:
                    r.ok(im.mod, im.qual, cons)
                for kind, c, msg in probs:
                    r.bad(im.mod, im.qual, f"{g.label}: {kind}: {c}", msg, getattr(g.emit.call, 'lineno', 0))
    r.evaluations += _self_probe()
    _floor(r, 250)
    return r


# ---------------------------------------------------------------------------
# R-C11-watch
def _enclosing_for(node, stop):
    p = parent(node)
    while p is not None and p is not stop:
        if isinstance(p, ast.For):
            return p
        p = parent(p)
    return None


def _stmt_of(node):
    while node is not None and not isinstance(node, ast.stmt):
        node = parent(node)
    return node


def _pair_names(t):
    if isinstance(t, (ast.Tuple, ast.List)) and len(t.elts) == 2 and all(isinstance(x, ast.Name) for x in t.elts):
        return [x.id for x in t.elts]
    return None


def _membership_region(tests, u, v):
    """tests: [(expr, polarity)].  Returns (region dict over (u_in, v_in), set names, extra atoms)"""
    sets, extra = set(), []

    def mk_leaf(ui, vi):
        def leaf(e):
            if isinstance(e, ast.Compare) and len(e.ops) == 1 and isinstance(e.ops[0], (ast.In, ast.NotIn)) \
                    and isinstance(e.left, ast.Name) and e.left.id in (u, v) and isinstance(e.comparators[0], ast.Name):
                sets.add(e.comparators[0].id)
                val = ui if e.left.id == u else vi
                return val if isinstance(e.ops[0], ast.In) else not val
            if isinstance(e, (ast.BoolOp, ast.UnaryOp)):
                return NotImplemented
            extra.append(norm(e))
            return True
        return leaf
    region = {}
    for ui in (False, True):
        for vi in (False, True):
            ok = True
            for t, pol in tests:
                if bool(Evaluator({}, leaf=mk_leaf(ui, vi)).ev(t)) != pol:
                    ok = False
            region[(ui, vi)] = ok
    return region, sets, sorted(set(extra))


def _check_collection(r, im):
    im.locate()
    im._collected = True
    root, m, fn = im.root, im.mod, im.qual
    grows = []
    for n in walk_no_nested(root):
        if isinstance(n, ast.Call) and isinstance(n.func, ast.Attribute) and isinstance(n.func.value, ast.Name) \
                and n.func.value.id == im.VARS and n.func.attr in ('update', 'add', 'union') and len(n.args) == 1:
            grows.append((n, n.args[0]))
        elif isinstance(n, ast.AugAssign) and isinstance(n.target, ast.Name) and n.target.id == im.VARS \
                and isinstance(n.op, ast.BitOr):
            grows.append((n, n.value))
    if not isinstance(im.red_iter_core, ast.Name):
        r.bad(m, fn, f"for {im.X} in {norm(im.red.iter)}",
              f"the reduction to the watched set iterates `{norm(im.red.iter)}`, not the whole set of cycle-carrying "
              f"variables: a variable left out is never compared", im.red.lineno)
    else:
        r.ok(m, fn, f"reduction iterates every element of {im.VARS}")
    if not grows:
        r.bad(m, fn, im.VARS, f"the set {im.VARS} of cycle-carrying variables is never filled", im.red.lineno)
        return
    for node, arg in grows:
        loop = _enclosing_for(node, root)
        uv = _pair_names(loop.target) if loop is not None else None
        if uv is None:
            raise AnalysisError(f"{fn}: `{norm(node)}` is not inside a loop over (u, v) edges")
        u, v = uv
        cons = norm(node)
        # 1. what is united: constraint_objs[(u, v)]
        co = im.value_of(arg.value.id) if isinstance(arg, ast.Subscript) and isinstance(arg.value, ast.Name) else None
        key = _pair_names(arg.slice) if isinstance(arg, ast.Subscript) else None
        if co is None or not (isinstance(co, ast.Attribute) and co.attr == 'constraint_objs') or key is None:
            r.bad(m, fn, cons, f"the watched set is filled from `{norm(arg)}`, not from the objects that induce the "
                               f"edge (top._dag.constraint_objs[(u, v)])", node.lineno)
        elif key == [u, v]:
            r.ok(m, fn, f"{cons}: key is the edge (writer, reader) as iterated")
        elif key == [v, u]:
            r.bad(m, fn, cons, f"constraint_objs is keyed (writer block, reader block) but is indexed with "
                               f"({v}, {u}) for the edge ({u}, {v}): the defaultdict returns the variables of the reverse "
                               f"edge or nothing, so variables that carry the cycle are not watched", node.lineno)
        else:
            raise AnalysisError(f"{fn}: constraint_objs indexed by {norm(arg.slice)} inside a loop over ({u}, {v})")
        # 2. no filter other than membership of both ends
        tests = [(g.test, g.polarity) for g in guards_of(_stmt_of(node), stop=loop) if g.kind in ('if', 'exit', 'assert')]
        region, sets, extra = _membership_region(tests, u, v)
        r.evaluations += 4 * max(1, len(tests))
        if extra:
            r.bad(m, fn, f"guard of {cons}", f"the union over the edges of the SCC is filtered by `{'`, `'.join(extra)}`: "
                                            f"variables of the skipped edges are not watched", node.lineno)
        elif not region[(True, True)]:
            r.bad(m, fn, f"guard of {cons}", "an edge with both ends inside the SCC does not contribute its variables",
                  node.lineno)
        elif len(sets) > 1:
            r.bad(m, fn, f"guard of {cons}", f"the two ends of an edge are tested against different sets {sorted(sets)}",
                  node.lineno)
        else:
            r.ok(m, fn, f"guard of {cons}: only membership of both ends in the SCC")
            if sets:
                im.scc_name = sorted(sets)[0]
        # 3. all edges are visited, in the orientation they were stored
        core = strip_wrappers(loop.iter)
        if not isinstance(core, ast.Name):
            r.bad(m, fn, f"for ({u}, {v}) in {norm(loop.iter)}", "the loop that collects the cycle-carrying variables does "
                  "not visit the whole edge set", loop.lineno)
            continue
        adds = [c for c in walk_no_nested(im.outer) if is_method_call(c, 'add') and isinstance(c.func.value, ast.Name)
                and c.func.value.id == core.id and len(c.args) == 1]
        if not adds:
            raise AnalysisError(f"{fn}: cannot find where the edge set {core.id} is filled")
        for a in adds:
            lp = _enclosing_for(a, im.outer)
            ab = _pair_names(lp.target) if lp is not None else None
            el = _pair_names(a.args[0])
            src_ok = lp is not None and isinstance(strip_wrappers(lp.iter), ast.Attribute) \
                and strip_wrappers(lp.iter).attr == 'all_constraints'
            if ab is None or el is None or not src_ok:
                raise AnalysisError(f"{fn}: edge set {core.id} is filled by `{norm(a)}` in an unexpected way")
            if el == ab:
                r.ok(m, fn, f"{norm(a)}: edges stored as iterated from all_constraints")
            else:
                r.bad(m, fn, norm(a), f"edge set {core.id} stores {tuple(el)} for the constraint {tuple(ab)}: the keys used "
                                      f"for constraint_objs do not match", a.lineno)


def _check_reduction(r, im):
    im.locate()
    m, fn, red, X, FV = im.mod, im.qual, im.red, im.X, im.FV
    paths = Paths(max_iter=1).block(red.body)
    table = []
    for events, outcome in paths:
        r.evaluations += 1
        wset, adds, covered, conds = set(), set(), False, []
        for ev in events:
            if ev[0] == 'stmt':
                st = ev[1]
                if isinstance(st, ast.Assign):
                    for t in st.targets:
                        for nm in [x.id for x in ast.walk(t) if isinstance(x, ast.Name)]:
                            wset.discard(nm)
                    if len(st.targets) == 1 and isinstance(st.targets[0], ast.Name) and \
                            is_method_call(st.value, 'get_top_level_signal') and norm(st.value.func.value) == X:
                        wset.add(st.targets[0].id)
                elif isinstance(st, ast.Expr) and is_method_call(st.value, 'add') and norm(st.value.func.value) == FV \
                        and len(st.value.args) == 1:
                    a = st.value.args[0]
                    if isinstance(a, ast.Name) and a.id == X:
                        adds.add('x')
                    elif isinstance(a, ast.Name) and a.id in wset:
                        adds.add('w')
                    elif is_method_call(a, 'get_top_level_signal') and norm(a.func.value) == X:
                        adds.add('w')
            elif ev[0] == 'branch':
                conds.append((ev[1], ev[2]))
                for atom, truth in known_atoms(ev[1], ev[2]):
                    if isinstance(atom, ast.Compare) and len(atom.ops) == 1 and isinstance(atom.ops[0], (ast.In, ast.NotIn)) \
                            and isinstance(atom.left, ast.Name) and atom.left.id in wset \
                            and norm(atom.comparators[0]) == FV:
                        if truth == isinstance(atom.ops[0], ast.In):
                            covered = True
        ctext = ' and '.join(f"{'' if t else 'not '}({norm(c)})" for c, t in conds) or 'always'
        if outcome == 'raise':
            continue
        if outcome in ('break', 'return'):
            r.bad(m, fn, f"reduction path [{ctext}]", f"the reduction loop is left early on this path: the remaining "
                                                      f"cycle-carrying variables are never watched", red.lineno)
            continue
        kind = 'itself' if 'x' in adds else 'top-level signal' if 'w' in adds else \
            'top-level signal already watched' if covered else None
        table.append((ctext, kind))
        aux = [nm for nm in im.red_sets if nm != FV and any(mentions(c, nm) for c, _ in conds)]
        if kind is None and aux:
            # the decision depends on an auxiliary set: no syntactic must-argument; decided by the evaluation of the
            # whole reduction over the small configurations below
            r.ok(m, fn, f"reduction path [{ctext}]: depends on auxiliary set {aux}; decided on configurations",
                 nontrivial=False)
        elif kind is None:
            r.bad(m, fn, f"reduction path [{ctext}]",
                  f"a cycle-carrying variable with [{ctext}] is neither added to {FV} itself nor covered by its top-level "
                  f"signal: it can still be changing when the super-block returns", red.lineno)
        else:
            r.ok(m, fn, f"reduction path [{ctext}]: watched via {kind}")
    im.red_table = table
    # semantic decision: run the reduction on small configurations; every element must be covered by a kept object
    for label, elems, kept, order in reduction_results(im):
        r.evaluations += 1
        lost = [e for e in elems if not _covered(e, kept)]
        desc = f"{{{', '.join(map(repr, elems))}}} ({label}) -> kept {{{', '.join(sorted(map(repr, kept)))}}}"
        if lost:
            r.bad(m, fn, f"reduction of {{{', '.join(map(repr, elems))}}} ({label})",
                  f"for the cycle-carrying variables {{{', '.join(map(repr, elems))}}} (visited {' , '.join(map(repr, order))}) the "
                  f"reduction keeps {{{', '.join(sorted(map(repr, kept)))}}}: {', '.join(map(repr, lost))} is not covered "
                  f"(neither itself nor one of its ancestors is snapshotted; a sibling field/slice does not cover it), so the "
                  f"super-block can return while it is still changing", red.lineno)
        else:
            r.ok(m, fn, f"reduction {desc}: every element is kept or has a kept ancestor")


# -- abstract evaluation of the reduction loop over small configurations ----------------------------------------
class _Sig:
    """abstract signal object: a top-level signal, a field or a slice of it"""
    def __init__(self, name, typ, up=None):
        self.name, self.typ, self.up = name, typ, up
        self.top = up.top if up is not None else self

    def __repr__(self):
        return self.name

    def ancestors(self):
        p = self.up
        while p is not None:
            yield p
            p = p.up


class _SigDsl:
    def __init__(self, sig):
        self.sig = sig


def _covered(e, kept):
    return any(k is e for k in kept) or any(a is k for a in e.ancestors() for k in kept)


def _configurations():
    x = _Sig('s.x', 'struct')
    a, b = _Sig('s.x.a', 'bits', x), _Sig('s.x.b', 'bits', x)
    a02 = _Sig('s.x.a[0:2]', 'bits', a)
    y = _Sig('s.y', 'bits')
    y04, y26 = _Sig('s.y[0:4]', 'bits', y), _Sig('s.y[2:6]', 'bits', y)
    z = _Sig('s.z', 'other')
    za, zb = _Sig('s.z.a', 'bits', z), _Sig('s.z.b', 'bits', z)
    return [('two fields of a bitstruct wire', [a, b]), ('bitstruct wire and one of its fields', [x, a]),
            ('overlapping slices of a Bits wire', [y04, y26]), ('slice of a field and another field', [a02, b]),
            ('Bits wire and one of its slices', [y, y04]), ('members of a top-level signal of another type', [za, zb]),
            ('a single slice of a Bits wire', [y26]), ('a single field of a bitstruct wire', [b]),
            ('top-level signals only', [x, y])]


class _RedEval(Evaluator):
    def ev_Attribute(self, e):
        base = self.ev(e.value)
        if isinstance(base, _Sig) and e.attr == '_dsl':
            return _SigDsl(base)
        if isinstance(base, _SigDsl) and e.attr == 'Type':
            return ('type', base.sig.typ)
        raise AnalysisError(f"reduction loop reads `{norm(e)}`: outside the evaluated vocabulary")

    def ev_Call(self, e):
        f = e.func
        if isinstance(f, ast.Attribute):
            recv = self.ev(f.value)
            args = [self.ev(a) for a in e.args]
            if isinstance(recv, _Sig) and f.attr == 'get_top_level_signal' and not args:
                return recv.top
            if isinstance(recv, _Sig) and f.attr == 'get_parent_object' and not args and recv.up is not None:
                return recv.up
            if isinstance(recv, list) and f.attr == 'add' and len(args) == 1:        # sets are ordered lists here
                if not any(x is args[0] for x in recv):
                    recv.append(args[0])
                return None
            if isinstance(recv, list) and f.attr == 'discard' and len(args) == 1:
                recv[:] = [x for x in recv if x is not args[0]]
                return None
            if isinstance(recv, list) and f.attr == 'update' and len(args) == 1 and isinstance(args[0], (list, tuple)):
                for v in args[0]:
                    if not any(x is v for x in recv):
                        recv.append(v)
                return None
        elif isinstance(f, ast.Name) and f.id in ('any', 'all') and len(e.args) == 1 \
                and isinstance(e.args[0], (ast.GeneratorExp, ast.ListComp)) and len(e.args[0].generators) == 1 \
                and isinstance(e.args[0].generators[0].target, ast.Name):
            g = e.args[0].generators[0]
            seq = self.ev(g.iter)
            if not isinstance(seq, list):
                raise AnalysisError(f"reduction loop iterates `{norm(g.iter)}`: outside the evaluated vocabulary")
            vals = []
            saved = self.env.get(g.target.id, self)
            for el in list(seq):
                self.env[g.target.id] = el
                if all(self.ev(c) for c in g.ifs):
                    vals.append(bool(self.ev(e.args[0].elt)))
            if saved is self:
                self.env.pop(g.target.id, None)
            else:
                self.env[g.target.id] = saved
            return any(vals) if f.id == 'any' else all(vals)
        elif isinstance(f, ast.Name):
            args = [self.ev(a) for a in e.args]
            if f.id == 'issubclass' and len(args) == 2 and isinstance(args[0], tuple) and args[1] == 'BITS':
                return args[0][1] == 'bits'
            if f.id == 'is_bitstruct_class' and len(args) == 1 and isinstance(args[0], tuple):
                return args[0][1] == 'struct'
            if f.id == 'repr' and len(args) == 1:
                return repr(args[0])
            if f.id == 'len' and len(args) == 1 and isinstance(args[0], (list, str)):
                return len(args[0])
        raise AnalysisError(f"reduction loop calls `{norm(e)}`: outside the evaluated vocabulary")

    def ev_Compare(self, e):
        # membership / identity on abstract signals
        left = self.ev(e.left)
        for op, rt in zip(e.ops, e.comparators):
            right = self.ev(rt)
            if isinstance(op, (ast.In, ast.NotIn)) and isinstance(right, list):
                res = any(x is left for x in right)
                res = res if isinstance(op, ast.In) else not res
            elif isinstance(op, (ast.Is, ast.Eq)):
                res = left is right if isinstance(left, _Sig) or isinstance(right, _Sig) else left == right
            elif isinstance(op, (ast.IsNot, ast.NotEq)):
                res = left is not right if isinstance(left, _Sig) or isinstance(right, _Sig) else left != right
            else:
                raise AnalysisError(f"reduction loop compares `{norm(e)}`: outside the evaluated vocabulary")
            if not res:
                return False
            left = right
        return True


class _Jump(Exception):
    def __init__(self, kind):
        self.kind = kind


def _run_reduction_body(stmts, ev):
    for st in stmts:
        if isinstance(st, ast.If):
            _run_reduction_body(st.body if ev.ev(st.test) else st.orelse, ev)
        elif isinstance(st, ast.Assign) and len(st.targets) == 1 and isinstance(st.targets[0], ast.Name):
            ev.env[st.targets[0].id] = ev.ev(st.value)
        elif isinstance(st, ast.Expr):
            ev.ev(st.value)
        elif isinstance(st, ast.AugAssign) and isinstance(st.target, ast.Name) and isinstance(st.op, ast.BitOr):
            cur, add = ev.ev(ast.Name(id=st.target.id, ctx=ast.Load())), ev.ev(st.value)
            if not (isinstance(cur, list) and isinstance(add, list)):
                raise AnalysisError(f"reduction loop statement outside the evaluated vocabulary: {norm(st)}")
            for v in add:
                if not any(x is v for x in cur):
                    cur.append(v)
        elif isinstance(st, ast.Continue):
            raise _Jump('continue')
        elif isinstance(st, ast.Break):
            raise _Jump('break')
        elif isinstance(st, ast.Pass):
            pass
        else:
            raise AnalysisError(f"reduction loop statement outside the evaluated vocabulary: {norm(st)[:80]}")


def reduction_results(im):
    """[(label, elements, kept watch set, visiting order)] of the reduction loop run on the small configurations, for every
    visiting order the loop header allows (repr order when the loop sorts by repr, else every permutation)"""
    c = getattr(im, '_red_results', None)
    if c is not None:
        return c
    import itertools
    from sa.astutil import reaching_value
    im.locate()
    red = im.red
    for nm in im.red_sets:
        init = reaching_value(nm, red)
        if not (isinstance(init, ast.Call) and norm(init.func) == 'set' and not init.args):
            raise AnalysisError(f"{im.qual}: set {nm} used by the reduction loop is not initialised to an empty set before it")
    it = red.iter
    by_repr = isinstance(it, ast.Call) and norm(it.func) == 'sorted' and len(it.args) == 1 and \
        [(k.arg, norm(k.value)) for k in it.keywords] == [('key', 'repr')]
    out = []
    for label, elems in _configurations():
        orders = [sorted(elems, key=repr)] if by_repr else list(itertools.permutations(elems))
        for order in orders:
            sets = {nm: [] for nm in im.red_sets}
            for el in order:
                env = dict(sets)
                # the set being reduced is visible to the loop body with its concrete contents
                env.update({im.VARS: list(elems), im.X: el, 'Bits': 'BITS'})
                try:
                    _run_reduction_body(red.body, _RedEval(env))
                except _Jump as j:
                    if j.kind == 'break':
                        break
            out.append((label, list(elems), list(sets[im.FV]), list(order)))
    im._red_results = out
    return out


def _count_appends(events):
    """receiver list -> number of elements appended along the events"""
    cnt = {}
    for ev in events:
        if ev[0] != 'stmt':
            continue
        st = ev[1]
        if isinstance(st, ast.Expr) and isinstance(st.value, ast.Call) and isinstance(st.value.func, ast.Attribute) \
                and isinstance(st.value.func.value, ast.Name):
            f = st.value.func
            if f.attr == 'append' and len(st.value.args) == 1:
                cnt[f.value.id] = cnt.get(f.value.id, 0) + 1
            elif f.attr == 'extend' and len(st.value.args) == 1 and isinstance(st.value.args[0], (ast.List, ast.Tuple)):
                cnt[f.value.id] = cnt.get(f.value.id, 0) + len(st.value.args[0].elts)
        elif isinstance(st, ast.AugAssign) and isinstance(st.target, ast.Name) and isinstance(st.op, ast.Add) \
                and isinstance(st.value, (ast.List, ast.Tuple)):
            cnt[st.target.id] = cnt.get(st.target.id, 0) + len(st.value.elts)
    return cnt


def _check_flow(r, im):
    """watch set -> per-host groups -> one snapshot line and one comparison per element"""
    im.locate()
    m, fn = im.mod, im.qual
    g = im.group
    # grouping
    core = strip_wrappers(g.iter)
    if not (isinstance(core, ast.Name) and core.id == im.FV):
        r.bad(m, fn, f"for {norm(g.target)} in {norm(g.iter)}", f"the grouping loop does not visit every element of "
              f"{im.FV}: a watched variable that is skipped gets no snapshot and no comparison", g.lineno)
    elif not isinstance(g.target, ast.Name):
        raise AnalysisError(f"{fn}: grouping loop target {norm(g.target)}")
    else:
        x = g.target.id
        good = True
        for events, outcome in Paths(max_iter=1).block(g.body):
            r.evaluations += 1
            if outcome == 'raise':
                continue
            filed = [ev[1].value for ev in events if ev[0] == 'stmt' and isinstance(ev[1], ast.Expr)
                     and isinstance(ev[1].value, ast.Call) and isinstance(ev[1].value.func, ast.Attribute)
                     and ev[1].value.func.attr in ('append', 'add') and isinstance(ev[1].value.func.value, ast.Subscript)
                     and norm(ev[1].value.func.value.value) == im.D and [norm(a) for a in ev[1].value.args] == [x]]
            conds = ' and '.join(f"{'' if ev[2] else 'not '}({norm(ev[1])})" for ev in events if ev[0] == 'branch')
            if outcome in ('break', 'return') or len(filed) != 1:
                good = False
                r.bad(m, fn, f"grouping path [{conds or 'always'}]", f"an element of {im.FV} is filed {len(filed)} times under "
                      f"its host on this path: it is {'lost' if not filed else 'duplicated'} before the snapshot lines are "
                      f"generated", g.lineno)
                continue
            key = filed[0].func.value.slice
            if not (is_method_call(key, 'get_host_component') and norm(key.func.value) == x):
                good = False
                r.bad(m, fn, norm(filed[0]), f"watched variables are grouped by `{norm(key)}`; the snapshot lines strip "
                      f"repr(host) from repr(variable), which is only a prefix for the variable's host component",
                      filed[0].lineno)
        if good:
            r.ok(m, fn, f"every element of {im.FV} is filed once under {im.D}[{x}.get_host_component()]")
    # emission loops visit everything
    oc = strip_wrappers(im.outer_loop.iter)
    o_ok = (is_method_call(oc, 'items') and norm(oc.func.value) == im.D) or norm(oc) == im.D or \
           (is_method_call(oc, 'keys') and norm(oc.func.value) == im.D)
    ic = strip_wrappers(im.inner_loop.iter)
    if isinstance(ic, ast.Call) and norm(ic.func) == 'enumerate' and ic.args:
        ic = strip_wrappers(ic.args[0])
    i_ok = norm(ic) == im.L if im.L else norm(ic) == f"{im.D}[{im.H}]"
    for ok_, lp, what in ((o_ok, im.outer_loop, 'host groups'), (i_ok, im.inner_loop, 'variables of a host')):
        cons = f"for {norm(lp.target)} in {norm(lp.iter)}"
        if ok_:
            r.ok(m, fn, f"{cons}: visits all {what}")
        else:
            r.bad(m, fn, cons, f"the emission loop does not visit all {what}: a skipped watched variable is never "
                               f"snapshotted or compared", lp.lineno)
    # every path through the per-variable body appends one line to each line list
    paths = Paths(max_iter=1).block(im.inner_loop.body)
    counts = []
    for events, outcome in paths:
        r.evaluations += 1
        conds = ' and '.join(f"{'' if ev[2] else 'not '}({norm(ev[1])})" for ev in events if ev[0] == 'branch') or 'always'
        if outcome == 'raise':
            continue
        if outcome in ('break', 'return'):
            r.bad(m, fn, f"emission path [{conds}]", "the per-variable loop is left early: the remaining watched variables "
                  "get no snapshot and no comparison", im.inner_loop.lineno)
            continue
        counts.append((conds, _count_appends(events)))
    lists = sorted({k for _, c in counts for k in c})
    if len(lists) < 2:
        raise AnalysisError(f"{fn}: per-variable emission appends to {lists}; expected a snapshot list and a comparison list")
    for conds, c in counts:
        wrong = [f"{k}: {c.get(k, 0)}" for k in lists if c.get(k, 0) != 1]
        if wrong:
            r.bad(m, fn, f"emission path [{conds}]",
                  f"for a watched variable with [{conds}] the number of generated lines is {', '.join(wrong)} (expected one "
                  f"snapshot and one comparison each): the variable is not watched", im.inner_loop.lineno)
        else:
            r.ok(m, fn, f"emission path [{conds}]: one line each to {', '.join(lists)}")


def _check_recording(r, repo):
    """GenDAGPass._process_value_constraints: every value-induced edge records the object that induces it under the
    same (writer block, reader block) key -- the source of the watched set"""
    m = repo.mod(GENDAG)
    f = m.get_func('GenDAGPass._process_value_constraints')
    fn = 'GenDAGPass._process_value_constraints'
    stores = [n for n in walk_no_nested(f) if isinstance(n, ast.Assign) and any(
        isinstance(t, ast.Attribute) and t.attr == 'constraint_objs' for t in n.targets) and isinstance(n.value, ast.Name)]
    if len(stores) != 1:
        raise AnalysisError(f"{fn}: cannot find where top._dag.constraint_objs is published")
    CO = stores[0].value.id
    edges = [n for n in walk_no_nested(f) if is_method_call(n, 'add') and isinstance(n.func.value, ast.Name)
             and len(n.args) == 1 and isinstance(n.args[0], ast.Tuple) and len(n.args[0].elts) == 2
             and _enclosing_for(n, f) is not None and n.func.value.id != CO]
    # edges that merely copy an already recorded pair into the final set are not new edges
    edges = [e for e in edges if not any(isinstance(t, ast.For) and norm(t.target) == norm(e.args[0])
                                         for t in [_enclosing_for(e, f)])]
    for e in edges:
        st = _stmt_of(e)
        key = norm(e.args[0])
        recs = [x for x in _siblings(st) if isinstance(x, ast.Expr) and is_method_call(x.value, 'add')
                and isinstance(x.value.func.value, ast.Subscript) and norm(x.value.func.value.value) == CO]
        cons = f"{norm(e)} / {CO}[...]"
        loops = []
        q = parent(st)
        while q is not None and q is not f:
            if isinstance(q, ast.For):
                loops.append(q)
            q = parent(q)
        keyvars = {x.id for lp in loops for x in ast.walk(lp.target) if isinstance(x, ast.Name)}
        if not recs:
            r.bad(m, fn, cons, f"the edge {key} is added without recording the inducing signal in {CO}[{key}]: an SCC closed "
                               f"by this edge does not watch that signal and can return while it is still changing", e.lineno)
        elif any(norm(x.value.func.value.slice) != key for x in recs):
            r.bad(m, fn, cons, f"the inducing signal of edge {key} is recorded under "
                               f"{[norm(x.value.func.value.slice) for x in recs]}: the schedulers look it up under the edge "
                               f"itself and find nothing", e.lineno)
        elif not all(len(x.value.args) == 1 and isinstance(x.value.args[0], ast.Name) and x.value.args[0].id in keyvars
                     and any(isinstance(lp.iter, ast.Call) and norm(lp.iter.func).endswith('.items')
                             and isinstance(lp.target, (ast.Tuple, ast.List))
                             and norm(lp.target.elts[0]) == x.value.args[0].id for lp in loops) for x in recs):
            r.bad(m, fn, cons, f"what is recorded for edge {key} is not the signal object the constraint was derived from",
                  e.lineno)
        else:
            r.ok(m, fn, f"{norm(e)} with {norm(recs[0])}")


def rule_watch(repo):
    r = RuleResult('R-C11-watch',
                   "the snapshotted set covers every variable that carries the cycle: union over all intra-SCC edges of "
                   "constraint_objs, reduction keeps the variable or its top-level signal, every kept variable gets a "
                   "snapshot that is a copy and a comparison against that same snapshot")
    _check_recording(r, repo)
    for im in impls(repo):
        _check_collection(r, im)
        _check_reduction(r, im)
        _check_flow(r, im)
        for g in im.gens():
            if g.F is None:
                continue
            probs = g.probs('watch')
            if not probs:
                r.ok(im.mod, im.qual, f"{g.label}: each snapshot is clone()/deepcopy of the live signal and is compared "
                                      f"with that signal")
            for kind, c, msg in probs:
                r.bad(im.mod, im.qual, f"{g.label}: {kind}: {c}", msg, getattr(g.emit.call, 'lineno', 0))
            # every snapshot is compared, every comparison has its snapshot
            snapped = {(v, t) for t, v, _ in g.snapshots}
            lone = sorted(snapped - g.compared)
            if lone:
                r.bad(im.mod, im.qual, f"{g.label}: uncompared {lone}", f"snapshot(s) {lone} are never compared with the "
                      f"live signal", getattr(g.emit.call, 'lineno', 0))
    _floor(r, 100)
    return r



# ---------------------------------------------------------------------------
# R-C11-once
def emission_stmts(im):
    im.emits()
    b = im.builder
    out = []
    for n in walk_no_nested(im.root):
        if isinstance(n, ast.Call) and isinstance(n.func, ast.Name) and \
                (n.func.id in b.exec_names or n.func.id in b.emit_funcs):
            st = _stmt_of(n)
            if st not in out:
                out.append(st)
    if not out:
        raise AnalysisError(f"{im.qual}: cannot locate the statement that creates the super-block")
    return out


def once_names(im):
    out = set()
    for f in {im.root, im.outer}:
        for n in walk_no_nested(f):
            if isinstance(n, ast.Assign) and any(is_method_call(c, 'get_all_update_once') for c in ast.walk(n.value)):
                out |= {t.id for t in n.targets if isinstance(t, ast.Name)}
    return out


def _raise_class_ok(im, rz):
    e = rz.exc.func if isinstance(rz.exc, ast.Call) else rz.exc
    return isinstance(e, ast.Name) and im.resolves_to_class(e.id, 'UpblkCyclicError', ERRORS)


def _check_once(r, im, E0):
    m, fn = im.mod, im.qual
    onces = once_names(im)
    if not onces:
        r.bad(m, fn, 'get_all_update_once()', "the set of update_once blocks is never consulted: a cycle through an "
              "update_once block is iterated instead of being rejected", E0.lineno)
        return
    prec = preceding_stmts(E0)
    found = 0
    for st in prec:
        if isinstance(st, ast.For):
            for rz in [n for n in walk_no_nested(st) if isinstance(n, ast.Raise)]:
                gs = [g for g in guards_of(rz, stop=st) if g.kind in ('if', 'exit', 'assert')]
                if not any(names_in(g.test) & onces for g in gs):
                    continue
                tgt = st.target.id if isinstance(st.target, ast.Name) else None
                extra = []

                def mk(mval):
                    def leaf(e):
                        if isinstance(e, ast.Compare) and len(e.ops) == 1 and isinstance(e.ops[0], (ast.In, ast.NotIn)) \
                                and isinstance(e.left, ast.Name) and e.left.id == tgt \
                                and isinstance(e.comparators[0], ast.Name) and e.comparators[0].id in onces:
                            return mval if isinstance(e.ops[0], ast.In) else not mval
                        if isinstance(e, (ast.BoolOp, ast.UnaryOp)):
                            return NotImplemented
                        extra.append(norm(e))
                        return True
                    return leaf
                region = {mv: all(bool(Evaluator({}, leaf=mk(mv)).ev(g.test)) == g.polarity for g in gs)
                          for mv in (False, True)}
                r.evaluations += 2
                cons = f"for {norm(st.target)} in {norm(st.iter)}: {' and '.join(norm(g.test) for g in gs)} -> raise"
                found += 1
                core = strip_wrappers(st.iter)
                if extra:
                    r.bad(m, fn, cons, f"the update_once rejection also depends on `{'`, `'.join(sorted(set(extra)))}`: some "
                          f"cycles through an update_once block are accepted", rz.lineno)
                elif not region[True] or region[False]:
                    r.bad(m, fn, cons, "the rejection does not fire exactly when a block of the SCC is an update_once block "
                          f"(fires for a once-block: {region[True]}, for an ordinary block: {region[False]})", rz.lineno)
                elif not (isinstance(core, ast.Name) and (im.scc_name is None or core.id == im.scc_name)):
                    r.bad(m, fn, cons, f"the rejection loop visits `{norm(st.iter)}`, not every block of the SCC", st.lineno)
                elif not _raise_class_ok(im, rz):
                    r.bad(m, fn, cons, "the rejection does not raise pymtl3.dsl.errors.UpblkCyclicError", rz.lineno)
                else:
                    r.ok(m, fn, cons + " (dominates block generation)")
        elif isinstance(st, ast.If) and names_in(st.test) & onces and any(isinstance(n, ast.Raise) for n in walk_no_nested(st)):
            t = st.test
            neg = False
            while isinstance(t, ast.UnaryOp) and isinstance(t.op, ast.Not):
                t, neg = t.operand, not neg
            shape = None
            if isinstance(t, ast.Call) and norm(t.func) == 'any' and len(t.args) == 1 and \
                    isinstance(t.args[0], (ast.GeneratorExp, ast.ListComp)) and len(t.args[0].generators) == 1:
                ge = t.args[0]
                gen = ge.generators[0]
                e = ge.elt
                if isinstance(e, ast.Compare) and len(e.ops) == 1 and isinstance(e.ops[0], ast.In) and \
                        norm(e.left) == norm(gen.target) and norm(e.comparators[0]) in onces and not gen.ifs \
                        and isinstance(strip_wrappers(gen.iter), ast.Name):
                    shape = not neg
            elif isinstance(t, ast.BinOp) and isinstance(t.op, ast.BitAnd) and \
                    ({norm(t.left), norm(t.right)} & onces) and isinstance(t.left, ast.Name) and isinstance(t.right, ast.Name):
                shape = not neg
            elif is_method_call(t, 'intersection') and ({norm(t.func.value)} | {norm(a) for a in t.args}) & onces:
                shape = not neg
            elif is_method_call(t, 'isdisjoint') and ({norm(t.func.value)} | {norm(a) for a in t.args}) & onces:
                shape = neg
            if shape is None and isinstance(t, ast.Call) and norm(t.func) == 'all' and len(t.args) == 1 and \
                    isinstance(t.args[0], (ast.GeneratorExp, ast.ListComp)) and len(t.args[0].generators) == 1 and \
                    isinstance(t.args[0].elt, ast.Compare) and norm(t.args[0].elt.comparators[0]) in onces:
                # rejection only when EVERY block of the SCC is an update_once block: mixed cycles are accepted
                found += 1
                r.bad(m, fn, f"if {norm(st.test)} -> raise",
                      "the rejection fires only when all blocks of the SCC are update_once blocks: a cycle mixing @update_once and "
                      "@update blocks is evaluated repeatedly (the update_once block runs several times per cycle) instead of "
                      "raising UpblkCyclicError", st.lineno)
                continue
            if shape is None:
                raise AnalysisError(f"{fn}: update_once test `{norm(st.test)}` has a shape the rule does not understand")
            blk = st.body if shape else st.orelse
            cons = f"if {norm(st.test)} -> raise"
            found += 1
            rzs = [n for b in blk for n in walk_no_nested(b) if isinstance(n, ast.Raise)]
            if not (blk and always_exits(blk) and exit_kind(blk) == {'raise'} and all(_raise_class_ok(im, z) for z in rzs)):
                r.bad(m, fn, cons, "an SCC containing an update_once block is not rejected with UpblkCyclicError", st.lineno)
            else:
                r.ok(m, fn, cons + " (dominates block generation)")
    if not found:
        later = [n for n in walk_no_nested(im.root) if isinstance(n, ast.Raise)
                 and any(names_in(g.test) & onces for g in guards_of(n))]
        r.bad(m, fn, f"update_once rejection before {norm(E0)[:50]}",
              "no rejection of update_once blocks dominates the generation of the super-block" +
              (" (a rejection exists but does not run before it on every path)" if later else "") +
              ": a cycle through an update_once block is evaluated repeatedly instead of raising UpblkCyclicError",
              E0.lineno)


def _check_novar(r, im, E0):
    m, fn, VARS = im.mod, im.qual, im.VARS
    gs = [g for g in guards_of(E0) if g.kind == 'exit' and mentions(g.test, VARS)]
    if not gs:
        r.bad(m, fn, f"empty-{VARS} rejection before {norm(E0)[:50]}",
              f"no test of `{VARS}` being empty dominates the generation of the super-block: an SCC whose edges carry no "
              f"variable yields a loop that compares nothing and returns after one pass instead of raising UpblkCyclicError",
              E0.lineno)
        return
    for g in gs:
        cons = f"if {norm(g.node.test)} -> {'/'.join(sorted(exit_kind(g.exit_block)))}"
        region = {}
        for n in (0, 1, 2, 5):
            def leaf(e, n=n):
                if isinstance(e, ast.Call) and norm(e.func) == 'len' and len(e.args) == 1 and norm(e.args[0]) == VARS:
                    return n
                if isinstance(e, ast.Name) and e.id == VARS:
                    return n
                return NotImplemented
            region[n] = bool(Evaluator({}, arith=True, leaf=leaf).ev(g.test)) != g.polarity
            r.evaluations += 1
        rzs = [n for b in g.exit_block for n in walk_no_nested(b) if isinstance(n, ast.Raise)]
        grown = [n for n in walk_no_nested(im.root)
                 if (isinstance(n, ast.Call) and isinstance(n.func, ast.Attribute) and norm(n.func.value) == VARS
                     and n.func.attr in ('update', 'add')) or
                 (isinstance(n, ast.AugAssign) and norm(n.target) == VARS)]
        before = preceding_stmts(g.node)
        if not region[0]:
            r.bad(m, fn, cons, f"the test does not reject an empty `{VARS}`", g.node.lineno)
        elif any(region[n] for n in (1, 2, 5)):
            r.bad(m, fn, cons, f"the test also rejects SCCs whose edges do carry variables "
                               f"(|{VARS}| in {[n for n in (1, 2, 5) if region[n]]}): a false loop is reported as an error",
                  g.node.lineno)
        elif exit_kind(g.exit_block) != {'raise'} or not all(_raise_class_ok(im, z) for z in rzs):
            r.bad(m, fn, cons, "an SCC without value-carrying variables is not rejected with UpblkCyclicError", g.node.lineno)
        elif not all(any(inside(x, b) for b in before) for x in grown):
            r.bad(m, fn, cons, f"`{VARS}` is tested before it has been filled", g.node.lineno)
        else:
            r.ok(m, fn, cons + " exactly when the SCC carries no variable (dominates block generation)")


_EXTENDERS = {'append', 'extend', 'add', 'update', 'insert', 'appendleft', 'setdefault'}


def _check_per_scc_state(r, im, E0):
    """per-SCC state (variable set, block list, generated lines, ...) is created inside the code path of the SCC that uses
    it: a container that is only extended there but created before carries the contents of the previously handled SCCs"""
    m, fn = im.mod, im.qual
    region = None
    p = parent(E0)
    while p is not None and p is not im.root:
        if isinstance(p, ast.For):
            region = p
        p = parent(p)
    region = region or im.root           # Mamba: compile_scc itself runs once per SCC
    exts = {}                            # name -> [extension statements]
    for n in walk_no_nested(region):
        nm = None
        if isinstance(n, ast.Call) and isinstance(n.func, ast.Attribute) and n.func.attr in _EXTENDERS:
            b = n.func.value
            while isinstance(b, ast.Subscript):
                b = b.value
            nm = b.id if isinstance(b, ast.Name) else None
        elif isinstance(n, ast.AugAssign) and not (isinstance(n.value, ast.Constant) and isinstance(n.value.value, (int, float))) \
                and not isinstance(n.op, (ast.Sub, ast.Mult, ast.FloorDiv, ast.Mod)):
            b = n.target
            if isinstance(b, ast.Name) and not isinstance(n.value, (ast.List, ast.Tuple, ast.Set, ast.Call, ast.Subscript)):
                b = None                 # arithmetic on a scalar counter
            while isinstance(b, ast.Subscript):
                b = b.value
            nm = b.id if isinstance(b, ast.Name) else None
        if nm:
            exts.setdefault(nm, []).append(n)
    loop_targets = {x.id for lp in walk_no_nested(region) if isinstance(lp, ast.For) for x in ast.walk(lp.target)
                    if isinstance(x, ast.Name)}
    published = set()
    for n in walk_no_nested(im.root):
        if isinstance(n, ast.Assign) and any(isinstance(t, ast.Attribute) and t.attr == 'update_schedule' for t in n.targets):
            published |= {t.id for t in n.targets if isinstance(t, ast.Name)}
    for nm in sorted(exts):
        if nm in loop_targets or nm in published:      # the published schedule accumulates over all SCCs on purpose
            continue
        ext_nodes = exts[nm]
        # pure output accumulators (never read inside the region except to be extended) are loop-carried on purpose
        ext_bases = set()
        for n in ext_nodes:
            b = n.func.value if isinstance(n, ast.Call) else n.target
            while isinstance(b, ast.Subscript):
                b = b.value
            ext_bases.add(id(b))
        reads = [x for x in walk_no_nested(region) if isinstance(x, ast.Name) and x.id == nm
                 and isinstance(x.ctx, ast.Load) and id(x) not in ext_bases]
        if not reads:
            continue
        bad = None
        for n in ext_nodes:
            st = _stmt_of(n)
            created = [a for a in preceding_stmts(st)
                       if isinstance(a, (ast.Assign, ast.AnnAssign)) and nm in {x.id for t in (a.targets if isinstance(a, ast.Assign) else [a.target])
                                                                               for x in ast.walk(t) if isinstance(x, ast.Name)
                                                                               and isinstance(x.ctx, ast.Store)}
                       and (region is im.root or inside(a, region))]
            created += [a for a in preceding_stmts(st) if isinstance(a, ast.Expr) and is_method_call(a.value, 'clear')
                        and norm(a.value.func.value) == nm and (region is im.root or inside(a, region))]
            if not created:
                bad = n
                break
        cons = f"per-SCC container `{nm}` ({len(ext_nodes)} extension(s), {len(reads)} read(s))"
        if bad is not None:
            use = norm(_stmt_of(reads[0]))[:70]
            r.bad(m, fn, cons, f"`{nm}` is only extended (`{norm(bad)[:60]}`) inside the code that handles one SCC but is created "
                               f"outside it, so it still holds the contents of the SCCs handled before; what is decided from it "
                               f"(`{use}`) is wrong for every SCC after the first -- e.g. a cycle that carries no variable is "
                               f"accepted once an earlier SCC had variables", getattr(bad, 'lineno', 0))
        else:
            r.ok(m, fn, cons + ": created inside the per-SCC code before it is extended")


def _check_once_representation(r, repo):
    """WrapGreenletPass replaces blocking blocks by greenlet wrappers in final_upblks / all_constraints; the SCC members are
    then wrappers while top.get_all_update_once() still holds the ORIGINAL blocks: `x in onces` is False for a wrapped
    update_once block.  As long as constraint_objs keeps the original keys the edges of a wrapped block contribute no
    variable (the no-variable guard takes over); once they are re-keyed too, the once test must see through the mapping."""
    if not repo.exists(GREENLET):
        raise AnalysisError("anchor vanished: WrapGreenletPass.py")
    gm = repo.mod(GREENLET)
    gf = gm.get_func('WrapGreenletPass.wrap_greenlet')
    aliases = {'top._dag.constraint_objs'}
    for n in walk_no_nested(gf):
        if isinstance(n, ast.Assign) and isinstance(n.value, ast.Attribute) and n.value.attr == 'constraint_objs':
            aliases |= {norm(t) for t in n.targets}
    rekey = [n for n in walk_no_nested(gf) if
             (isinstance(n, (ast.Assign, ast.AugAssign)) and any(
                 isinstance(t, ast.Subscript) and norm(t.value) in aliases
                 for t in (n.targets if isinstance(n, ast.Assign) else [n.target]))) or
             (isinstance(n, ast.Assign) and any(isinstance(t, ast.Attribute) and t.attr == 'constraint_objs' for t in n.targets)) or
             (isinstance(n, ast.Call) and isinstance(n.func, ast.Attribute) and norm(n.func.value) in aliases
              and n.func.attr in ('pop', 'update', 'setdefault', '__setitem__'))]
    rekeys_edges = any(isinstance(n, ast.Assign) and any(isinstance(t, ast.Attribute) and t.attr == 'all_constraints'
                                                          for t in n.targets) for n in walk_no_nested(gf))
    if not rekeys_edges:
        raise AnalysisError("WrapGreenletPass.wrap_greenlet: cannot find where all_constraints is replaced by the wrapped edges")
    for im in impls(repo):
        onces = once_names(im)
        mapped = False
        for f in {im.root, im.outer}:
            for n in walk_no_nested(f):
                if isinstance(n, ast.Assign) and any(isinstance(t, ast.Name) and t.id in onces for t in n.targets) \
                        and 'blk_greenlet_mapping' in norm(n.value):
                    mapped = True
                if isinstance(n, ast.Compare) and names_in(n) & onces and 'blk_greenlet_mapping' in norm(n):
                    mapped = True
        cons = "update_once test on an SCC member that is a greenlet wrapper (member = wrapper W of once-block B, onces = {B})"
        if mapped:
            r.ok(im.mod, im.qual, cons + ": the test sees through blk_greenlet_mapping")
        elif rekey:
            r.bad(im.mod, im.qual, cons,
                  f"WrapGreenletPass re-keys constraint_objs to the greenlet wrappers (`{norm(rekey[0])[:70]}`), so the edges of a wrapped "
                  f"block now carry variables and pass the no-variable guard, while `x in onces` compares the wrapper W with the "
                  f"original update_once block B and is False: a signal cycle through a blocking update_once block is iterated "
                  f"inside wrapped_SCC instead of raising UpblkCyclicError ({gm.rel}:{getattr(rekey[0], 'lineno', 0)})",
                  im.root.lineno)
        else:
            r.ok(im.mod, im.qual, cons + ": not matched by `in onces`, but constraint_objs keeps the original block keys, so the "
                                         "edges of a wrapper carry no variable and the no-variable guard rejects the cycle")
            note = ("a wrapped update_once block inside an SCC that also has variable-carrying edges between unwrapped blocks is "
                    "rejected by neither test (`x in onces` sees the wrapper, the variable set is non-empty)")
            if note not in r.observations:
                r.observations.append(note)


def rule_once(repo):
    r = RuleResult('R-C11-once',
                   "an SCC that contains an update_once block, or whose edges carry no variable, is rejected with "
                   "UpblkCyclicError before the super-block is generated (both implementations)")
    for im in impls(repo):
        im.locate()
        if not im._collected:
            _check_collection(RuleResult('scratch', ''), im)
        for E0 in emission_stmts(im):
            _check_once(r, im, E0)
            _check_novar(r, im, E0)
            _check_per_scc_state(r, im, E0)
    _check_once_representation(r, repo)
    _floor(r, 24)
    return r



# ---------------------------------------------------------------------------
# R-C11-cover
def _list_of_key(k):
    """('whole', name) / ('last', name) / None for the container key of a block element"""
    if isinstance(k, tuple) and k and k[0] == 'free':
        return ('whole', k[1])
    if isinstance(k, tuple) and k and k[0] == 'sub' and isinstance(k[1], tuple) and k[1][0] == 'free' \
            and k[2] == ('const', '-1'):
        return ('last', k[1][1])
    return None


def _check_tick_function(r, im, fkey):
    """SimpleTickPass.gen_tick_function(schedule) returns a function that calls every element once, in order"""
    if not (fkey[0] == 'attr' and fkey[1][0] == 'free'):
        raise AnalysisError(f"{im.qual}: block runner {fkey!r} cannot be resolved")
    res = im.repo.resolve(im.mod, fkey[1][1])
    if not res or not isinstance(res[1], ast.ClassDef):
        raise AnalysisError(f"{im.qual}: cannot resolve {fkey[1][1]}")
    tm, cls = res
    f = tm.methods(cls.name).get(fkey[2])
    if f is None:
        raise AnalysisError(f"anchor vanished: {cls.name}.{fkey[2]}")
    params = [a.arg for a in f.args.args]
    static = any(norm(d) == 'staticmethod' for d in f.decorator_list)
    p = params[0] if static else (params[1] if len(params) > 1 else None)
    inner = [n for n in f.body if isinstance(n, ast.FunctionDef)]
    rets = [n for n in walk_no_nested(f) if isinstance(n, ast.Return)]
    good = False
    if p and len(inner) == 1 and len(rets) == 1 and norm(rets[0].value) == inner[0].name:
        loops = [n for n in inner[0].body if isinstance(n, ast.For)]
        if len(loops) == 1 and norm(strip_wrappers(loops[0].iter)) == p and isinstance(loops[0].target, ast.Name) \
                and strip_wrappers(loops[0].iter) is loops[0].iter:
            t = loops[0].target.id
            good = any(isinstance(s, ast.Expr) and isinstance(s.value, ast.Call) and norm(s.value.func) == t
                       and not s.value.args for s in loops[0].body) and \
                not any(isinstance(n, (ast.Break, ast.Continue, ast.Return)) for n in ast.walk(loops[0]))
    cons = f"{cls.name}.{fkey[2]}({p}): for blk in {p}: blk()"
    if good:
        r.ok(tm, f"{cls.name}.{fkey[2]}", cons)
    else:
        r.bad(tm, f"{cls.name}.{fkey[2]}", cons, "the tick function used inside the SCC super-block does not call every "
              "block of the list it is given exactly once per pass", f.lineno)


def _check_emitted_blocks(r, im):
    """per variant: what the generated loop calls is exactly the list of blocks handed over, element by element"""
    lists = {}
    tick_checked = False
    for g in im.gens():
        if g.F is None or not isinstance(g.emit.globals, dict):
            continue
        glob = g.emit.globals
        per_list = {}
        bad = []
        for c in g.calls:
            v = glob.get(c)
            k = v.key if isinstance(v, Sym) else None
            if k and k[0] == 'call' and isinstance(k[1], tuple) and k[1][0] == 'attr' and k[1][2] == 'gen_tick_function' \
                    and len(k[2]) == 1:
                lk = _list_of_key(k[2][0])
                if lk is None or lk[0] != 'whole':
                    bad.append(f"`{c}()` runs {k[2][0]!r}, not the complete BFS schedule of the SCC")
                else:
                    per_list.setdefault(lk, set()).add('all')
                    im.lists_by_ref = getattr(im, 'lists_by_ref', set()) | {lk[1]}
                    if not tick_checked:
                        _check_tick_function(r, im, k[1])
                        tick_checked = True
            elif k and k[0] == 'elem':
                lk = _list_of_key(k[1])
                if lk is None:
                    bad.append(f"`{c}()` is bound to an element of {k[1]!r}, which is not the complete list of blocks")
                else:
                    per_list.setdefault(lk, set()).add(k[2])
            elif k and k[0] == 'call' and isinstance(k[1], tuple) and k[1][0] == 'attr' and k[1][2] == 'compile_meta_block' \
                    and len(k[2]) == 1 and k[2][0][0] == 'elem':
                lk = _list_of_key(k[2][0][1])
                if lk is None or lk[0] != 'whole':
                    bad.append(f"`{c}()` is a meta block of {k[2][0][1]!r}, which is not the complete partition")
                else:
                    per_list.setdefault(('parts', lk[1]), set()).add(k[2][0][2])
            else:
                bad.append(f"`{c}()` is bound to {v!r}: not a block of the SCC schedule")
        # distinct blocks stored under one name: the later one replaces the earlier one in the namespace of the loop
        for name, cnt in sorted(g.emit.clobbered.items()):
            if name in g.calls:
                bad.append(f"{cnt + 1} different blocks are stored in the globals of the generated loop under the one name "
                           f"`{name}` (the identifier does not contain the index of the block/part): each `{name}()` runs the "
                           f"block stored last and the others never run")
        ncalls = {}
        for c in g.calls:
            ncalls[c] = ncalls.get(c, 0) + 1
        for c, k in sorted(ncalls.items()):
            if k > 1 and c not in g.emit.clobbered:
                bad.append(f"`{c}()` is called {k} times in one pass while only one block is stored under that name")
        # globals entries that are blocks but are never called
        for name, v in glob.items():
            k = v.key if isinstance(v, Sym) else None
            is_blk = bool(k) and (k[0] == 'elem' or (k[0] == 'call' and isinstance(k[1], tuple) and k[1][0] == 'attr'
                                                     and k[1][2] in ('compile_meta_block', 'gen_tick_function')))
            if is_blk and name not in g.calls:
                bad.append(f"block `{name}` is handed to the generated code but the loop never calls it")
        for lk, ks in per_list.items():
            if 'all' in ks:
                continue
            n = len(ks)
            if ks != set(range(n)):
                bad.append(f"elements {sorted(ks)} of {lk[1]} are called; the unrolled loop produced {n} blocks starting at 0")
            if lk[0] == 'last':
                single = any(t and c.replace(' ', '') in (f"len({lk[1]})==1", f"1==len({lk[1]})") for c, t in g.emit.choices)
                if not single:
                    bad.append(f"only the last part of {lk[1]} is run although {lk[1]} may have several parts")
        for lk in per_list:
            lists.setdefault(lk, 0)
            lists[lk] += 1
        cons = f"{g.label}: calls cover " + ', '.join(f"{a} of {b}" for a, b in sorted(per_list)) if per_list else \
            f"{g.label}: no block list"
        if not per_list and not bad:
            bad.append("the generated loop calls no block of the SCC")
        if bad:
            for b in bad:
                r.bad(im.mod, im.qual, f"{g.label}: {b[:70]}", b + ": a block of the cycle is not re-evaluated in the loop, "
                      "so the returned state is not a fixed point of the whole SCC", getattr(g.emit.call, 'lineno', 0))
        else:
            r.ok(im.mod, im.qual, cons)
    # the loops that produced the block elements visit the whole list
    for lp in im.builder.symloops.values():
        if not isinstance(lp, ast.For):
            continue
        core = strip_wrappers(lp.iter)
        if isinstance(core, ast.Call) and norm(core.func) == 'enumerate' and core.args:
            core = strip_wrappers(core.args[0])
        names = {b for a, b in lists}
        if names_in(core) & names and not isinstance(core, ast.Name) and \
                not (isinstance(core, ast.Subscript) and norm(core.slice) == '-1'):
            r.bad(im.mod, im.qual, f"for {norm(lp.target)} in {norm(lp.iter)}", "the loop that emits the block calls does not "
                  "visit the whole block list: a block of the cycle is never re-evaluated", lp.lineno)
    return lists


def _check_bfs(r, im, LIST):
    """LIST is filled by a BFS over the SCC: every popped vertex is scheduled, every unvisited successor inside the
    SCC is pushed and marked"""
    m, fn, root = im.mod, im.qual, im.root
    whiles = [w for w in walk_no_nested(root) if isinstance(w, ast.While) and
              any(is_method_call(c, 'append') and norm(c.func.value) == LIST for s in w.body for c in walk_no_nested(s))]
    fills = [c for c in walk_no_nested(root) if isinstance(c, ast.Call) and isinstance(c.func, ast.Attribute)
             and norm(c.func.value) == LIST and c.func.attr in ('append', 'extend', 'insert')]
    if not fills:
        r.bad(m, fn, f"{LIST}.append(...)", f"the block list {LIST} handed to the super-block is never filled: the generated "
              f"loop runs no block of the cycle and returns the stale values", root.lineno)
        return None, None
    if len(whiles) != 1 or any(not inside(c, whiles[0]) for c in fills):
        raise AnalysisError(f"{fn}: {LIST} is not filled by a single worklist loop ({len(whiles)} loops, {len(fills)} fills)")
    w = whiles[0]
    pops = [s for s in w.body if isinstance(s, ast.Assign) and len(s.targets) == 1 and isinstance(s.targets[0], ast.Name)
            and isinstance(s.value, ast.Call) and isinstance(s.value.func, ast.Attribute)
            and s.value.func.attr in ('popleft', 'pop') and isinstance(s.value.func.value, ast.Name)]
    if len(pops) != 1:
        raise AnalysisError(f"{fn}: worklist loop has {len(pops)} unconditional pops")
    Q, u = pops[0].value.func.value.id, pops[0].targets[0].id
    cons = f"while {norm(w.test)}: {norm(pops[0])}"
    if names_in(w.test) != {Q} and names_in(w.test) != {Q, 'len'}:
        r.bad(m, fn, cons, f"the worklist loop stops on `{norm(w.test)}`, not when the worklist is empty: reachable blocks "
                           f"of the SCC may be left unscheduled", w.lineno)
    sched = [s for s in w.body if isinstance(s, ast.Expr) and is_method_call(s.value, 'append')
             and norm(s.value.func.value) == LIST and [norm(a) for a in s.value.args] == [u]]
    if len(sched) == 1 and w.body.index(sched[0]) > w.body.index(pops[0]):
        r.ok(m, fn, f"{cons}; {norm(sched[0])}: every popped block is scheduled")
    else:
        r.bad(m, fn, f"{cons}; {LIST}.append({u})", f"a block taken from the worklist is scheduled {len(sched)} times "
              f"unconditionally (expected once): it is {'missing from' if not sched else 'duplicated in'} the super-block",
              w.lineno)
    succ = [s for s in w.body if isinstance(s, ast.For) and isinstance(strip_wrappers(s.iter), ast.Subscript)
            and norm(strip_wrappers(s.iter).slice) == u and isinstance(s.target, ast.Name)]
    if len(succ) != 1:
        raise AnalysisError(f"{fn}: cannot locate the successor loop of the BFS")
    sl = succ[0]
    v = sl.target.id
    ADJ = norm(strip_wrappers(sl.iter).value)
    dirs = adjacency_dirs(im)
    if ADJ not in dirs:
        r.bad(m, fn, f"for {v} in {norm(sl.iter)}", f"the BFS expands along `{ADJ}`, which is not an adjacency map built from "
              f"all scheduling constraints", sl.lineno)
    elif strip_wrappers(sl.iter) is not sl.iter and not isinstance(sl.iter, ast.Call):
        r.bad(m, fn, f"for {v} in {norm(sl.iter)}", "the BFS does not visit every neighbour", sl.lineno)
    else:
        r.ok(m, fn, f"for {v} in {norm(sl.iter)}: expands along every constraint edge ({dirs[ADJ]} map)")
    for lp_, what in ((sl, 'the loop over the neighbours of a block'), (w, 'the worklist loop')):
        early = [(ev, out) for ev, out in Paths(max_iter=1).block(lp_.body) if out in ('break', 'return')]
        r.evaluations += 1
        if early:
            conds = ' and '.join(f"{'' if e[2] else 'not '}({norm(e[1])})" for e in early[0][0] if e[0] == 'branch') or 'always'
            r.bad(m, fn, f"{early[0][1]} in {what} [{conds}]",
                  f"{what} is left early ({early[0][1]} when {conds}): the BFS follows a single path instead of expanding every "
                  f"neighbour, so blocks of the SCC that are not on that path (a hub with several spokes) are never put into the "
                  f"super-block and never run", lp_.lineno)
        else:
            r.ok(m, fn, f"{what} has no early exit")
    pushes = [c for s in sl.body for c in walk_no_nested(s) if isinstance(c, ast.Call) and isinstance(c.func, ast.Attribute)
              and norm(c.func.value) == Q and c.func.attr in ('append', 'appendleft') and [norm(a) for a in c.args] == [v]]
    if len(pushes) != 1:
        r.bad(m, fn, f"{Q}.append({v})", f"a neighbour is pushed {len(pushes)} times in the successor loop: blocks of the SCC "
              f"{'are never reached' if not pushes else 'are handled inconsistently'}", sl.lineno)
        return Q, w
    push = _stmt_of(pushes[0])
    gs = [g for g in guards_of(push, stop=sl) if g.kind in ('if', 'exit', 'assert')]
    sets, extra = set(), []

    def mk(a, b, VIS):
        def leaf(e):
            if isinstance(e, ast.Compare) and len(e.ops) == 1 and isinstance(e.ops[0], (ast.In, ast.NotIn)) \
                    and norm(e.left) == v and isinstance(e.comparators[0], ast.Name):
                nm = e.comparators[0].id
                sets.add(nm)
                val = a if nm == im.scc_name else b
                return val if isinstance(e.ops[0], ast.In) else not val
            if isinstance(e, (ast.BoolOp, ast.UnaryOp)):
                return NotImplemented
            extra.append(norm(e))
            return True
        return leaf
    region = {(a, b): all(bool(Evaluator({}, leaf=mk(a, b, None)).ev(g.test)) == g.polarity for g in gs)
              for a in (False, True) for b in (False, True)}
    r.evaluations += 4
    vis = sorted(sets - {im.scc_name})
    cons = f"{norm(push)} if {' and '.join(norm(g.test) for g in gs) or 'always'}"
    want = {(a, b): (a and not b) for a in (False, True) for b in (False, True)}
    marks = [c for s in sl.body for c in walk_no_nested(s) if vis and is_method_call(c, 'add')
             and norm(c.func.value) == vis[0] and [norm(a) for a in c.args] == [v]]
    same_block = bool(marks) and any(x is _stmt_of(marks[0]) for x in _siblings(push))
    if extra or len(vis) != 1:
        r.bad(m, fn, cons, f"the push of a neighbour depends on {extra or sorted(sets)}; expected exactly `in the SCC and not "
                           f"visited`", push.lineno)
    elif region != want:
        wrong = [f"inSCC={a},visited={b}: pushed={region[(a, b)]}" for (a, b) in region if region[(a, b)] != want[(a, b)]]
        r.bad(m, fn, cons, f"a neighbour must be pushed exactly when it is in the SCC and not yet visited ({'; '.join(wrong)}): "
                           f"blocks of the cycle are left out of (or foreign blocks dragged into) the super-block", push.lineno)
    elif not same_block:
        r.bad(m, fn, cons, f"a pushed neighbour is not marked in `{vis[0]}` together with the push: in a cycle the worklist "
                           f"never empties", push.lineno)
    else:
        r.ok(m, fn, cons + f"; {norm(_stmt_of(marks[0]))}: region is exactly inSCC and not visited")
    return Q, w


def _siblings(st):
    p = parent(st)
    for fld in ('body', 'orelse', 'finalbody'):
        blk = getattr(p, fld, None)
        if isinstance(blk, list) and any(x is st for x in blk):
            return blk
    return []


def adjacency_dirs(im):
    """name -> 'successor' / 'predecessor' for maps filled as M[a].append(b) in the loop over all_constraints"""
    c = getattr(im, '_dirs', None)
    if c is not None:
        return c
    dirs = {}
    for lp in [n for n in walk_no_nested(im.outer) if isinstance(n, ast.For)]:
        core = strip_wrappers(lp.iter)
        ab = _pair_names(lp.target)
        if not (isinstance(core, ast.Attribute) and core.attr == 'all_constraints' and ab):
            continue
        for cnode in [c for s in lp.body for c in walk_no_nested(s)]:
            if is_method_call(cnode, 'append') and isinstance(cnode.func.value, ast.Subscript) \
                    and isinstance(cnode.func.value.value, ast.Name) and len(cnode.args) == 1:
                k, e = norm(cnode.func.value.slice), norm(cnode.args[0])
                if [k, e] == ab:
                    dirs[cnode.func.value.value.id] = 'successor'
                elif [e, k] == ab:
                    dirs[cnode.func.value.value.id] = 'predecessor'
    if not dirs:
        raise AnalysisError(f"{im.qual}: cannot find the adjacency maps built from all_constraints")
    im._dirs = dirs
    return dirs


def _kosaraju_orientation(im):
    """(first-argument name, second-result name) of the kosaraju_scc call in the enclosing function, after checking
    that the condensation graph it returns follows the orientation of its first parameter"""
    calls = [n for n in walk_no_nested(im.outer) if isinstance(n, ast.Assign) and isinstance(n.value, ast.Call)
             and isinstance(n.value.func, ast.Name) and isinstance(n.targets[0], (ast.Tuple, ast.List))
             and len(n.targets[0].elts) == 2 and len(n.value.args) == 2
             and isinstance(im.repo.resolve(im.mod, n.value.func.id) or (None, None), tuple)
             and isinstance((im.repo.resolve(im.mod, n.value.func.id) or (None, None))[1], ast.FunctionDef)
             and any(isinstance(x, ast.Return) and isinstance(x.value, ast.Tuple)
                     for x in ast.walk((im.repo.resolve(im.mod, n.value.func.id))[1]))]
    calls = [c for c in calls if 'scc' in c.value.func.id.lower()]
    if len(calls) != 1:
        raise AnalysisError(f"{im.qual}: cannot locate the SCC computation call")
    c = calls[0]
    km, kf = im.repo.resolve(im.mod, c.value.func.id)
    p0 = kf.args.args[0].arg
    ret = [x for x in walk_no_nested(kf) if isinstance(x, ast.Return)][-1].value
    gn = norm(ret.elts[1])
    adds = [x for x in walk_no_nested(kf) if is_method_call(x, 'add') and isinstance(x.func.value, ast.Subscript)
            and norm(x.func.value.value) == gn and len(x.args) == 1]
    if not adds:
        raise AnalysisError(f"kosaraju_scc: cannot find where the condensation graph {gn} gets its edges")
    from sa.astutil import reaching_value
    for a in adds:
        outer_for = inner_for = None
        q = parent(a)
        while q is not None and q is not kf:
            if isinstance(q, ast.For):
                if inner_for is None:
                    inner_for = q
                else:
                    outer_for = q
                    break
            q = parent(q)
        good = False
        if outer_for is not None and is_method_call(outer_for.iter, 'items') and norm(outer_for.iter.func.value) == p0:
            ku = _pair_names(outer_for.target)
            kv = inner_for.target.id if isinstance(inner_for.target, ast.Name) else None
            src, dst = a.func.value.slice, a.args[0]
            rs = reaching_value(src.id, a) if isinstance(src, ast.Name) else src
            rd = reaching_value(dst.id, a) if isinstance(dst, ast.Name) else dst
            if ku and kv and isinstance(rs, ast.Subscript) and isinstance(rd, ast.Subscript) \
                    and norm(rs.slice) == ku[0] and norm(rd.slice) == kv and norm(inner_for.iter) == ku[1]:
                good = True
        if not good:
            raise AnalysisError("kosaraju_scc: condensation edges are not built as G_new[scc(u)].add(scc(v)) for u -> v "
                                "of the first argument")
    return norm(c.value.args[0]), norm(c.targets[0].elts[1]), norm(c.value.args[1])


def _pred_direction(im, SP):
    """direction ('predecessor'/'successor') of the SCC recorded in SP[...] relative to the graph maps"""
    dirs = adjacency_dirs(im)
    a0, gn, a1 = _kosaraju_orientation(im)
    if a0 not in dirs:
        raise AnalysisError(f"{im.qual}: first argument {a0} of the SCC computation is not an adjacency map")
    stores = [n for n in ast.walk(im.outer) if isinstance(n, ast.Assign) and len(n.targets) == 1
              and isinstance(n.targets[0], ast.Subscript) and norm(n.targets[0].value) == SP]
    if not stores:
        raise AnalysisError(f"{im.qual}: {SP} is never filled")
    rel = None
    for st in stores:
        if isinstance(st.value, ast.Constant) and st.value.value is None:
            continue
        key, val = norm(st.targets[0].slice), norm(st.value)
        lp = parent(st)
        while lp is not None and not (isinstance(lp, ast.For) and norm(lp.target) == key):
            lp = parent(lp)
        if lp is None or not (isinstance(lp.iter, ast.Subscript) and norm(lp.iter.value) == gn and norm(lp.iter.slice) == val):
            raise AnalysisError(f"{im.qual}: `{norm(st)}` is not recorded along an edge of the condensation graph {gn}")
        rel = 'same'
    if rel is None:
        raise AnalysisError(f"{im.qual}: {SP} never records a neighbouring SCC")
    # SP[v] = u with v in G_new[u]: u precedes v in the orientation of the first argument
    return 'predecessor' if dirs[a0] == 'successor' else 'successor', dirs, (a0, a1)


def _check_seeds(r, im, Q, w):
    from sa.astutil import reaching_value
    m, fn = im.mod, im.qual
    blk = _siblings(w)
    idx = [i for i, x in enumerate(blk) if x is w][0]
    def _resets(st):
        return (isinstance(st, ast.Assign) and any(norm(t) == Q for t in st.targets)) or \
               (isinstance(st, ast.Expr) and is_method_call(st.value, 'clear') and norm(st.value.func.value) == Q)
    inits = [i for i in range(idx) if _resets(blk[i])]
    if not inits:
        # created further out (e.g. before the per-SCC loop) and reused: it is empty again whenever the BFS loop ends
        outer_inits = [st for st in preceding_stmts(w) if _resets(st)]
        if not outer_inits:
            raise AnalysisError(f"{fn}: worklist {Q} is never initialised before the BFS loop")
        between = blk[:idx]
        init_v = None
    else:
        between = blk[inits[-1] + 1: idx]
        init_v = blk[inits[-1]].value if isinstance(blk[inits[-1]], ast.Assign) else None

    def is_push(c):
        return isinstance(c, ast.Call) and isinstance(c.func, ast.Attribute) and norm(c.func.value) == Q \
            and c.func.attr in ('append', 'appendleft', 'extend')

    def must(stmts):
        for s in stmts:
            if isinstance(s, ast.Expr) and is_push(s.value):
                return True
            if isinstance(s, (ast.For, ast.While)) and any(is_push(c) for c in walk_no_nested(s)):
                return True
            if isinstance(s, ast.If) and s.orelse and must(s.body) and must(s.orelse):
                return True
        return False
    seeded_init = init_v is not None and (isinstance(init_v, ast.Call) and bool(init_v.args) or
                                          (isinstance(init_v, (ast.List, ast.Tuple)) and bool(init_v.elts)))
    cons = f"seeds of {Q} before `while {norm(w.test)}`"
    if not seeded_init and not must(between):
        r.bad(m, fn, cons, "on some path the BFS starts from an empty worklist: the super-block is generated with no block "
              "at all and returns the stale values after one trivial pass", w.lineno)
    else:
        r.ok(m, fn, cons + ": every path pushes a start block")
    pushes = [c for s in between for c in walk_no_nested(s) if is_push(c)]
    for c in pushes:
        st = _stmt_of(c)
        e = c.args[0] if c.args else None
        pc = f"{norm(c)}"
        # which loop binds the pushed name
        member = False
        bind = None
        if isinstance(e, ast.Name):
            q = parent(st)
            while q is not None and q is not im.root:
                if isinstance(q, ast.For) and isinstance(q.target, ast.Name) and q.target.id == e.id:
                    bind = q
                    break
                q = parent(q)
            if bind is not None:
                member = norm(strip_wrappers(bind.iter)) == im.scc_name
        elif isinstance(e, ast.Call) and norm(e.func) in ('max', 'min', 'next') and e.args:
            a0 = e.args[0]
            if isinstance(a0, ast.Call) and norm(a0.func) == 'iter' and a0.args:
                a0 = a0.args[0]
            src = reaching_value(a0.id, st) if isinstance(a0, ast.Name) and a0.id != im.scc_name else a0
            if isinstance(src, ast.Name) and src.id == im.scc_name:
                member = True
            elif isinstance(src, ast.DictComp) and len(src.generators) == 1 and not src.generators[0].ifs \
                    and norm(strip_wrappers(src.generators[0].iter)) == im.scc_name \
                    and norm(src.key) == norm(src.generators[0].target):
                member = True
        if not member:
            r.bad(m, fn, pc, f"the BFS is seeded with `{norm(e)}`, which is not taken from the blocks of the SCC "
                             f"({im.scc_name})", c.lineno)
            continue
        gs = [g for g in guards_of(st, stop=bind) if g.kind in ('if', 'exit', 'assert')] if bind is not None else []
        if not gs:
            r.ok(m, fn, pc + ": an arbitrary block of the SCC")
            continue
        # guarded seed: `for v in M[x]: if v in PRED: push x` -- M must point towards the SCC recorded in scc_pred
        inner = parent(st)
        while inner is not None and inner is not bind and not isinstance(inner, ast.For):
            inner = parent(inner)
        test_ok = len(gs) == 1 and gs[0].polarity is True and isinstance(gs[0].test, ast.Compare) \
            and len(gs[0].test.ops) == 1 and isinstance(gs[0].test.ops[0], ast.In) and isinstance(inner, ast.For) \
            and inner is not bind and norm(gs[0].test.left) == norm(inner.target) \
            and isinstance(gs[0].test.comparators[0], ast.Name) \
            and isinstance(strip_wrappers(inner.iter), ast.Subscript) and norm(strip_wrappers(inner.iter).slice) == e.id
        if not test_ok:
            raise AnalysisError(f"{fn}: guarded BFS seed `{norm(st)}` has a shape the rule does not understand")
        PRED = gs[0].test.comparators[0].id
        pv = reaching_value(PRED, st)
        core = pv
        while isinstance(core, ast.Call) and isinstance(core.func, ast.Name) and core.func.id in WRAPPERS and core.args:
            core = core.args[0]
        if not (isinstance(core, ast.Subscript) and isinstance(core.slice, ast.Subscript)
                and isinstance(core.slice.value, ast.Name)):
            if pv is None:
                raise AnalysisError(f"{fn}: cannot resolve the neighbouring SCC `{PRED}`")
            r.bad(m, fn, f"{PRED} = {norm(pv)} / {pc}",
                  f"the entry blocks of an SCC are searched among the neighbours lying in `{norm(pv)}`, not in the blocks of the "
                  f"neighbouring SCC recorded by the SCC-level sort (SCCs[scc_pred[i]]): with two non-trivial SCCs in a row the "
                  f"first one is present there only as its generated wrapped_SCC function, no edge endpoint matches, the worklist "
                  f"stays empty and the super-block of the second SCC runs no block", st.lineno)
            continue
        SP = core.slice.value.id
        want, dirs, _ = _pred_direction(im, SP)
        M = norm(strip_wrappers(inner.iter).value)
        cons2 = f"for {norm(inner.target)} in {norm(inner.iter)}: if {norm(gs[0].test)}: {pc}"
        if M not in dirs:
            r.bad(m, fn, cons2, f"`{M}` is not an adjacency map built from the scheduling constraints", inner.lineno)
        elif dirs[M] != want:
            r.bad(m, fn, cons2, f"`{PRED}` is the {want} SCC recorded in {SP}, but its blocks are searched in the "
                                f"{dirs[M]} map `{M}`: no block is ever found, the worklist stays empty and the super-block "
                                f"runs no block of the cycle", inner.lineno)
        else:
            r.ok(m, fn, cons2 + f" ({want} SCC searched in the {dirs[M]} map)")


def _check_partition(r, im, LIST, P):
    """Mamba trace breaking inside an SCC: the parts stored in P contain every block of LIST exactly once"""
    m, fn, root = im.mod, im.qual, im.root
    loops = []
    for lp in [n for n in walk_no_nested(root) if isinstance(n, ast.For)]:
        core = strip_wrappers(lp.iter)
        enum = isinstance(core, ast.Call) and norm(core.func) == 'enumerate' and core.args
        if enum:
            core = strip_wrappers(core.args[0])
        if mentions(core, LIST) and any(is_method_call(c, 'append') and norm(c.func.value) == P
                                        for s in lp.body for c in walk_no_nested(s)):
            loops.append((lp, core, enum))
    if len(loops) != 1:
        raise AnalysisError(f"{fn}: cannot locate the loop that splits {LIST} into {P} ({len(loops)})")
    lp, core, enum = loops[0]
    if not isinstance(core, ast.Name):
        r.bad(m, fn, f"for {norm(lp.target)} in {norm(lp.iter)}", f"the trace-breaking loop does not visit all of {LIST}",
              lp.lineno)
        return
    names = _pair_names(lp.target) if enum else None
    blk = names[1] if names else (lp.target.id if isinstance(lp.target, ast.Name) else None)
    if blk is None:
        raise AnalysisError(f"{fn}: trace-breaking loop target {norm(lp.target)}")
    curs = {norm(c.args[0]) for s in lp.body for c in walk_no_nested(s)
            if is_method_call(c, 'append') and norm(c.func.value) == P and len(c.args) == 1}
    if len(curs) != 1:
        raise AnalysisError(f"{fn}: parts appended to {P}: {sorted(curs)}")
    CUR = curs.pop()
    n_ok = 0
    for events, outcome in Paths(max_iter=1).block(lp.body):
        r.evaluations += 1
        conds = ' and '.join(f"{'' if ev[2] else 'not '}({norm(ev[1])})" for ev in events if ev[0] == 'branch') or 'always'
        if outcome == 'raise':
            continue
        cur, fresh, stored, placed, lost = 0, 0, set(), [], False
        for ev in events:
            if ev[0] != 'stmt':
                continue
            st = ev[1]
            if isinstance(st, ast.Expr) and is_method_call(st.value, 'append') and len(st.value.args) == 1:
                rcv, a = norm(st.value.func.value), norm(st.value.args[0])
                if rcv == CUR and a == blk:
                    placed.append(cur)
                elif rcv == P and a == CUR:
                    stored.add(cur)
            elif isinstance(st, ast.Assign):
                pairs = []
                for t in st.targets:
                    if isinstance(t, (ast.Tuple, ast.List)) and isinstance(st.value, (ast.Tuple, ast.List)) \
                            and len(t.elts) == len(st.value.elts):
                        pairs += list(zip(t.elts, st.value.elts))
                    else:
                        pairs.append((t, st.value))
                for t, val in pairs:
                    if norm(t) == CUR:
                        if cur not in stored:
                            lost = True
                        fresh += 1
                        cur = fresh
                        if isinstance(val, (ast.List, ast.Tuple)):
                            placed += [cur for x in val.elts if norm(x) == blk]
                        elif not (isinstance(val, ast.Call) and norm(val.func) == 'list' and not val.args):
                            lost = True
            elif isinstance(st, ast.AugAssign) and norm(st.target) == CUR and isinstance(st.value, (ast.List, ast.Tuple)):
                placed += [cur for x in st.value.elts if norm(x) == blk]
        good = outcome in ('fall', 'continue') and not lost and len(placed) == 1 and (placed[0] in stored or placed[0] == cur)
        if good:
            n_ok += 1
            r.ok(m, fn, f"trace-breaking path [{conds}]: block is in exactly one part")
        else:
            why = "the loop is left early" if outcome not in ('fall', 'continue') else \
                "the current part is replaced before it was stored" if lost else \
                f"the block is put into {len(placed)} parts" if len(placed) != 1 else "the part holding the block is dropped"
            r.bad(m, fn, f"trace-breaking path [{conds}]", f"{why}: a block of the cycle is lost from (or duplicated in) the "
                  f"super-block", lp.lineno)
    # tail flush
    after = _siblings(lp)
    after = after[[i for i, x in enumerate(after) if x is lp][0] + 1:]
    flush = [c for s in after for c in walk_no_nested(s) if is_method_call(c, 'append') and norm(c.func.value) == P
             and [norm(a) for a in c.args] == [CUR]]
    okf = False
    if flush:
        gs = [g for g in guards_of(_stmt_of(flush[0]), stop=parent(lp)) if g.kind in ('if', 'exit')]
        gs = [g for g in gs if not inside(lp, g.node)]
        okf = True
        for n in (1, 2):
            def leaf(e, n=n):
                if isinstance(e, ast.Name) and e.id == CUR:
                    return n
                if isinstance(e, ast.Call) and norm(e.func) == 'len' and [norm(a) for a in e.args] == [CUR]:
                    return n
                return NotImplemented
            try:
                okf = okf and all(bool(Evaluator({}, arith=True, leaf=leaf).ev(g.test)) == g.polarity for g in gs
                                  if mentions(g.test, CUR))
            except AnalysisError:
                okf = False
    if okf:
        r.ok(m, fn, f"{norm(_stmt_of(flush[0]))[:60]}: the last, unfinished part is stored")
    else:
        r.bad(m, fn, f"{P}.append({CUR}) after the trace-breaking loop", "the last part is not stored whenever it is non-empty: "
              "its blocks are missing from the super-block", lp.lineno)


def _check_nontrivial(r, im, E0):
    """every SCC with two or more blocks reaches the generation of a super-block"""
    S = im.scc_name
    gs = [g for g in guards_of(E0) if g.kind in ('if', 'exit') and mentions(g.test, S)
          and any(isinstance(n, ast.Call) and norm(n.func) == 'len' for n in ast.walk(g.test))]
    if not gs:
        return
    region = {}
    for n in (1, 2, 3, 4, 7):
        def leaf(e, n=n):
            if isinstance(e, ast.Call) and norm(e.func) == 'len' and [norm(a) for a in e.args] == [S]:
                return n
            return NotImplemented
        region[n] = all(bool(Evaluator({}, arith=True, leaf=leaf).ev(g.test)) == g.polarity for g in gs)
        r.evaluations += 1
    cons = ' and '.join(f"{'' if g.polarity else 'not '}({norm(g.test)})" for g in gs) + f" before {norm(E0)[:40]}"
    missed = [n for n in (2, 3, 4, 7) if not region[n]]
    if missed:
        r.bad(im.mod, im.qual, cons, f"an SCC with {missed[0]} blocks does not get a super-block: it is scheduled like a single "
              f"block, so the other blocks of the cycle are dropped or the cycle is evaluated once", E0.lineno)
    else:
        r.ok(im.mod, im.qual, cons + ": every SCC with >= 2 blocks gets a super-block")


def _check_isolation(r, im):
    """each super-block resolves its block functions in its own namespace: the globals mapping handed to exec is created
    per SCC, or no entry of a shared mapping is re-assigned per SCC (the generated code looks names up at call time)"""
    m, fn = im.mod, im.qual
    emits = im.emits()
    scopes = [im.root] + [im.builder.local_defs[n] for n in sorted(im.builder.emit_funcs)]
    for e in emits:
        if isinstance(e.globals, Sym):
            k = e.globals.key
            name = k[1] if k[0] == 'free' else None
            touched = [n for sc in scopes for n in ast.walk(sc) if name and (
                (isinstance(n, ast.Subscript) and isinstance(n.ctx, ast.Store) and norm(n.value) == name) or
                (isinstance(n, ast.Call) and isinstance(n.func, ast.Attribute) and norm(n.func.value) == name
                 and n.func.attr in ('update', 'setdefault', '__setitem__')))]
            if touched:
                keys = sorted({norm(n.slice) if isinstance(n, ast.Subscript) else norm(n) for n in touched})
                r.bad(m, fn, f"{norm(e.call)}: globals `{name}` created outside the per-SCC code",
                      f"the mapping `{name}` handed to exec as the globals of every super-block is created once outside "
                      f"{im.root.name} and its entries {keys} are re-assigned for every SCC; the generated loop resolves them "
                      f"when it is called, so every super-block runs the blocks of the SCC compiled last and the other cycles "
                      f"are never evaluated", e.call.lineno)
                return False
            raise AnalysisError(f"{fn}: the globals handed to exec ({e.globals!r}) are not created by the analysed code")
    shared = [e for e in emits if e.reuse >= 2 and e.rewritten]
    if shared:
        e = shared[0]
        r.bad(m, fn, f"{norm(e.call)}: one globals mapping for all SCCs, entries {list(e.rewritten)} re-assigned",
              f"the same globals mapping `{norm(e.globals_arg)}` is handed to exec for a second SCC after its entries "
              f"{list(e.rewritten)} were re-assigned; the generated loop resolves these names when it is called, so every "
              f"super-block runs the blocks of the SCC generated last and the other cyclic groups are never evaluated "
              f"(needs two non-trivial SCCs)", e.call.lineno)
        return True
    twice = any(len([x for x in emits if x.plan == e.plan and x.choices[:1] == e.choices[:1]]) >= 2 for e in emits)
    r.ok(m, fn, f"{norm(emits[0].call)}: globals mapping `{norm(emits[0].globals_arg)}` is created per super-block"
                + (" (paths generating two super-blocks checked)" if twice else ""))
    return True


def _check_condensation_indegree(r, im):
    """the SCC-level topological sort counts every edge of the condensation graph in the in-degree of its target,
    whatever the kind of the source SCC"""
    m = im.mod
    fn = im.qual if im.outer is im.root else im.qual.rsplit('.', 1)[0]
    _, gn, _ = _kosaraju_orientation(im)
    loops = [lp for lp in walk_no_nested(im.outer) if isinstance(lp, ast.For) and is_method_call(strip_wrappers(lp.iter), 'items')
             and norm(strip_wrappers(lp.iter).func.value) == gn and _pair_names(lp.target)]
    cand = []
    for lp in loops:
        u, vs = _pair_names(lp.target)
        inner = [f for s in lp.body for f in walk_no_nested(s) if isinstance(f, ast.For)
                 and norm(strip_wrappers(f.iter)) == vs and isinstance(f.target, ast.Name)]
        incs = [(f, a) for f in inner for s in f.body for a in walk_no_nested(s)
                if isinstance(a, ast.AugAssign) and isinstance(a.op, ast.Add) and norm(a.value) == '1'
                and isinstance(a.target, ast.Subscript) and norm(a.target.slice) == f.target.id]
        if incs:
            cand.append((lp, inner, incs))
    if len(cand) != 1:
        raise AnalysisError(f"{fn}: cannot locate the in-degree pre-pass over the condensation graph {gn} ({len(cand)})")
    lp, inner, incs = cand[0]
    f, inc = incs[0]
    if strip_wrappers(f.iter) is not f.iter and not isinstance(f.iter, ast.Call):
        r.bad(m, fn, f"for {norm(f.target)} in {norm(f.iter)}", "not every successor SCC is counted", f.lineno)
    for events, outcome in Paths(max_iter=1).block(lp.body):
        r.evaluations += 1
        conds = ' and '.join(f"{'' if ev[2] else 'not '}({norm(ev[1])})" for ev in events
                             if ev[0] == 'branch') or 'always'
        reached = any(ev[0] in ('iter', 'exhaust') and ev[1] is f for ev in events)
        if outcome == 'raise' or (outcome == 'cut' and reached):
            continue
        if reached and outcome in ('fall', 'continue'):
            r.ok(m, fn, f"in-degree pre-pass, source SCC with [{conds}]: out-edges counted ({norm(inc)})")
        else:
            r.bad(m, fn, f"in-degree pre-pass, source SCC with [{conds}]",
                  f"for a source SCC with [{conds}] the loop body is left before `{norm(inc)}`: its out-edges are not counted, so "
                  f"the successor SCCs have in-degree 0, are scheduled BEFORE this SCC and are never re-evaluated after it "
                  f"(chain trivial -> non-trivial -> trivial: in-degree of the last is 0 instead of 1; stale downstream values)",
                  lp.lineno)
    gs = [g for g in guards_of(inc, stop=f) if g.kind in ('if', 'exit', 'assert')]
    if gs:
        r.bad(m, fn, f"{norm(inc)} if {' and '.join(norm(g.test) for g in gs)}", "an edge of the condensation graph is counted "
              "only conditionally: the target SCC can be scheduled before its predecessor", inc.lineno)
    else:
        r.ok(m, fn, f"for {norm(f.target)} in {norm(f.iter)}: {norm(inc)} unconditionally")


def _per_scc_region(im, E0):
    region = None
    p = parent(E0)
    while p is not None and p is not im.root:
        if isinstance(p, ast.For):
            region = p
        p = parent(p)
    return region or im.root


def _check_fresh_block_list(r, im):
    """a block list that the generated SCC function holds by reference (the tick function iterates it when the wrapper is
    CALLED) must be a fresh object per SCC; two-SCC evaluation: after SCC 2 is compiled, wrapper 1 must still run SCC 1"""
    m, fn = im.mod, im.qual
    for L in sorted(getattr(im, 'lists_by_ref', set())):
        for E0 in emission_stmts(im):
            region = _per_scc_region(im, E0)
            created = [a for a in preceding_stmts(E0) if isinstance(a, (ast.Assign, ast.AnnAssign))
                       and L in {x.id for t in (a.targets if isinstance(a, ast.Assign) else [a.target]) for x in ast.walk(t)
                                 if isinstance(x, ast.Name) and isinstance(x.ctx, ast.Store)}
                       and (region is im.root or inside(a, region))]
            refills = [norm(_stmt_of(c)) for c in walk_no_nested(region) if isinstance(c, ast.Call)
                       and isinstance(c.func, ast.Attribute) and norm(c.func.value) == L
                       and c.func.attr in ('clear', 'append', 'extend', 'insert', 'pop')]
            cons = f"block list `{L}` held by reference by the generated SCC function ({norm(E0)[:50]})"
            if region is im.root and not created:
                raise AnalysisError(f"{fn}: cannot find where the block list {L} is created")
            if created:
                r.ok(m, fn, cons + f": created per SCC ({norm(created[-1])})")
            else:
                r.bad(m, fn, cons,
                      f"`{L}` is created once before the per-SCC loop and only emptied / refilled per SCC ({'; '.join(refills[:3])}); "
                      f"every generated wrapped_SCC_n runs `{L}` through the tick function when it is CALLED, and they all hold "
                      f"that one list: with two non-trivial SCCs, after SCC 2 is compiled the list holds SCC 2's blocks, so "
                      f"wrapper 1 runs SCC 2's blocks and the blocks of SCC 1 are never evaluated", E0.lineno)
    if im.name == 'Mamba':
        # the meta blocks copy their elements at compile time: the list parameter is only iterated
        f = im.mod.get_func('Mamba2020Pass.compile_meta_block')
        p = f.args.args[1].arg if len(f.args.args) > 1 else None
        uses = [n for n in ast.walk(f) if isinstance(n, ast.Name) and n.id == p and isinstance(n.ctx, ast.Load)]

        def iterated(n):
            q = parent(n)
            while isinstance(q, ast.Call) and isinstance(q.func, ast.Name) and q.func.id in (WRAPPERS | {'enumerate'}):
                n, q = q, parent(q)
            return (isinstance(q, (ast.For, ast.comprehension)) and q.iter is n) or \
                   (isinstance(q, ast.Call) and norm(q.func) == 'len')
        cons = f"Mamba2020Pass.compile_meta_block({p}): the part is only iterated (blocks bound one by one at compile time)"
        if p and uses and all(iterated(n) for n in uses):
            r.ok(im.mod, 'Mamba2020Pass.compile_meta_block', cons)
        else:
            r.bad(im.mod, 'Mamba2020Pass.compile_meta_block', cons, f"the list `{p}` itself is kept by the compiled meta block: a "
                  f"part list that is reused for the next part/SCC changes what an already compiled meta block runs", f.lineno)


# -- abstract evaluation of the BFS linearisation over small non-ring SCC shapes -----------------------------------------
_BFS_SHAPES = [
    # (label, SCC vertices, edges incl. one edge leaving the SCC to the foreign block 'o')
    ('hub with three 2-cycles', ['h', 'a', 'b', 'c'],
     [('h', 'a'), ('a', 'h'), ('h', 'b'), ('b', 'h'), ('h', 'c'), ('c', 'h'), ('h', 'o')]),
    ('figure-eight', ['m', 'a', 'b', 'c', 'd'],
     [('m', 'a'), ('a', 'b'), ('b', 'm'), ('m', 'c'), ('c', 'd'), ('d', 'm'), ('c', 'o')]),
    ('ring with a chord', ['p', 'q', 'r', 's'],
     [('p', 'q'), ('q', 'r'), ('r', 's'), ('s', 'p'), ('p', 'r'), ('q', 'o')]),
    ('plain ring', ['x', 'y', 'z'], [('x', 'y'), ('y', 'z'), ('z', 'x'), ('o', 'x')]),
]


class _GraphEval(Evaluator):
    """expressions of the BFS loop over concrete small graphs: lists stand for sets/deques, dicts for adjacency maps"""
    def ev_Subscript(self, e):
        base, idx = self.ev(e.value), self.ev(e.slice)
        try:
            return base[idx]
        except (KeyError, IndexError, TypeError):
            raise AnalysisError(f"BFS evaluation: `{norm(e)}` has no value on the model graph")

    def ev_Compare(self, e):
        left = self.ev(e.left)
        for op, rt in zip(e.ops, e.comparators):
            right = self.ev(rt)
            if isinstance(op, (ast.In, ast.NotIn)) and isinstance(right, (list, dict)):
                res = (left in right) == isinstance(op, ast.In)
            elif isinstance(op, (ast.Eq, ast.Is)):
                res = left == right
            elif isinstance(op, (ast.NotEq, ast.IsNot)):
                res = left != right
            elif isinstance(op, (ast.Lt, ast.LtE, ast.Gt, ast.GtE)) and isinstance(left, int) and isinstance(right, int):
                res = {ast.Lt: left < right, ast.LtE: left <= right, ast.Gt: left > right, ast.GtE: left >= right}[type(op)]
            else:
                raise AnalysisError(f"BFS evaluation: comparison `{norm(e)}` outside the evaluated vocabulary")
            if not res:
                return False
            left = right
        return True

    def ev_Call(self, e):
        f = e.func
        args = [self.ev(a) for a in e.args]
        if isinstance(f, ast.Attribute):
            recv = self.ev(f.value)
            if isinstance(recv, list):
                if f.attr in ('append', 'add') and len(args) == 1:
                    if f.attr == 'append' or args[0] not in recv:
                        recv.append(args[0])
                    return None
                if f.attr == 'appendleft' and len(args) == 1:
                    recv.insert(0, args[0])
                    return None
                if f.attr == 'popleft' and not args and recv:
                    return recv.pop(0)
                if f.attr == 'pop' and recv and all(isinstance(a, int) for a in args):
                    return recv.pop(*args)
                if f.attr in ('extend', 'update') and len(args) == 1 and isinstance(args[0], list):
                    for x in args[0]:
                        if f.attr == 'extend' or x not in recv:
                            recv.append(x)
                    return None
        elif isinstance(f, ast.Name):
            if f.id in ('set', 'list', 'deque', 'sorted', 'reversed', 'tuple') and len(args) <= 1:
                src = list(args[0]) if args else []
                if f.id == 'set':
                    src = list(dict.fromkeys(src))
                return list(reversed(src)) if f.id == 'reversed' else (sorted(src) if f.id == 'sorted' else src)
            if f.id == 'len' and len(args) == 1 and isinstance(args[0], (list, dict)):
                return len(args[0])
        raise AnalysisError(f"BFS evaluation: call `{norm(e)}` outside the evaluated vocabulary")


def _run_graph_stmts(stmts, ev, fuel):
    for st in stmts:
        fuel[0] -= 1
        if fuel[0] < 0:
            raise _Jump('fuel')
        if isinstance(st, ast.If):
            _run_graph_stmts(st.body if ev.ev(st.test) else st.orelse, ev, fuel)
        elif isinstance(st, ast.Assign) and len(st.targets) == 1 and isinstance(st.targets[0], ast.Name):
            ev.env[st.targets[0].id] = ev.ev(st.value)
        elif isinstance(st, ast.Expr):
            ev.ev(st.value)
        elif isinstance(st, (ast.For, ast.While)):
            def body_once():
                try:
                    _run_graph_stmts(st.body, ev, fuel)
                except _Jump as j:
                    if j.kind == 'break':
                        return False
                    if j.kind != 'continue':
                        raise
                return True
            if isinstance(st, ast.For):
                if not isinstance(st.target, ast.Name):
                    raise AnalysisError(f"BFS evaluation: loop target {norm(st.target)}")
                for el in list(ev.ev(st.iter)):
                    ev.env[st.target.id] = el
                    if not body_once():
                        break
            else:
                while ev.ev(st.test):
                    fuel[0] -= 1
                    if fuel[0] < 0:
                        raise _Jump('fuel')
                    if not body_once():
                        break
        elif isinstance(st, ast.Continue):
            raise _Jump('continue')
        elif isinstance(st, ast.Break):
            raise _Jump('break')
        elif isinstance(st, ast.Pass):
            pass
        else:
            raise AnalysisError(f"BFS evaluation: statement outside the evaluated vocabulary: {norm(st)[:80]}")


def bfs_results(im, LIST, Q, w):
    """[(shape, seed, scheduled list or None when it does not terminate)] of the BFS loop `w` on the model graphs"""
    c = getattr(im, '_bfs_results', None)
    if c is not None:
        return c
    dirs = adjacency_dirs(im)
    blk = _siblings(w)
    idx = [i for i, x in enumerate(blk) if x is w][0]
    pre = [st for st in blk[:idx] if isinstance(st, ast.Assign) and len(st.targets) == 1 and isinstance(st.targets[0], ast.Name)
           and st.targets[0].id not in (Q, LIST) and names_in(st.value) <= {Q, 'set', 'list', 'deque'}]
    out = []
    for label, verts, edges in _BFS_SHAPES:
        allv = sorted({x for e in edges for x in e})
        maps = {}
        for nm, d in dirs.items():
            maps[nm] = {x: [] for x in allv}
            for a, b in edges:
                (maps[nm][a].append(b) if d == 'successor' else maps[nm][b].append(a))
        for seeds in [[x] for x in verts] + [list(verts)]:
            env = dict(maps)
            env.update({im.scc_name: list(verts), Q: list(seeds), LIST: []})
            ev = _GraphEval(env, arith=True)
            try:
                _run_graph_stmts(pre + [w], ev, [4000])
                res = list(ev.env[LIST])
            except _Jump:
                res = None
            out.append((label, verts, seeds, res))
    im._bfs_results = out
    return out


def _check_bfs_shapes(r, im, LIST, Q, w):
    m, fn = im.mod, im.qual
    for label, verts, seeds, res in bfs_results(im, LIST, Q, w):
        r.evaluations += 1
        cons = f"BFS over a {label} {{{', '.join(verts)}}} from {{{', '.join(seeds)}}}"
        if res is None:
            r.bad(m, fn, cons, f"on a {label} the BFS started at {seeds} never terminates: scheduling hangs", w.lineno)
        elif set(res) != set(verts):
            missing, foreign = sorted(set(verts) - set(res)), sorted(set(res) - set(verts))
            r.bad(m, fn, cons, f"on a {label} the BFS started at {seeds} schedules {res}: " +
                  (f"the blocks {missing} of the SCC are never put into the super-block and never run" if missing else
                   f"the foreign blocks {foreign} are dragged into the loop of this SCC"), w.lineno)
        else:
            r.ok(m, fn, cons + f": schedules {res}")


def _check_meta_block_source(r, repo):
    """Mamba2020Pass.compile_meta_block: the generated meta block CALLS every block it was given, once, by the name the
    block is bound to in the globals of the exec"""
    m = repo.mod(MAMBA)
    f = m.get_func('Mamba2020Pass.compile_meta_block')
    fn = 'Mamba2020Pass.compile_meta_block'
    b = SrcBuilder(f)
    emits = b.run_all(triple=lambda node: isinstance(node, ast.For))
    if not emits:
        raise AnalysisError(f"{fn}: partial evaluation found no generated source")
    for e in emits:
        if not isinstance(e.globals, dict):
            raise AnalysisError(f"{fn}: globals of the generated meta block are not statically known")
        bound = [k for k, v in e.globals.items() if isinstance(v, Sym) and v.key[0] == 'elem']
        label = f"meta block of {len(bound)} block(s) [{'; '.join(c for c, t in e.choices if t) or 'plain'}]"
        try:
            tree = ast.parse(e.src)
        except SyntaxError as ex:
            r.bad(m, fn, f"{label}: syntax", f"generated meta block does not compile: {ex.msg}", e.call.lineno)
            continue
        fd = [x for x in tree.body if isinstance(x, ast.FunctionDef)]
        if len(fd) != 1:
            r.bad(m, fn, f"{label}: function", "generated source does not define exactly one meta block function", e.call.lineno)
            continue
        calls = [norm(st.value.func) for st in fd[0].body if isinstance(st, ast.Expr) and isinstance(st.value, ast.Call)]
        bare = [norm(st.value) for st in fd[0].body if isinstance(st, ast.Expr) and not isinstance(st.value, (ast.Call, ast.Constant))]
        probs = []
        for k in bound:
            if calls.count(k) != 1:
                probs.append(f"block `{k}` is called {calls.count(k)} times (expected once)" +
                             (f"; the statement `{k}` only references it" if k in bare else ''))
        for c in calls:
            if c not in e.globals:
                probs.append(f"`{c}()` is not bound in the globals of the meta block")
        if [c for c in calls if c in bound] != [k for k in bound if k in calls]:
            probs.append("the blocks are not called in the order of the list")
        if probs:
            for pb in probs:
                r.bad(m, fn, f"{label}: {pb[:60]}", pb + ": a block (for an SCC: the whole generated wrapped_SCC loop) that is placed "
                      "in a meta block is never executed, its outputs keep stale values", e.call.lineno)
        else:
            r.ok(m, fn, f"{label}: every bound block is called once, in order")


def rule_cover(repo):
    r = RuleResult('R-C11-cover',
                   "the loop re-evaluates every block of the SCC: the BFS schedule reaches the whole SCC from a non-empty "
                   "seed, and the generated loop calls exactly the blocks of that schedule (directly, through the tick "
                   "function, or through the trace-breaking partition)")
    for im in impls(repo):
        im.locate()
        if not im._collected:
            _check_collection(RuleResult('scratch', ''), im)
        if im.scc_name is None:
            raise AnalysisError(f"{im.qual}: cannot identify the SCC set")
        _check_condensation_indegree(r, im)
        for E0 in emission_stmts(im):
            _check_nontrivial(r, im, E0)
        if not _check_isolation(r, im):
            continue
        lists = _check_emitted_blocks(r, im)
        _check_fresh_block_list(r, im)
        whole = sorted({n for k, n in lists if k == 'whole'})
        parts = sorted({n for k, n in lists if k in ('last', 'parts')})
        if len(whole) != 1:
            r.bad(im.mod, im.qual, f"block lists {whole}", "the generated loops do not all run one and the same schedule of "
                  "the SCC")
            continue
        Q, w = _check_bfs(r, im, whole[0])
        if Q is not None:
            _check_seeds(r, im, Q, w)
            _check_bfs_shapes(r, im, whole[0], Q, w)
            im.bfs_parts = (whole[0], Q, w)
        for P in parts:
            _check_partition(r, im, whole[0], P)
    _check_meta_block_source(r, repo)
    _floor(r, 135)
    return r



# ---------------------------------------------------------------------------
# R-C11-siblings
def _openloop_observation(repo):
    """OpenLoopCLPass carries a third copy of the SCC code; it is outside C11's anchors: observation only"""
    try:
        if not repo.exists(OPENLOOP):
            return "OpenLoopCLPass.py not present"
        m = repo.mod(OPENLOOP)
        f = m.get_func('OpenLoopCLPass.schedule_with_top_level_callee')
        notes = []
        if not any(is_method_call(n, 'get_all_update_once') for n in ast.walk(f)):
            notes.append("no update_once-in-SCC rejection")
        b = SrcBuilder(f)
        emits = b.run_all()
        kinds = set()
        for e in emits:
            g = Gen(_Stub('OpenLoop'), e)
            kinds |= {f"{c}/{k}" for c, k, _, _ in g.problems}
        if kinds:
            notes.append(f"generated loop ({len(emits)} variants) deviates: {', '.join(sorted(kinds))}")
        if not any(isinstance(n, ast.Raise) and 'variables' in ' '.join(norm(g.test) for g in guards_of(n))
                   for n in walk_no_nested(f)):
            notes.append("no empty-variable-set rejection")
        return "OpenLoopCLPass (outside the anchors of C11) carries a divergent third copy of the SCC code: " + \
            ('; '.join(notes) if notes else 'no deviation seen')
    except AnalysisError as e:
        return f"OpenLoopCLPass copy of the SCC code (outside the anchors of C11) could not be analysed: {e}"


def _ensure_bfs_parts(repo):
    for im in impls(repo):
        if getattr(im, 'bfs_parts', None) is None:
            try:
                rule_cover(repo)
            except AnalysisError:
                pass
            return


def rule_siblings(repo):
    r = RuleResult('R-C11-siblings',
                   "both cyclic-capable schedulers give a cycle the same number of passes before UpblkCyclicError "
                   "(one iteration bound in every generated variant, equal in Dynamic and Mamba)")
    per = {}
    for im in impls(repo):
        bs = sorted({b for g in im.gens() for b in g.bounds})
        per[im.name] = bs
        n = len(im.gens())
        if len(bs) == 1:
            r.ok(im.mod, im.qual, f"{n} generated variants: the error is forced in iteration {bs[0]}")
        else:
            r.bad(im.mod, im.qual, f"iteration bounds {bs}", f"the generated variants of one scheduler do not share one "
                  f"iteration bound ({bs or 'none found'})")
    a, b = (impls(repo)[0], impls(repo)[1])
    _ensure_bfs_parts(repo)
    if per[a.name] and per[b.name]:
        if per[a.name] == per[b.name]:
            r.ok(a.mod, a.qual, f"iteration bound {per[a.name][0]} == bound in {b.qual}")
        else:
            r.bad(b.mod, b.qual, f"iteration bound {per[b.name]} vs {per[a.name]} in {a.rel}",
                  f"{a.name} forces the error in iteration {per[a.name]}, {b.name} in iteration {per[b.name]}: a cycle that "
                  f"needs a number of passes between the two bounds settles under one scheduler and raises under the other "
                  f"({a.rel}:{a.root.lineno} / {b.rel}:{b.root.lineno})")
    # the two reductions of the watched set agree on the small configurations
    ra = {(lab, tuple(map(repr, order))): (elems, kept) for lab, elems, kept, order in reduction_results(a)}
    rb = {(lab, tuple(map(repr, order))): (elems, kept) for lab, elems, kept, order in reduction_results(b)}
    for key in sorted(set(ra) & set(rb)):
        (ea, ka), (eb, kb) = ra[key], rb[key]
        ca = [repr(e) for e in ea if _covered(e, ka)]
        cb = [repr(e) for e in eb if _covered(e, kb)]
        r.evaluations += 1
        sa_, sb_ = sorted(map(repr, ka)), sorted(map(repr, kb))
        cons = f"watch reduction of {{{', '.join(map(repr, ea))}}} ({key[0]})"
        if ca != cb:
            r.bad(b.mod if len(cb) < len(ca) else a.mod, b.qual if len(cb) < len(ca) else a.qual, cons,
                  f"the two schedulers disagree on what is checked for stability: {a.name} keeps {{{', '.join(sa_)}}} "
                  f"(covers {ca}), {b.name} keeps {{{', '.join(sb_)}}} (covers {cb}) -- {a.rel}:{a.red.lineno} / "
                  f"{b.rel}:{b.red.lineno}")
        else:
            r.ok(a.mod, a.qual, cons + f": same coverage in {b.name}")
            if sa_ != sb_:
                r.observations.append(f"{cons}: {a.name} keeps {sa_}, {b.name} keeps {sb_} (both cover every element)")
    # the two BFS linearisations cover the same blocks on the model SCC shapes
    if getattr(a, 'bfs_parts', None) and getattr(b, 'bfs_parts', None):
        for (la, va, sa2, ra_), (lb, vb, sb2, rb_) in zip(bfs_results(a, *a.bfs_parts), bfs_results(b, *b.bfs_parts)):
            r.evaluations += 1
            ca_, cb_ = (None if ra_ is None else sorted(set(ra_))), (None if rb_ is None else sorted(set(rb_)))
            cons = f"BFS over a {la} from {{{', '.join(sa2)}}}"
            if ca_ == cb_:
                r.ok(a.mod, a.qual, cons + f": same blocks scheduled in {b.name}")
            else:
                worse = b if (cb_ is None or (ca_ is not None and len(cb_) < len(ca_))) else a
                r.bad(worse.mod, worse.qual, cons, f"the two schedulers linearise the same SCC differently: {a.name} schedules "
                      f"{ca_}, {b.name} schedules {cb_} -- {a.rel}:{a.root.lineno} / {b.rel}:{b.root.lineno}")
    r.observations.append(_openloop_observation(repo))
    _floor(r, 30)
    return r


# ---------------------------------------------------------------------------
# R-C11-acyclic
def _check_acyclic_scheduler(r, repo, mm, qual, g):
    """an acyclic-only scheduler applies check_schedule (the completeness test that raises UpblkCyclicError) to the list
    it publishes as update_schedule and to the vertex set, on every path, after the last block was scheduled"""
    pub = set()
    for n in walk_no_nested(g):
        if isinstance(n, ast.Assign) and any(isinstance(t, ast.Attribute) and t.attr == 'update_schedule' for t in n.targets):
            pub |= {t.id for t in n.targets if isinstance(t, ast.Name)}
            if isinstance(n.value, ast.Name):
                pub.add(n.value.id)
    if not pub:
        raise AnalysisError(f"{qual}: cannot find the list published as update_schedule")

    def is_check(st):
        if not (isinstance(st, ast.Expr) and isinstance(st.value, ast.Call) and isinstance(st.value.func, ast.Name)):
            return False
        res = repo.resolve(mm, st.value.func.id)
        return bool(res) and isinstance(res[1], ast.FunctionDef) and res[1].name == 'check_schedule' and res[0].rel == SIMPLE

    def extends(st):
        return any(isinstance(c, ast.Call) and isinstance(c.func, ast.Attribute) and c.func.attr in ('append', 'extend', 'insert')
                   and norm(c.func.value) in pub for c in ast.walk(st))
    n_paths = 0
    bad = None
    chk = None
    for events, outcome in Paths(max_iter=1).block(g.body):
        if outcome not in ('fall', 'return'):
            continue
        n_paths += 1
        r.evaluations += 1
        stmts = [ev[1] for ev in events if ev[0] == 'stmt']
        idx = [k for k, st in enumerate(stmts) if is_check(st)]
        if not idx:
            bad = "returns without applying check_schedule to its result"
            break
        if any(extends(st) for st in stmts[idx[-1] + 1:]):
            bad = "schedules further blocks after check_schedule has run"
            break
        chk = stmts[idx[-1]]
    if n_paths == 0:
        raise AnalysisError(f"{qual}: no normal exit path found")
    if bad is None:
        args = [norm(a) for a in chk.value.args]
        vset = assigned_values(g, args[2]) if len(args) > 2 else []
        if len(args) < 3 or args[1] not in pub or not any('final_upblks' in norm(v) for v in vset):
            bad = (f"applies {norm(chk)} to something other than (the published schedule {sorted(pub)}, the vertex set derived "
                   f"from final_upblks)")
    if bad:
        r.bad(mm, qual, f"check_schedule(top, {'/'.join(sorted(pub))}, V, ...) before returning",
              f"this scheduler cannot iterate SCCs and {bad}: for a cyclic block graph the topological sort silently leaves the "
              f"blocks of the cycle out of update_schedule -- no UpblkCyclicError, the simulation runs without them", g.lineno)
    else:
        r.ok(mm, qual, f"{norm(chk)} on every exit path, after the last block is scheduled")


def rule_acyclic(repo):
    r = RuleResult('R-C11-acyclic',
                   "the acyclic-only scheduler rejects a cyclic block graph: check_schedule raises UpblkCyclicError exactly "
                   "when the topological sort scheduled fewer blocks than there are, and is called on the complete result")
    m = repo.mod(SIMPLE)
    f = m.functions.get('check_schedule')
    if f is None:
        raise AnalysisError("anchor vanished: check_schedule")
    params = [a.arg for a in f.args.args]
    if len(params) < 3:
        raise AnalysisError("check_schedule: unexpected signature")
    S, V = params[1], params[2]
    ifs = [s for s in f.body if isinstance(s, ast.If) and mentions(s.test, S) and mentions(s.test, V)]
    if len(ifs) != 1:
        r.bad(m, 'check_schedule', f"len({S}) vs len({V})", "the completeness test of the schedule is missing: a cyclic "
              "design is scheduled partially and simulated without its cycle", f.lineno)
    else:
        st = ifs[0]
        region = {}
        for ls in range(3):
            for lv in range(3):
                def leaf(e, ls=ls, lv=lv):
                    if isinstance(e, ast.Call) and norm(e.func) == 'len' and len(e.args) == 1:
                        if norm(e.args[0]) == S:
                            return ls
                        if norm(e.args[0]) == V:
                            return lv
                    return NotImplemented
                region[(ls, lv)] = bool(Evaluator({}, arith=True, leaf=leaf).ev(st.test))
                r.evaluations += 1
        rzs = [n for b in st.body for n in walk_no_nested(b) if isinstance(n, ast.Raise)]
        cls_ok = all(isinstance(z.exc, ast.Call) and isinstance(z.exc.func, ast.Name) and
                     (lambda res: bool(res) and isinstance(res[1], ast.ClassDef) and res[1].name == 'UpblkCyclicError'
                      and res[0].rel == ERRORS)(repo.resolve(m, z.exc.func.id)) for z in rzs)
        cons = f"if {norm(st.test)}: raise"
        missed = [k for k, v in region.items() if k[0] < k[1] and not v]
        spurious = [k for k, v in region.items() if k[0] == k[1] and v]
        if missed:
            r.bad(m, 'check_schedule', cons, f"an incomplete schedule (scheduled, total) = {missed[0]} is accepted: the blocks "
                  f"of a cycle are silently dropped", st.lineno)
        elif spurious:
            r.bad(m, 'check_schedule', cons, f"a complete schedule {spurious[0]} is rejected", st.lineno)
        elif not (always_exits(st.body) and exit_kind(st.body) == {'raise'} and rzs and cls_ok):
            r.bad(m, 'check_schedule', cons, "the incomplete-schedule branch does not end in raise UpblkCyclicError", st.lineno)
        else:
            r.ok(m, 'check_schedule', cons + " UpblkCyclicError exactly when fewer blocks were scheduled than exist")
        calls_io = [c for s in st.body for c in walk_no_nested(s) if isinstance(c, ast.Call) and isinstance(c.func, ast.Name)
                    and c.func.id in m.functions and
                    any(isinstance(n, (ast.Import, ast.ImportFrom)) for n in ast.walk(m.functions[c.func.id]))]
        # a helper wrapped in try/except cannot pre-empt the raise
        def _protected(c):
            q = parent(c)
            while q is not None and q is not st:
                if isinstance(q, ast.Try) and any(h.type is None or norm(h.type) in ('Exception', 'BaseException')
                                                  for h in q.handlers) and any(inside(c, b) for b in q.body):
                    return True
                q = parent(q)
            return False
        calls_io = [c for c in calls_io if not _protected(c)]
        if calls_io:
            r.observations.append(
                f"check_schedule runs {', '.join(sorted({c.func.id for c in calls_io}))}(...) (graphviz import, render with "
                f"view=True) before `raise UpblkCyclicError`; when that helper fails (graphviz or a desktop opener such as "
                f"xdg-open missing) its exception replaces the cyclic-dependency error (reproduced: FileNotFoundError "
                f"'xdg-open' for a 2-block loop under SimpleSchedulePass); upstream keeps the corresponding tests disabled")
    # every scheduler that cannot iterate SCCs checks its complete result before it returns
    cyclic_capable = {(im.rel, id(im.outer)) for im in impls(repo)}
    found = 0
    for sub in ('pymtl3/passes/sim', 'pymtl3/passes/mamba'):
        for rel in repo.py_files(sub):
            if 'schedule_intra_cycle' not in repo.src(rel):
                continue
            mm = repo.mod(rel)
            for cname in sorted(mm.classes):
                g = mm.methods(cname).get('schedule_intra_cycle')
                if g is None or (rel, id(g)) in cyclic_capable:
                    continue
                found += 1
                _check_acyclic_scheduler(r, repo, mm, f"{cname}.schedule_intra_cycle", g)
    if found < 2:
        raise AnalysisError(f"R-C11-acyclic: only {found} acyclic-only scheduler(s) discovered (SimpleSchedulePass and "
                            f"HeuristicTopoPass expected)")
    _floor(r, 3)
    return r


def rule_metaname(repo):
    from sa.astutil import reaching_value
    """compile_scc (Mamba) binds the meta blocks of a large SCC in the super-block's globals under b.__name__ and calls
    them by that name: the names handed out by compile_meta_block must therefore be pairwise distinct."""
    r = RuleResult('R-C11-metaname', "every meta block of a trace-broken SCC is bound and called under its own distinct name")
    m = repo.mod(MAMBA)
    f = m.get_func('Mamba2020Pass.compile_meta_block')
    # the name of the generated function: `def meta_block{X}` with X resolved to a counter
    srcs = [n for n in ast.walk(f) if isinstance(n, ast.JoinedStr) and any(isinstance(v, ast.Constant) and 'def ' in str(v.value) for v in n.values)]
    if len(srcs) != 1:
        raise AnalysisError("compile_meta_block: generated function header not found")
    holes = [v.value for v in srcs[0].values if isinstance(v, ast.FormattedValue)]
    if len(holes) != 1 or not isinstance(holes[0], ast.Name):
        raise AnalysisError("compile_meta_block: header hole is not a simple name")
    idn = holes[0].id
    src = reaching_value(idn, srcs[0])
    counter = norm(src) if src is not None else None
    incs = [s_ for s_ in f.body if isinstance(s_, ast.AugAssign) and isinstance(s_.op, ast.Add) and norm(s_.target) == counter
            and norm(s_.value) == '1']
    keyed_by_name = False
    cs = m.get_func('Mamba2020Pass.schedule_intra_cycle.compile_scc')
    for n in ast.walk(cs):
        if isinstance(n, ast.Assign) and isinstance(n.targets[0], ast.Subscript) and norm(n.targets[0].value) == '_globals' \
                and '__name__' in norm(n.targets[0].slice):
            keyed_by_name = True
    cons = f"def meta_block{{{idn}}} with {idn} = {counter}; counter advanced once per call"
    if not keyed_by_name:
        r.ok(m, 'Mamba2020Pass.compile_meta_block', cons, nontrivial=False, note="compile_scc no longer keys by __name__")
    elif counter is None or not counter.startswith('self.') or len(incs) != 1 or guards_of(incs[0]):
        r.bad(m, 'Mamba2020Pass.compile_meta_block', cons,
              "meta blocks do not get distinct names: compile_scc binds them in the SCC loop's globals by __name__, so for an SCC that "
              "is split into several meta blocks every call resolves to the last one and the earlier blocks never run", f.lineno)
    else:
        r.ok(m, 'Mamba2020Pass.compile_meta_block', cons)
    # the returned function is looked up under the same name
    rets = [n for n in ast.walk(f) if isinstance(n, ast.Assign) and norm(n.targets[0]) == 'ret']
    ok = len(rets) == 1 and isinstance(rets[0].value, ast.Subscript) and isinstance(rets[0].value.slice, ast.JoinedStr) and \
        [norm(v.value) for v in rets[0].value.slice.values if isinstance(v, ast.FormattedValue)] == [idn]
    (r.ok if ok else r.bad)(m, 'Mamba2020Pass.compile_meta_block', "returned function fetched as _locals[f'meta_block{id}']",
                            *([] if ok else ["the compiled meta block is not fetched under the name it was defined with", f.lineno]))
    r.require_floor(2)
    return r


def rule_msg(repo):
    """The members of an SCC include generated net blocks, which have no host component entry: building the rejection message
    must not look their host up unguarded (a KeyError would mask the UpblkCyclicError)."""
    r = RuleResult('R-C11-msg', "building the update_once rejection message cannot itself fail for SCCs that contain generated net blocks")
    for rel, q in ((DYN, 'DynamicSchedulePass.schedule_intra_cycle'), (MAMBA, 'Mamba2020Pass.schedule_intra_cycle.compile_scc')):
        m = repo.mod(rel)
        f = m.get_func(q)
        raises = [x for x in ast.walk(f) if isinstance(x, ast.Raise) and x.exc is not None and
                  (any('onces' in names_in(g.test) for g in guards_of(x) if g.kind == 'if' and g.polarity) or 'onces' in names_in(x.exc))]
        if len(raises) != 1:
            raise AnalysisError(f"{q}: update_once rejection not found")
        look = [c for c in ast.walk(raises[0]) if (isinstance(c, ast.Call) and norm(c.func).endswith('get_update_block_host_component')) or
                (isinstance(c, ast.Subscript) and norm(c.value).endswith('all_upblk_hostobj'))]
        bad = []
        for c in look:
            key = norm(c.args[0]) if isinstance(c, ast.Call) else norm(c.slice)
            cur, guarded = c, False
            while cur is not None and cur is not raises[0]:
                p_ = getattr(cur, '_parent', None)
                if isinstance(p_, ast.IfExp) and (cur is p_.body) and f"{key} in " in norm(p_.test) and 'all_upblk_hostobj' in norm(p_.test):
                    guarded = True
                cur = p_
            if enclosing(raises[0], (ast.Try,)) is not None:
                guarded = guarded or False
            if not guarded:
                bad.append(c)
        cons = "host lookup of SCC members inside the rejection message"
        if bad:
            r.bad(m, q, cons, f"`{norm(bad[0])}` is evaluated for every member of the SCC, including generated net blocks that have no host "
                  f"entry: the message construction raises KeyError and masks UpblkCyclicError", bad[0].lineno)
        else:
            r.ok(m, q, cons + (" (guarded by membership)" if look else " (none)"), nontrivial=bool(look))
    r.require_floor(2)
    return r


# ---------------------------------------------------------------------------
# dependency rules: what a cycle is (the edges) and what "changed" means (the snapshot) are decided elsewhere; the SCC
# machinery only reaches a fixed point when both are right, so their rules are run here as necessary conditions
def rule_edges_funcs(repo):
    """an SCC only forms around a signal whose reads/writes reach the block graph: accesses made inside (nested) @s.func
    helpers are folded into every calling block -- shared with C02 (R-C02-funcfold)"""
    from rules.c02 import rule_funcfold
    return rule_funcfold(repo)


def rule_edges_overlap(repo):
    """overlapping slices of one signal are recognised as the same storage (containment included), otherwise the feedback
    edge of a loop through x[a:b] / x[c:d] is missing and the blocks run once -- shared with C02 (R-overlap)"""
    from rules.c02 import rule_overlap
    return rule_overlap(repo)


def rule_edges_pairing(repo):
    """every (writer, reader) pair on the same / ancestor / overlapping object becomes an edge and records the inducing
    object under constraint_objs (the variables the SCC block watches) -- shared with C02 (R-C02-pairing)"""
    from rules.c02 import rule_pairing
    return rule_pairing(repo)


def rule_snapshot_clone(repo):
    """the per-iteration snapshot `t = x.clone()` must not alias the live value: generated bitstruct clone()/__deepcopy__
    copy every leaf including Bits elements of list fields -- shared with C06 (R-C06-traversal)"""
    from rules.c06 import rule_traversal
    return rule_traversal(repo)


def rule_edges_instance(repo):
    """the read/write sets an instance contributes to the graph are its own: a per-class cache entry of a lambda-connection
    block (whose body depends on constructor parameters) must not be reused, or a looped instance inherits the acyclic
    instance's edges and its loop is never iterated.  Shared with C02 (R-C02-cache-scope, R-C02-cache-readonly)."""
    from rules.c02 import rule_cache_scope
    return rule_cache_scope(repo)


def rule_edges_methods(repo):
    """a cycle closed through method-ordering constraints (M(a) < M(b) < U(blk)) only exists in the block graph if the method BFS
    follows the whole chain in both directions.  Shared with C02 (R-C02-methods)."""
    from rules.c02 import rule_methods
    return rule_methods(repo)


def rule_edges_visitor(repo):
    """a signal read only inside a slice bound / index expression still feeds the block: it must be recorded as a read or the loop
    through it is not a loop for the scheduler.  Shared with C02 (R-C02-visitor)."""
    from rules.c02 import rule_visitor
    return rule_visitor(repo)


def rule_edges_instance_ro(repo):
    from rules.c02 import rule_cache_readonly
    return rule_cache_readonly(repo)


def rule_meta_block_calls(repo):
    """a cyclic group that the top-level trace breaking packs into a meta block only runs if the generated meta block
    CALLS it (`blk{i}()`, not a bare reference) -- shared with C07 (R-C07-meta-block-codegen)"""
    from rules.c07 import rule_meta_block_codegen
    return rule_meta_block_codegen(repo)


RULES = [rule_template, rule_watch, rule_once, rule_cover, rule_siblings, rule_acyclic, rule_metaname, rule_msg, rule_meta_block_calls,
         rule_edges_funcs, rule_edges_overlap, rule_edges_pairing, rule_snapshot_clone, rule_edges_instance, rule_edges_instance_ro, rule_edges_methods, rule_edges_visitor]

EXPLANATION = (
    "Static analysis of the two cyclic-capable schedulers (DynamicSchedulePass.schedule_intra_cycle, "
    "Mamba2020Pass.schedule_intra_cycle.compile_scc); nothing is imported or run. The Python code that builds the SCC "
    "super-block source (string template, f-string line lists, joins, the globals dictionary handed to exec) is partially "
    "evaluated over symbolic values (loops over unknown containers unrolled once/twice, branches on unknown conditions "
    "forked, repr() of hosts/signals modelled as dotted paths); every resulting source text is parsed and its bounded "
    "paths are interpreted. R-C11-template decides: the generated loop cannot hang (a counter with constant start is "
    "stepped on every pass and exceeding a constant raises UpblkCyclicError, the class being resolved through the exec "
    "globals), and every normal exit is preceded by snapshot -> every block call -> every watched variable compared "
    "unchanged (so a changed variable always re-iterates); all names used by the generated code are bound. R-C11-watch "
    "decides that the watched set covers every variable carrying the cycle: GenDAGPass records the inducing signal under the "
    "key of every value-induced edge it adds; union of constraint_objs[(u,v)] over all edges "
    "inside the SCC with no other filter and the stored key orientation, the reduction keeps each variable or its top-level "
    "signal on every path and, evaluated abstractly over small configurations ({x.a,x.b}, {x,x.a}, overlapping slices, "
    "field-slice + field, ...; auxiliary book-keeping sets allowed), leaves every element covered by itself or a kept ancestor "
    "(a sibling field does not cover), with the same coverage in both schedulers (R-C11-siblings), every kept variable is grouped under its host and gets exactly one snapshot and one comparison, "
    "the snapshot is clone()/deepcopy (never an alias) and is compared with the same variable. R-C11-once decides that an "
    "update_once block in the SCC and an SCC without value-carrying variables raise UpblkCyclicError before the block is "
    "generated. R-C11-cover decides that the generated loop calls exactly the blocks of the BFS schedule and that the BFS "
    "(push region, marking, seeds incl. the direction of the predecessor-SCC search, Mamba's trace-breaking partition) "
    "loses no block of the SCC, that every SCC with two or more blocks gets a super-block, and that the globals mapping of each "
    "super-block is created per SCC (or no entry of a shared mapping is re-assigned per SCC: generated code binds late). R-C11-siblings: both schedulers use the same iteration bound. R-C11-acyclic: "
    "SimpleSchedulePass rejects an incomplete topological sort with UpblkCyclicError. NOT decided: convergence itself, "
    "and that for a false loop the values equal those of the equivalent acyclic design (runtime values); that update "
    "blocks are pure functions of the signals they read. The OpenLoopCLPass copy of the SCC code is outside the anchors "
    "and only reported as an observation.")
ASSUMPTIONS = [
    "a full pass over all blocks of an SCC that leaves every signal on an intra-SCC edge unchanged is a fixed point "
    "(update blocks are deterministic functions of the signals they read; single writer per signal, C09)",
    "top._dag.constraint_objs[(u,v)] holds the signals inducing edge u->v (C02, GenDAGPass); Kosaraju's algorithm and the "
    "strong connectivity of an SCC (a BFS inside the SCC from any of its blocks reaches all of it)",
    "repr(signal) == repr(host component) + '.' + member path; repr(top) == 's'; Bits/bitstruct clone() and copy.deepcopy "
    "return independent copies; != on signals compares values",
    "str.format / f-string / join semantics of Python; py.code.Source dedents; custom_exec behaves like exec",
    "scc_pred[v] is only set along an existing edge of the condensation graph, so the predecessor SCC has an edge into v",
]


# ---------------------------------------------------------------------------
# self-test of the checker (thorough tier)
def _m(name, old, new, rule=None, file=DYN, count=1):
    return dict(name=name, file=file, old=old, new=new, rule=rule, count=count)


MUTANTS = [
    dict(name='once-msg-unguarded-host-lookup', file=DYN, old="repr(top._dsl.all_upblk_hostobj[y])[2:] if y in top._dsl.all_upblk_hostobj else '<generated net block>'", new="repr(top.get_update_block_host_component(y))[2:]", rule='R-C11-msg', count=1),
    dict(name='meta-block-id-not-advanced', file=MAMBA, old="    meta_id = self.meta_block_id\n    self.meta_block_id += 1\n", new="    meta_id = self.meta_block_id\n", rule='R-C11-metaname', count=1),
    dict(name='once-rejection-all', file=DYN, old="        for x in scc:\n          if x in onces:\n            raise UpblkCyclicError(\"update_once blocks", new="        if all( x in onces for x in scc ):\n          if True:\n            raise UpblkCyclicError(\"update_once blocks", rule='R-C11-once', count=1),
    # --- the loop skeleton (template)
    _m('dyn-bound-test-inverted', "    if N > 100:\n", "    if N < 100:\n", 'R-C11-template'),
    _m('mamba-counter-not-stepped', "    N += 1\n", "    N += 0\n", 'R-C11-template', file=MAMBA),
    _m('dyn-bound-only-prints', 'raise UpblkCyclicError("Combinational loop detected at runtime',
       'print("Combinational loop detected at runtime', 'R-C11-template'),
    _m('mamba-changed-does-not-reiterate', """: continue" )""", """: pass" )""", 'R-C11-template', file=MAMBA),
    _m('dyn-changed-leaves-loop', """: continue" )""", """: break" )""", 'R-C11-template'),
    _m('dyn-any-becomes-all', "' or '.join(sub_check_srcs)", "' and '.join(sub_check_srcs)", 'R-C11-template'),
    _m('mamba-compare-before-snapshot', "    {1}\n    {3}\n    {2}", "    {2}\n    {3}\n    {1}", 'R-C11-template', file=MAMBA),
    _m('dyn-snapshot-after-the-pass', "    {1}\n    scc_tick_func()\n    {2}", "    scc_tick_func()\n    {1}\n    {2}",
       'R-C11-template'),
    _m('mamba-no-normal-exit', "    break\ngenerated_block", "    continue\ngenerated_block", 'R-C11-template', file=MAMBA),
    _m('dyn-wrong-exception-class', "'UpblkCyclicError': UpblkCyclicError }", "'UpblkCyclicError': Exception }", 'R-C11-template'),
    _m('dyn-deepcopy-not-provided', "'deepcopy': deepcopy,\n", "\n", 'R-C11-template'),
    _m('mamba-s-bound-to-pass-object', "_globals = { 's': top,", "_globals = { 's': self,", 'R-C11-template', file=MAMBA),
    _m('dyn-wrong-entry-name', "return _locals[ 'generated_block' ]", "return _locals[ 'generated_blk' ]", 'R-C11-template'),
    _m('mamba-loop-exits-on-counter', "  while True:\n", "  while N < 100:\n", 'R-C11-template', file=MAMBA),
    _m('dyn-host-prefix-off-by-one', "subname = repr(var)[hostlen+1:]", "subname = repr(var)[hostlen:]", 'R-C11-template'),
    # --- what is watched
    _m('dyn-bits-snapshot-aliases', """copy_srcs.append( f"t{var_id}=host.{subname}.clone()" )""",
       """copy_srcs.append( f"t{var_id}=host.{subname}" )""", 'R-C11-watch', count='first'),
    _m('mamba-other-snapshot-aliases', """f"t{var_id}=deepcopy(host.{subname})" """, """f"t{var_id}=host.{subname}" """,
       'R-C11-watch', file=MAMBA),
    _m('dyn-temporaries-collide', "            var_id += 1\n", "            var_id += 0\n", 'R-C11-watch'),
    _m('mamba-compare-other-temporary', """f"host.{subname} != t{var_id}" """, """f"host.{subname} != t{var_id-1}" """,
       'R-C11', file=MAMBA),
    _m('mamba-check-host-not-rebound', """        check_srcs.append( f"host = {host!r}" )""", """        pass""", 'R-C11-watch',
       file=MAMBA),
    _m('dyn-constraint-key-swapped', "constraint_objs[ (u, v) ]", "constraint_objs[ (v, u) ]", 'R-C11-watch'),
    _m('mamba-edge-filter-wrong', "        if u in scc and v in scc:\n          variables.update",
       "        if u in scc and v not in scc:\n          variables.update", 'R-C11-watch', file=MAMBA),
    _m('dyn-bits-top-not-added', "            if w not in final_variables:\n              final_variables.add( w )",
       "            if w not in final_variables:\n              pass", 'R-C11-watch'),
    _m('mamba-struct-field-dropped', "          if w not in final_variables:\n            final_variables.add( x )",
       "          if w in final_variables:\n            final_variables.add( x )", 'R-C11-watch', file=MAMBA),
    _m('dyn-reduction-skips-first', "for x in sorted( variables, key=repr ):", "for x in sorted( variables, key=repr )[1:]:",
       'R-C11-watch'),
    _m('mamba-grouping-skips-last', "      for x in final_variables:\n", "      for x in list(final_variables)[:-1]:\n",
       'R-C11-watch', file=MAMBA),
    _m('dyn-grouped-by-parent', "final_var_host[ x.get_host_component() ]", "final_var_host[ x.get_parent_object() ]",
       'R-C11-watch'),
    _m('mamba-emission-skips-first', "        for var in var_list:\n", "        for var in var_list[1:]:\n", 'R-C11-watch',
       file=MAMBA),
    _m('dyn-struct-no-snapshot', """elif is_bitstruct_class( var._dsl.Type ): copy_srcs.append( f"t{var_id}=host.{subname}.clone()" )""",
       """elif is_bitstruct_class( var._dsl.Type ): pass""", 'R-C11-watch'),
    _m('mamba-edge-set-reversed', "        E.add( (u, v) )", "        E.add( (v, u) )", 'R-C11-watch', file=MAMBA),
    _m('gendag-reader-edge-not-recorded', "                impl_constraints.add( (wr_blk, rd_blk) ) # wr < rd default\n                constraint_objs[ (wr_blk, rd_blk) ].add( obj )",
       "                impl_constraints.add( (wr_blk, rd_blk) ) # wr < rd default", 'R-C11-watch', file=GENDAG),
    _m('gendag-writer-edge-recorded-reversed', "                  constraint_objs[ (wr_blk, rd_blk) ].add( obj )",
       "                  constraint_objs[ (rd_blk, wr_blk) ].add( obj )", 'R-C11-watch', file=GENDAG),
    _m('gendag-explicit-edge-wrong-key', "                constraint_objs[ (co_blk, eq_blk) ].add( obj )",
       "                constraint_objs[ (eq_blk, co_blk) ].add( obj )", 'R-C11-watch', file=GENDAG),
    _m('gendag-records-the-block', "                constraint_objs[ (eq_blk, co_blk) ].add( obj )",
       "                constraint_objs[ (eq_blk, co_blk) ].add( eq_blk )", 'R-C11-watch', file=GENDAG),
    dict(name='dyn-one-snapshot-per-top-level-signal', rule='R-C11-watch', edits=[
        dict(file=DYN, old="        final_variables = set()\n\n        for x in sorted( variables, key=repr ):",
             new="        final_variables = set()\n        covered_tops    = set()\n\n        for x in sorted( variables, key=repr ):"),
        dict(file=DYN, old="          if w is x:\n            final_variables.add( x )\n            continue\n",
             new="          if w is x:\n            final_variables.add( x )\n            covered_tops.add( x )\n            continue\n\n"
                 "          if w in covered_tops:\n            continue\n          covered_tops.add( w )\n"),
        dict(file=DYN, old="          if issubclass( w._dsl.Type, Bits ):\n            if w not in final_variables:\n"
                           "              final_variables.add( w )\n          elif is_bitstruct_class( w._dsl.Type ):\n"
                           "            if w not in final_variables:\n              final_variables.add( x )\n          else:",
             new="          if issubclass( w._dsl.Type, Bits ):\n            final_variables.add( w )\n          else:")]),
    _m('dyn-slices-kept-only-if-whole-signal-triggers', "            if w not in final_variables:\n              final_variables.add( w )",
       "            if w in variables:\n              final_variables.add( w )", 'R-C11-watch'),
    _m('mamba-struct-fields-share-one-snapshot', "          if w not in final_variables:\n            final_variables.add( x )",
       "          if not any( y.get_top_level_signal() is w for y in final_variables ):\n            final_variables.add( x )",
       'R-C11', file=MAMBA),
    # --- rejections
    _m('dyn-once-test-inverted', "          if x in onces:\n", "          if x not in onces:\n", 'R-C11-once'),
    _m('dyn-onces-never-consulted', "onces = top.get_all_update_once()", "onces = set()", 'R-C11-once'),
    _m('mamba-once-loop-skips', "      for x in scc:\n        if x in onces:", "      for x in list(scc)[1:]:\n        if x in onces:",
       'R-C11-once', file=MAMBA),
    _m('mamba-novar-off-by-one', "if len(variables) == 0:", "if len(variables) == 1:", 'R-C11-once', file=MAMBA),
    _m('dyn-novar-wrong-class', 'raise UpblkCyclicError("There is a cyclic dependency', 'raise Exception("There is a cyclic dependency',
       'R-C11-once'),
    _m('mamba-novar-check-disabled', "if len(variables) == 0:", "if False:", 'R-C11-once', file=MAMBA),
    # --- every block of the SCC is in the loop
    _m('dyn-bfs-leaves-the-scc', "            if v in scc and v not in visited:", "            if v not in visited:", 'R-C11-cover'),
    _m('mamba-seed-search-wrong-direction', "          for v in G_T[x]:", "          for v in G[x]:", 'R-C11-cover', file=MAMBA),
    _m('dyn-popped-block-not-scheduled', "          tmp_schedule.append( u )", "          pass", 'R-C11-cover'),
    _m('mamba-unroll-skips-first-block', "        for i, b in enumerate(tmp_schedule):", "        for i, b in enumerate(tmp_schedule[1:]):",
       'R-C11-cover', file=MAMBA),
    _m('mamba-part-replaced-unflushed',
       "              num_blks += len(cur_meta)\n              scc_schedule.append( cur_meta )\n              cur_meta, cur_br, cur_count = [ blk ]",
       "              cur_meta, cur_br, cur_count = [ blk ]", 'R-C11-cover', file=MAMBA),
    _m('mamba-tail-part-dropped', "          num_blks += len(cur_meta)\n          scc_schedule.append( cur_meta )\n\n        assert",
       "          num_blks += len(cur_meta)\n\n        assert", 'R-C11-cover', file=MAMBA),
    _m('dyn-bfs-never-marks', "              visited.add( v )\n\n        scc_id += 1", "              pass\n\n        scc_id += 1", 'R-C11-cover'),
    _m('tick-function-skips-first', "      for blk in schedule:", "      for blk in schedule[1:]:", 'R-C11-cover', file=TICK),
    _m('mamba-last-meta-block-dropped', "for i, meta in enumerate( scc_schedule ):", "for i, meta in enumerate( scc_schedule[:-1] ):",
       'R-C11-cover', file=MAMBA),
    _m('dyn-no-seed', "          Q.append( max(InD, key=InD.get) )", "          pass", 'R-C11-cover'),
    _m('mamba-block-bound-not-called', "_globals[f\"blk{i}\"] = b # put it into the block's closure",
       "_globals[f\"blk{i}\"] = b; blk_srcs.pop()", 'R-C11-cover', file=MAMBA),
    _m('dyn-two-block-scc-treated-as-trivial', "      if len(scc) == 1:\n        schedule.append", "      if len(scc) <= 2:\n        schedule.append",
       'R-C11-cover'),
    _m('mamba-two-block-scc-treated-as-trivial', "      if len(scc) == 1:\n        return list(scc)[0]", "      if len(scc) < 3:\n        return list(scc)[0]",
       'R-C11-cover', file=MAMBA),
    _m('dyn-scc-computed-on-transposed-graph', "SCCs, G_new = kosaraju_scc( G, G_T )", "SCCs, G_new = kosaraju_scc( G_T, G )", 'R-C11-cover'),
    dict(name='dyn-one-globals-dict-for-all-sccs', rule='R-C11-cover', edits=[
        dict(file=DYN, old="    scc_id = 0\n    for i in scc_schedule:",
             new="    scc_globals = { 's': top, 'deepcopy': deepcopy, 'UpblkCyclicError': UpblkCyclicError }\n\n"
                 "    scc_id = 0\n    for i in scc_schedule:"),
        dict(file=DYN, old="          scc_tick_func = SimpleTickPass.gen_tick_function( scc )\n"
                           "          _globals = { 's': s, 'scc_tick_func': scc_tick_func, 'deepcopy': deepcopy,\n"
                           "                       'UpblkCyclicError': UpblkCyclicError }\n",
             new="          scc_globals[ 'scc_tick_func' ] = SimpleTickPass.gen_tick_function( scc )\n"),
        dict(file=DYN, old="custom_exec(py.code.Source( src ).compile(), _globals, _locals)",
             new="custom_exec(py.code.Source( src ).compile(), scc_globals, _locals)")]),
    dict(name='mamba-globals-dict-hoisted-out-of-compile-scc', rule='R-C11-cover', edits=[
        dict(file=MAMBA, old="      _globals = { 's': top, 'UpblkCyclicError': UpblkCyclicError }\n", new=""),
        dict(file=MAMBA, old="    def compile_scc( i ):\n",
             new="    _globals = { 's': top, 'UpblkCyclicError': UpblkCyclicError }\n    def compile_scc( i ):\n")]),
    _m('mamba-nontrivial-scc-out-edges-not-counted', "        nontrivial_sccs.add( u )\n      elif self.only_loop_at_top[ list(SCCs[u])[0] ]:",
       "        nontrivial_sccs.add( u )\n        continue\n\n      if self.only_loop_at_top[ list(SCCs[u])[0] ]:", 'R-C11-cover', file=MAMBA),
    _m('dyn-condensation-edge-counted-conditionally', "      for v in vs:\n        InD[ v ] += 1", "      for v in vs:\n        if len(SCCs[u]) == 1: InD[ v ] += 1",
       'R-C11-cover'),
    dict(name='dyn-variable-set-hoisted-out-of-the-scc-loop', rule='R-C11-once', edits=[
        dict(file=DYN, old="    scc_id = 0\n    for i in scc_schedule:", new="    scc_id = 0\n    variables = set()\n    for i in scc_schedule:"),
        dict(file=DYN, old="        scc_id += 1\n        variables = set()\n", new="        scc_id += 1\n")]),
    dict(name='mamba-variable-set-hoisted-out-of-compile-scc', rule='R-C11', edits=[
        dict(file=MAMBA, old="      variables = set()\n      for (u, v) in E:", new="      for (u, v) in E:"),
        dict(file=MAMBA, old="    def compile_scc( i ):\n", new="    variables = set()\n    def compile_scc( i ):\n")]),
    _m('mamba-meta-blocks-share-one-name', "            b = self.compile_meta_block( meta )\n",
       "            b = self.compile_meta_block( meta )\n            b.__name__ = f\"scc{scc_id}_meta_block\"\n", 'R-C11-cover', file=MAMBA),
    _m('mamba-unrolled-blocks-share-one-name',
       "{b.__name__}\" )\n          _globals[f\"blk{i}\"] = b # put it into the block's closure",
       "{b.__name__}\" .replace(f\"blk{i}\", \"blk\") )\n          _globals[\"blk\"] = b # put it into the block's closure",
       'R-C11-cover', file=MAMBA),
    dict(name='dyn-block-list-shared-by-all-scc-wrappers', rule='R-C11-cover', edits=[
        dict(file=DYN, old="    scc_id = 0\n    for i in scc_schedule:", new="    scc_id = 0\n    tmp_schedule = []\n    for i in scc_schedule:"),
        dict(file=DYN, old="        tmp_schedule = []\n        Q = deque()", new="        tmp_schedule.clear()\n        Q = deque()")]),
    dict(name='dyn-block-list-and-worklist-hoisted', rule='R-C11-cover', edits=[
        dict(file=DYN, old="    scc_id = 0\n    for i in scc_schedule:",
             new="    scc_id = 0\n    tmp_schedule = []\n    Q = deque()\n    for i in scc_schedule:"),
        dict(file=DYN, old="        tmp_schedule = []\n        Q = deque()", new="        tmp_schedule.clear()\n        Q.clear()")]),
    _m('mamba-bfs-follows-a-single-path', "            Q.append( v )\n            visited.add( v )\n",
       "            Q.append( v )\n            visited.add( v )\n            break\n", 'R-C11-cover', file=MAMBA),
    _m('dyn-bfs-stops-after-first-block', "          tmp_schedule.append( u )\n", "          tmp_schedule.append( u )\n          if len(tmp_schedule) > 1: break\n",
       'R-C11-cover'),
    _m('mamba-meta-block-references-scc-without-calling', "        blk_srcs.append( f\"blk{i}() # {b.__name__}\" )",
       "        blk_srcs.append( f\"blk{i} # {b.__name__}\" )", 'R-C11-cover', file=MAMBA),
    _m('mamba-meta-block-skips-first-block', "    for i, b in enumerate(blocks):\n      # This is a normal update block",
       "    for i, b in list(enumerate(blocks))[1:]:\n      # This is a normal update block", 'R-C11-cover', file=MAMBA),
    _m('dyn-entry-blocks-searched-in-the-schedule', "pred = set( SCCs[ scc_pred[i] ] )", "pred = set( schedule )", 'R-C11-cover'),
    _m('mamba-entry-blocks-searched-in-own-schedule', "pred = set( SCCs[ scc_pred[i] ] )", "pred = set( tmp_schedule )", 'R-C11-cover',
       file=MAMBA),
    _m('greenlet-pass-rekeys-constraint-objs', "    top._dag.final_upblks    = new_upblks\n",
       "    constraint_objs = top._dag.constraint_objs\n    for (x, y) in list( constraint_objs ):\n"
       "      if x in greenlet_upblks or y in greenlet_upblks:\n        objs = constraint_objs.pop( (x, y) )\n"
       "        constraint_objs[ ( blk_greenlet_mapping.get( x, x ), blk_greenlet_mapping.get( y, y ) ) ] |= objs\n\n"
       "    top._dag.final_upblks    = new_upblks\n", 'R-C11-once', file=GREENLET),
    # --- siblings / acyclic-only pass
    _m('mamba-bound-differs', "    if N > 100:\n", "    if N > 1000:\n", 'R-C11-siblings', file=MAMBA),
    _m('simple-incomplete-schedule-accepted', "if len(schedule) != len(V):", "if len(schedule) > len(V):", 'R-C11-acyclic',
       file=SIMPLE),
    dict(name='heutopo-result-not-checked', rule='R-C11-acyclic', edits=[
        dict(file='pymtl3/passes/mamba/HeuristicTopoPass.py', old="\n    check_schedule( top, update_schedule, V, E, InD )\n", new="\n"),
        dict(file='pymtl3/passes/mamba/HeuristicTopoPass.py', old="import SimpleSchedulePass, check_schedule", new="import SimpleSchedulePass")]),
    _m('heutopo-checks-before-sorting', "    check_schedule( top, update_schedule, V, E, InD )", "    check_schedule( top, [], set(), E, InD )",
       'R-C11-acyclic', file='pymtl3/passes/mamba/HeuristicTopoPass.py'),
    _m('simple-result-not-checked', "    check_schedule( top, update_schedule, V, E, InD )", "    pass", 'R-C11-acyclic', file=SIMPLE),
]

EQUIV = [
    _m('bound-as-ge', "    if N > 100:\n", "    if N >= 101:\n"),
    _m('compare-operands-swapped', """f"host.{subname} != t{var_id}" """, """f"t{var_id} != host.{subname}" """, file=MAMBA),
    _m('append-as-augassign', """copy_srcs .append( f"host={host!r}" )""", """copy_srcs += [ f"host={host!r}" ]"""),
    _m('novar-as-truthiness', "if len(variables) == 0:", "if not variables:", file=MAMBA),
    _m('exit-by-return', "    break\ngenerated_block", "    return\ngenerated_block"),
    _m('local-renamed', "sub_check_srcs", "atoms", count=0),
    _m('once-check-as-any', "        for x in scc:\n          if x in onces:\n            raise UpblkCyclicError(",
       "        if any( x in onces for x in scc ):\n            raise UpblkCyclicError("),
    _m('bfs-condition-reordered', "if v in scc and v not in visited:", "if v not in visited and v in scc:", file=MAMBA),
    _m('list-inits-reordered', "        copy_srcs  = []\n        check_srcs = []", "        check_srcs = []\n        copy_srcs  = []"),
    dict(name='de-morgan-comparison', edits=[
        dict(file=DYN, old="""sub_check_srcs.append( f"host.{subname} != t{var_id}" )""",
             new="""sub_check_srcs.append( f"host.{subname} == t{var_id}" )"""),
        dict(file=DYN, old="""f"if { ' or '.join(sub_check_srcs)}: continue" """,
             new="""f"if not ({ ' and '.join(sub_check_srcs)}): continue" """)]),
    _m('join-through-helper-variable', """        scc_block_src = template.format( scc_id, "; ".join( copy_srcs ),""",
       """        snap_line = "; ".join( copy_srcs )\n        scc_block_src = template.format( scc_id, snap_line,"""),
    _m('mamba-bits-slices-watched-directly', "            final_variables.add( w )", "            final_variables.add( x )", file=MAMBA),
    _m('reduction-test-positive', "          if w not in final_variables:\n            final_variables.add( w )",
       "          if not (w in final_variables):\n            final_variables.add( w )", file=MAMBA),
    _m('bfs-as-dfs', "        u = Q.popleft()\n        tmp_schedule.append( u )", "        u = Q.pop()\n        tmp_schedule.append( u )", file=MAMBA),
    _m('percent-formatting', """copy_srcs.append( f"host = {host!r}" )""", """copy_srcs.append( "host = %r" % (host,) )""", file=MAMBA),
    _m('variable-loop-with-enumerate', "          for var in var_list:\n            var_id += 1\n",
       "          for var_id, var in enumerate(var_list, var_id+1):\n"),
    dict(name='shared-base-globals-copied-per-scc', edits=[
        dict(file=DYN, old="    scc_id = 0\n    for i in scc_schedule:",
             new="    base_globals = { 's': top, 'deepcopy': deepcopy, 'UpblkCyclicError': UpblkCyclicError }\n\n"
                 "    scc_id = 0\n    for i in scc_schedule:"),
        dict(file=DYN, old="          _globals = { 's': s, 'scc_tick_func': scc_tick_func, 'deepcopy': deepcopy,\n"
                           "                       'UpblkCyclicError': UpblkCyclicError }\n",
             new="          _globals = dict( base_globals )\n          _globals[ 'scc_tick_func' ] = scc_tick_func\n")]),
    _m('meta-blocks-renamed-with-index', "            b = self.compile_meta_block( meta )\n",
       "            b = self.compile_meta_block( meta )\n            b.__name__ = f\"scc{scc_id}_meta_block{i}\"\n", file=MAMBA),
    _m('meta-blocks-keyed-by-explicit-name',
       "            blk_srcs.append( f\"{b.__name__}()\" )\n            _globals[ b.__name__ ] = b\n",
       "            nm = f\"part{i}_of_scc\"\n            blk_srcs.append( f\"{nm}()\" )\n            _globals[ nm ] = b\n", file=MAMBA),
    dict(name='worklist-reused-after-clear', edits=[
        dict(file=DYN, old="    scc_id = 0\n    for i in scc_schedule:", new="    scc_id = 0\n    Q = deque()\n    for i in scc_schedule:"),
        dict(file=DYN, old="        tmp_schedule = []\n        Q = deque()", new="        tmp_schedule = []\n        Q.clear()")]),
    dict(name='meta-block-call-text-factored-out', edits=[
        dict(file=MAMBA, old="    for i, b in enumerate(blocks):\n      # This is a normal update block",
             new="    for i, b in enumerate(blocks):\n      call = f\"blk{i}()\"\n      # This is a normal update block"),
        dict(file=MAMBA, old="        blk_srcs.append( f\"blk{i}() # {b.__name__}\" )", new="        blk_srcs.append( f\"{call} # {b.__name__}\" )")]),
    dict(name='rekeyed-objs-and-once-test-through-the-mapping', edits=[
        dict(file=GREENLET, old="    top._dag.final_upblks    = new_upblks\n",
             new="    constraint_objs = top._dag.constraint_objs\n    for (x, y) in list( constraint_objs ):\n"
                 "      if x in greenlet_upblks or y in greenlet_upblks:\n        objs = constraint_objs.pop( (x, y) )\n"
                 "        constraint_objs[ ( blk_greenlet_mapping.get( x, x ), blk_greenlet_mapping.get( y, y ) ) ] |= objs\n\n"
                 "    top._dag.final_upblks    = new_upblks\n"),
        dict(file=DYN, old="    onces = top.get_all_update_once()",
             new="    onces = { top._dag.blk_greenlet_mapping.get( x, x ) for x in top.get_all_update_once() }"),
        dict(file=MAMBA, old="    onces = top.get_all_update_once()",
             new="    onces = { top._dag.blk_greenlet_mapping.get( x, x ) for x in top.get_all_update_once() }")]),
    _m('pred-set-through-helper', "pred = set( SCCs[ scc_pred[i] ] )", "pred = set( list( SCCs[ scc_pred[i] ] ) )"),
    _m('while-one', "  while True:\n", "  while 1:\n", file=MAMBA),
    dict(name='counter-starts-at-one', edits=[dict(file=DYN, old="  N = 0\n", new="  N = 1\n"),
                                              dict(file=DYN, old="    if N > 100:\n", new="    if N > 101:\n")]),
    _m('bounded-for-else-loop',
       """  N = 0
  while True:
    N += 1
    if N > 100:
      raise UpblkCyclicError("Combinational loop detected at runtime in {{{3}}} after 100 iters!")
    {1}
    scc_tick_func()
    {2}
    # print( "SCC block{0} is executed", num_iters, "times" )
    break
""", """  for N in range(100):
    {1}
    scc_tick_func()
    {2}
    break
  else:
    raise UpblkCyclicError("Combinational loop detected at runtime in {{{3}}} after 100 iters!")
"""),
    _m('once-check-as-intersection', "      for x in scc:\n        if x in onces:\n          raise UpblkCyclicError(",
       "      if scc & onces:\n          raise UpblkCyclicError(", file=MAMBA),
]

LEVEL_TEXT = ("Static analysis of the two cyclic-capable schedulers: the Python code that generates the SCC super-block is "
              "partially evaluated (string template, generated line lists, exec globals) into every source text it can "
              "produce for one/two hosts, one/two variables of each kind and each way of emitting the block calls; each text "
              "is parsed and all bounded paths are interpreted to show that the loop is bounded by a counter that raises "
              "UpblkCyclicError and that every normal exit follows snapshot -> all blocks -> all watched variables unchanged. "
              "Path-sensitive must-rules on the real code show that the watched set covers every variable on an intra-SCC "
              "edge, that update_once / variable-free SCCs are rejected before generation and that the BFS schedule and its "
              "partition lose no block. Decides the structural clauses of the property for all designs; convergence and the "
              "values of false loops are not decided.")
LEVEL_NOTE = ("Trusted: a full pass leaving all intra-SCC signals unchanged is a fixed point (pure blocks, single writer), "
              "constraint_objs content (C02), Kosaraju/strong connectivity, repr(signal) = repr(host)+'.'+path, clone/deepcopy "
              "copy, Python string formatting. Not decided: convergence, equality with the acyclic design, purity of user "
              "blocks. OpenLoopCLPass's divergent copy and check_schedule's dump_dag-before-raise are observations only.")
TECHNIQUE = ("partial evaluation of source-building code over symbolic values (template/sequence domain), ast.parse of the "
             "generated text, bounded path enumeration with snapshot/compare typestate, counter ranking argument, "
             "path-sensitive must-cover rules, Boolean region evaluation of guards, def-use direction facts")
