"""C08 -- Connected signals form single-writer nets independent of connect order.  (DESIGN.md section 4, C08)"""
import ast
import itertools

from sa.astutil import (norm, guards_of, reaching_value, walk_no_nested, always_exits, parent, enclosing,
                        stmt_of, preceding_stmts, qualname, names_in)
from sa.c08_util import Interp, AObj, ASet, DDict, Raised, nonuniform_literals
from sa.errors import AnalysisError
from sa.minieval import Evaluator
from sa.report import RuleResult
from rules.c02 import rule_overlap

PID = 'C08'
L3 = 'pymtl3/dsl/ComponentLevel3.py'
L5 = 'pymtl3/dsl/ComponentLevel5.py'
COMP = 'pymtl3/dsl/Component.py'
CONN = 'pymtl3/dsl/Connectable.py'
GENDAG = 'pymtl3/passes/sim/GenDAGPass.py'
PREP = 'pymtl3/passes/sim/PrepareSimPass.py'

EXPLANATION = (
    "Static analysis only (ast of the current tree; pymtl3 is never imported or run). Two techniques. (1) Structural path "
    "rules over the ast (pairing, dominance, guard truth tables). (2) Abstract evaluation of single *extracted* blocks over "
    "exhaustively enumerated abstract objects: a net member / signal / component is characterised only by the answers the "
    "block can ask of it (its class, whether and how it is marked in writer_prop, the marks of its signal ancestors and "
    "overlapping sibling slices, whether it is a top-level signal, its host component); a question outside the enumerated "
    "attributes, or a count-dependent literal in the block, is an ANALYSIS-ERROR, never a pass. "
    "R-C08-symmetric: every insertion/removal on an adjacency map (_connect_signal_signal, _connect_signal_const, "
    "_connect_method_ports, add_connection, _disconnect_*) has its mirror (b,a) on the same map and path, no edge is dropped "
    "silently, bulk merges (_collect_vars, add_connections) are unconditional unions, add_connection marks the cached nets "
    "pending, and connect / //= / _connect_dispatch hand (signal, constant) to _connect_signal_const whichever side the "
    "constant is on => the graph is symmetric, so side swaps and statement order cannot change its components. "
    "R-C08-const: _connect_signal_const, for every constant kind x port kind x host relation, inserts a fresh Const node of "
    "the signal's type owned by the connecting component (one per statement). R-C08-nodes: Signal.__getitem__ / __getattr__ "
    "give one canonical object per bit range / field (repeated and nested access), registered at and parented by the "
    "un-sliced signal, so the same bits are the same graph node in every statement. R-C08-flood: _floodfill_nets is matched "
    "as a flood fill (every unvisited connected start node expanded, every popped node added, every neighbour pushed iff "
    "unvisited, exactly the single-member nets dropped, result returned after the last start node). R-C08-seed: the seeds "
    "computed by the prologue of _resolve_value_connections and the per-member driver test equal the property's list of "
    "legal drivers (written object propagatable, its signal ancestors unpropagatable, top-level InPort, placeholder OutPort "
    "[documented extension], Const, child of a propagatable ancestor, overlapping propagatable sibling slice). R-C08-unique: "
    "for every abstract net of up to three members, zero drivers => (None, net), one => (that member, net) exactly once, "
    "two => MultiWriterError (never a bare AssertionError); each writer assignment is guarded by `assert not has_writer` "
    "inside the try that converts it. R-C08-propagate: after a net is resolved its readers are marked propagatable and "
    "their unmarked signal ancestors unpropagatable, unresolved nets are carried over, and two-net chains (struct field, "
    "slice) resolve in both processing orders. R-C08-residence: lock_in_simulation and _generate_net_blocks, evaluated on "
    "every abstract net of up to four members, agree: every member is the writer, is assigned by the net block, or shares "
    "its value object with one that is. R-C08-netblock: for 360 placements of writer/readers in a component tree the "
    "generated block source reads the writer and assigns the selected readers through names that resolve from the common "
    "ancestor it is compiled against. R-overlap: the slice-overlap predicate is exact. "
    "NOT decided: order-independence of the *iterative* writer propagation across three or more mutually dependent nets "
    "(which net is resolved in which round depends on set iteration order; only single nets, independent pairs and two-net "
    "chains are evaluated); scheduling of the net blocks (C02); connect-time type checks and port-direction legality (C09); "
    "interface (by-name) connections and method nets; Component.add_connection ignores a constant operand silently "
    "(reported as an observation, no edge is inserted at all).")
ASSUMPTIONS = [
    "Python set/dict semantics: membership and union do not depend on insertion order; a symmetric adjacency relation has "
    "the same connected components under any permutation or side swap of the connect statements",
    "uniformity: the loops of the evaluated blocks treat every element alike apart from the enumerated attributes and the "
    "loop-carried variables the abstract runs exercise (has_writer, writer, residence, the common ancestor); short "
    "sequences (<=3 net members, <=2 signal ancestors, <=2 sibling slices, <=4 members for residence, component trees of "
    "depth 2) reach every (state, element kind) combination; count-dependent literals void this and are refused",
    "Signal.__init__ creates a signal with slice None, an empty slices table and itself as top-level signal (the model "
    "used for freshly constructed slice / field signals); get_parent_object / is_signal / get_host_component / "
    "get_component_level / repr behave as their names say (C14 checks naming)",
    "assert statements are executed (python -O would disable the multi-writer check in _resolve_value_connections)",
    "update-block write sets (all_upblk_writes) are correct (C02 R-C02-visitor)",
]


# ---------------------------------------------------------------------------------------------------------------
# small helpers
def _resolve(e, at, depth=0):
    """follow local aliases `x = <attribute chain>` so that `adj[k]` and `s._dsl.adjacency[k]` name the same map"""
    if isinstance(e, ast.Name) and depth < 5:
        rv = reaching_value(e.id, at)
        if isinstance(rv, (ast.Attribute, ast.Name)):
            return _resolve(rv, at, depth + 1)
    return e


def _adj_map(e, at):
    """normalised text of the adjacency map named by expression e, or None"""
    r = _resolve(e, at)
    if isinstance(r, ast.Attribute) and r.attr in ('adjacency', 'all_adjacency'):
        return norm(r)
    return None


def _block_of(st):
    p = parent(st)
    for fld in ('body', 'orelse', 'finalbody'):
        blk = getattr(p, fld, None)
        if isinstance(blk, list) and any(x is st for x in blk):
            return blk
    return None


def _index(blk, st):
    return [i for i, x in enumerate(blk) if x is st][0]


def _nearest_loop(n):
    return enclosing(n, (ast.For, ast.While, ast.FunctionDef, ast.Lambda))


def _assigned(st):
    return {n.id for n in walk_no_nested(st) if isinstance(n, ast.Name) and isinstance(n.ctx, (ast.Store, ast.Del))}


def _has_exit(st):
    return any(isinstance(n, (ast.Return, ast.Raise, ast.Break, ast.Continue)) for n in walk_no_nested(st))


def _guard_key(g):
    return (norm(g.test), g.polarity)


def _all_funcs(m):
    return [n for n in ast.walk(m.tree) if isinstance(n, ast.FunctionDef)]


class _Capped:
    """report at most `cap` findings per signature so that one broken line does not print 300 lines"""
    def __init__(self, r, cap=4):
        self.r, self.cap, self.n = r, cap, 0
        self.seen = set()

    def bad(self, mod, fn, cons, msg, line=0, sig=None):
        sig = sig or msg
        self.n += 0 if sig in self.seen else 1
        if sig in self.seen or self.n > self.cap:
            # still an instance (counts for the floor), but not printed again as a finding
            self.r.instances.append(dict(file=mod.rel, function=fn, construct=cons, verdict='VIOLATED', nontrivial=True,
                                         note='(same failure as an earlier finding) ' + msg))
            return
        self.seen.add(sig)
        self.r.bad(mod, fn, cons, msg, line)


# ---------------------------------------------------------------------------------------------------------------
# R-C08-symmetric
_SYM_ANCHORS = [
    (L3, 'ComponentLevel3._connect_signal_const', 'add'),
    (L3, 'ComponentLevel3._connect_signal_signal', 'add'),
    (L5, 'ComponentLevel5._connect_method_ports', 'add'),
    (COMP, 'Component.add_connection', 'add'),
    (L3, 'ComponentLevel3._disconnect_signal_signal', 'remove'),
    (L3, 'ComponentLevel3._disconnect_signal_int', 'remove'),
    (L3, 'ComponentLevel3._collect_vars', 'merge'),
    (COMP, 'Component.add_connections', 'merge'),
]


def _adj_sites(func):
    """mutations of an adjacency map inside func (not nested defs)"""
    singles, merges, overwrites, deletes = [], [], [], []
    for n in walk_no_nested(func):
        recv = n.func.value if isinstance(n, ast.Call) and isinstance(n.func, ast.Attribute) else None
        if isinstance(recv, ast.Name):
            rv = reaching_value(recv.id, n)       # nb = adj[o1]; nb.add(o2)
            if isinstance(rv, ast.Subscript):
                recv = rv
        if isinstance(recv, ast.Subscript):
            sub = recv
            mp = _adj_map(sub.value, n)
            if mp is None:
                continue
            if n.func.attr in ('add', 'remove', 'discard') and len(n.args) == 1:
                singles.append(dict(op='add' if n.func.attr == 'add' else 'remove', map=mp, k=norm(sub.slice),
                                    v=norm(n.args[0]), node=n, stmt=stmt_of(n)))
            elif n.func.attr == 'update' and len(n.args) == 1:
                merges.append(dict(map=mp, k=norm(sub.slice), v=norm(n.args[0]), node=n, stmt=stmt_of(n)))
        elif isinstance(n, ast.AugAssign) and isinstance(n.target, ast.Subscript):
            mp = _adj_map(n.target.value, n)
            if mp is None:
                continue
            if isinstance(n.op, ast.BitOr):
                merges.append(dict(map=mp, k=norm(n.target.slice), v=norm(n.value), node=n, stmt=n))
            else:
                overwrites.append(n)
        elif isinstance(n, ast.Assign):
            for t in n.targets:
                if isinstance(t, ast.Subscript) and _adj_map(t.value, n) is not None:
                    overwrites.append(n)
        elif isinstance(n, ast.Delete):
            for t in n.targets:
                if isinstance(t, ast.Subscript):
                    mp = _adj_map(t.value, n)
                    if mp is not None:
                        deletes.append(dict(map=mp, k=norm(t.slice), node=n))
    return singles, merges, overwrites, deletes


def _same_path(a, b):
    """(ok, why): statements a and b execute together on every path"""
    ba, bb = _block_of(a), _block_of(b)
    if ba is not None and ba is bb:
        i, j = sorted((_index(ba, a), _index(ba, b)))
        for st in ba[i + 1:j]:
            if _has_exit(st):
                return False, f"`{norm(st)[:60]}` can leave between the two directions"
        return True, ''
    ga = {_guard_key(g) for g in guards_of(a)}
    gb = {_guard_key(g) for g in guards_of(b)}
    if ga == gb:
        return True, ''
    diff = sorted(ga ^ gb)
    return False, f"the two directions are guarded differently ({'not ' if not diff[0][1] else ''}{diff[0][0]})"


def _dispatch_check(r, m, q):
    """_connect_dispatch evaluated on (signal, const) / (const, signal) / (signal, signal)"""
    f = m.get_func(q)
    a = [x.arg for x in f.args.args]
    if len(a) != 5:
        raise AnalysisError(f"{q}: expected (s, o1, o2, o1_connectable, o2_connectable)")
    classes = {k: (lambda v, k=k: isinstance(v, AObj) and k in v.tags) for k in
               ('Signal', 'Interface', 'MethodPort', 'Connectable', 'Const', 'InPort', 'OutPort', 'Wire')}
    for label, mk in (('(signal, 5)', lambda s1, s2: (s1, 5, True, False)),
                      ('(5, signal)', lambda s1, s2: (5, s1, False, True)),
                      ('(signal, signal)', lambda s1, s2: (s1, s2, True, True))):
        calls = []
        s1 = AObj('sigA', tags=['Signal', 'Connectable'])
        s2 = AObj('sigB', tags=['Signal', 'Connectable'])
        host = AObj('s', methods={k: (lambda *args, k=k: calls.append((k, args))) for k in
                                  ('_connect_signal_signal', '_connect_signal_const', '_connect_interfaces',
                                   '_connect_method_ports')})
        o1, o2, c1, c2 = mk(s1, s2)
        it = Interp(dict(zip(a, (host, o1, o2, c1, c2))), classes=classes)
        kind, val = it.run(f.body)
        r.evaluations += 1
        cons = f"_connect_dispatch{label}"
        if label == '(signal, signal)':
            ok = kind == 'fall' and len(calls) == 1 and calls[0][0] == '_connect_signal_signal' and \
                {id(x) for x in calls[0][1]} == {id(s1), id(s2)}
            want = "_connect_signal_signal(sigA, sigB)"
        else:
            ok = kind == 'fall' and len(calls) == 1 and calls[0][0] == '_connect_signal_const' and \
                len(calls[0][1]) == 2 and calls[0][1][0] is s1 and calls[0][1][1] == 5 and not isinstance(calls[0][1][1], AObj)
            want = "_connect_signal_const(signal, 5)"
        got = f"{kind} {val if kind == 'raise' else ''} calls={[(k, tuple(map(repr, a_))) for k, a_ in calls]}"
        if ok:
            r.ok(m, q, f"{cons} -> {want}")
        else:
            r.bad(m, q, cons, f"connecting {label} must end in {want} whichever side the constant is on; got {got}: "
                  f"swapping the two sides of a connect statement changes the result", f.lineno)


def rule_symmetric(repo):
    r = RuleResult('R-C08-symmetric', "every edge is inserted/removed in both directions on the same map and path; bulk "
                                      "merges are unconditional unions; constants are normalised to (signal, const)")
    found = {}
    files = [rel for rel in repo.py_files('pymtl3/dsl')]
    for rel in files:
        if 'adjacency' not in repo.src(rel):
            continue
        m = repo.mod(rel)
        for func in _all_funcs(m):
            singles, merges, overwrites, deletes = _adj_sites(func)
            if not (singles or merges or overwrites):
                continue
            q = qualname(func)
            found[(rel, q)] = (singles, merges)
            for n in overwrites:
                r.bad(m, q, norm(n), "an adjacency entry is overwritten instead of united: edges recorded earlier for "
                      "this key (e.g. by another component connecting the same port) are lost in one direction only",
                      n.lineno)
            done = set()
            for s in singles:
                if id(s['node']) in done:
                    continue
                cons = f"{s['map']}[{s['k']}].{s['op']}({s['v']})"
                if s['k'] == s['v']:
                    r.bad(m, q, cons, "self edge: key and value are the same object, the other end point is never "
                          "linked", s['node'].lineno)
                    continue
                partners = [t for t in singles if t is not s and t['op'] == s['op'] and t['map'] == s['map'] and
                            t['k'] == s['v'] and t['v'] == s['k']]
                if not partners:
                    if s['op'] == 'remove' and any(d['map'] == s['map'] and d['k'] == s['v'] for d in deletes):
                        r.ok(m, q, cons + f" ; del {s['map']}[{s['v']}]", nontrivial=False,
                             note="the mirrored entry is deleted wholesale (C15 R-C15-keys)")
                        continue
                    other = [t for t in singles if t is not s and t['op'] == s['op'] and t['k'] == s['v'] and t['v'] == s['k']]
                    why = f"the mirror goes to a different map ({other[0]['map']})" if other else \
                        f"there is no {s['op']} of ({s['v']} -> {s['k']})"
                    r.bad(m, q, cons, f"edge ({s['k']} -> {s['v']}) is {'inserted' if s['op'] == 'add' else 'removed'} "
                          f"in one direction only: {why}; flood fill started from {s['v']} does not reach {s['k']}, "
                          f"so the nets depend on which side of connect() a signal was written", s['node'].lineno)
                    continue
                t = partners[0]
                done.add(id(t['node']))
                ok, why = _same_path(s['stmt'], t['stmt'])
                if ok:
                    blk = _block_of(s['stmt'])
                    if blk is not None and blk is _block_of(t['stmt']):
                        i, j = sorted((_index(blk, s['stmt']), _index(blk, t['stmt'])))
                        reb = [x for st in blk[i:j] for x in _assigned(st) if x in (s['k'], s['v'])]
                        if reb:
                            ok, why = False, f"`{reb[0]}` is re-bound between the two directions"
                if not ok:
                    r.bad(m, q, cons + ' / ' + f"{t['map']}[{t['k']}].{t['op']}({t['v']})",
                          f"the two directions of the edge are not on the same path: {why}", s['node'].lineno)
                    continue
                # silent drops: which conditions control the insertion?
                verdict = None
                if s['op'] == 'add':
                    for g in guards_of(s['stmt']):
                        if g.kind in ('assert', 'loop', 'except'):
                            continue
                        if g.kind == 'exit':
                            if any(isinstance(x, ast.Raise) for st in g.exit_block for x in walk_no_nested(st)):
                                continue
                            if isinstance(g.test, ast.Compare) and len(g.test.ops) == 1 and \
                                    isinstance(g.test.ops[0], (ast.Is, ast.Eq)) and not g.polarity and \
                                    {norm(g.test.left), norm(g.test.comparators[0])} == {s['k'], s['v']}:
                                continue      # `if a is b: return` -- a self connection carries no edge
                            verdict = f"when {'' if not g.polarity else 'not '}({norm(g.test)}) the function leaves " \
                                      f"without inserting the edge and without an error"
                            break
                        t_ = g.test
                        if isinstance(t_, ast.Compare) and len(t_.ops) == 1 and isinstance(t_.ops[0], (ast.In, ast.NotIn)) \
                                and isinstance(t_.comparators[0], ast.Subscript) and \
                                _adj_map(t_.comparators[0].value, g.node) == s['map']:
                            present = isinstance(t_.ops[0], ast.In) == g.polarity
                            if present:
                                verdict = f"the edge is inserted only when it is already present ({norm(t_)} is {g.polarity})"
                                break
                            continue
                        if all(isinstance(c, ast.Call) and norm(c.func) == 'isinstance' for c in
                               ([t_] if not isinstance(t_, ast.BoolOp) else t_.values)):
                            if not any(isinstance(x, ast.Raise) for x in (g.node.orelse if g.polarity else g.node.body)
                                       for x in walk_no_nested(x)) and not (g.node.orelse if g.polarity else []):
                                r.observations.append(
                                    f"{q}: when `{norm(t_)}` is {not g.polarity} no edge is inserted and no error is "
                                    f"raised (e.g. a constant operand is ignored silently)")
                            continue
                        verdict = f"the edge is inserted only when {'' if g.polarity else 'not '}({norm(t_)})"
                        break
                if verdict:
                    r.bad(m, q, cons, f"connection dropped silently: {verdict}", s['node'].lineno)
                else:
                    r.ok(m, q, cons + ' / ' + f"{t['map']}[{t['k']}].{t['op']}({t['v']})")
            for mg in merges:
                cons = f"{mg['map']}[{mg['k']}] |= {mg['v']}"
                lp = enclosing(mg['stmt'], (ast.For, ast.While, ast.FunctionDef))
                ok = isinstance(lp, ast.For) and isinstance(lp.iter, ast.Call) and isinstance(lp.iter.func, ast.Attribute) \
                    and lp.iter.func.attr == 'items' and _adj_map(lp.iter.func.value, lp) is not None \
                    and isinstance(lp.target, ast.Tuple) and [norm(x) for x in lp.target.elts] == [mg['k'], mg['v']]
                if not ok:
                    r.bad(m, q, cons, "bulk merge is not `for k, v in <adjacency>.items(): <all_adjacency>[k] |= v`: "
                          "keys and neighbour sets of the source map are not carried over one to one", mg['node'].lineno)
                    continue
                inner = [g for g in guards_of(mg['stmt'], stop=lp) if g.node is not lp and g.kind != 'assert']
                skips = [n for n in walk_no_nested(lp) if isinstance(n, (ast.Break, ast.Continue, ast.Return))]
                if inner or skips:
                    what = norm(inner[0].test) if inner else type(skips[0]).__name__.lower()
                    r.bad(m, q, cons, f"the merge skips entries ({what}): an edge (a,b) may be merged while (b,a) is not, "
                          f"so the whole-design graph is no longer symmetric", mg['node'].lineno)
                    continue
                outer = [g for g in guards_of(lp) if g.kind in ('if', 'exit')]
                badg = None
                for g in outer:
                    t_ = g.test
                    if isinstance(t_, ast.Call) and norm(t_.func) == 'isinstance' and g.polarity and g.kind == 'if':
                        cls = repo.resolve_class(m, t_.args[1]) if len(t_.args) == 2 else None
                        owns = cls is not None and any(
                            isinstance(x, ast.Attribute) and x.attr == 'adjacency' and isinstance(x.ctx, ast.Store)
                            for x in ast.walk(cls[1]))
                        if not owns:
                            badg = f"only components that are instances of {norm(t_.args[1])} are merged, but the class " \
                                   f"that creates _dsl.adjacency is a different one"
                    elif g.kind == 'exit' and any(isinstance(x, ast.Raise) for st in g.exit_block for x in walk_no_nested(st)):
                        continue
                    else:
                        badg = f"the merge only happens when {'' if g.polarity else 'not '}({norm(t_)})"
                if badg:
                    r.bad(m, q, cons, f"{badg}: connections made inside other components never reach the whole-design "
                          f"graph", mg['node'].lineno)
                else:
                    r.ok(m, q, cons + f" for every entry of {norm(lp.iter.func.value)}")
    # post-elaboration insertion: the cached nets must be marked stale on the same path
    cm = repo.mod(COMP)
    q = 'Component.add_connection'
    singles, _ = found.get((COMP, q), ([], []))
    late = [s_ for s_ in singles if s_['op'] == 'add' and s_['map'].endswith('.all_adjacency')]
    if late:
        blk = _block_of(late[0]['stmt']) or []
        flag = [st for st in blk if isinstance(st, ast.Assign) and len(st.targets) == 1 and isinstance(st.targets[0], ast.Attribute)
                and st.targets[0].attr == '_has_pending_value_connections' and isinstance(st.value, ast.Constant) and st.value.value is True]
        ok = bool(flag) and all(_same_path(flag[0], s_['stmt'])[0] for s_ in late)
        (r.ok if ok else r.bad)(cm, q, "all_adjacency insertion ; _has_pending_value_connections = True",
                                *([] if ok else ["an edge added after elaboration does not mark the cached value nets as pending: "
                                                 "get_all_value_nets() keeps returning the nets of the old graph", late[0]['node'].lineno]))
    for rel, q, kind in _SYM_ANCHORS:
        m = repo.mod(rel)
        m.get_func(q)   # a vanished anchor is an analysis error
        singles, merges = found.get((rel, q), ([], []))
        have = (kind == 'merge' and merges) or (kind != 'merge' and any(s['op'] == kind for s in singles))
        if not have:
            r.bad(m, q, f"{kind} on an adjacency map", f"{q} no longer records the connection in an adjacency map: the "
                  f"edge is missing from the graph in both directions", m.get_func(q).lineno)
    for rel, q in ((L3, 'connect'), (L3, 'ComponentLevel3._connect'), (CONN, 'Connectable.__ifloordiv__')):
        m = repo.mod(rel)
        fn = m.get_func(q)
        calls = [c for c in walk_no_nested(fn) if isinstance(c, ast.Call) and isinstance(c.func, ast.Attribute)
                 and c.func.attr == '_connect_dispatch']
        chk = [st for st in walk_no_nested(fn) if isinstance(st, ast.Assign) and isinstance(st.value, ast.Call) and
               norm(st.value.func) == '_connect_check' and isinstance(st.targets[0], ast.Tuple) and len(st.targets[0].elts) == 3]
        if len(calls) != 1 or len(chk) != 1 or len(chk[0].value.args) < 2:
            raise AnalysisError(f"{q}: expected one _connect_check(...) and one _connect_dispatch(...) call")
        a1, a2 = [norm(x) for x in chk[0].value.args[:2]]
        _, c1, c2 = [norm(x) for x in chk[0].targets[0].elts]
        got = [norm(x) for x in calls[0].args]
        ok = got == [a1, a2, c1, c2] and not calls[0].keywords
        (r.ok if ok else r.bad)(m, q, f"_connect_dispatch({', '.join(got)})",
                                *([] if ok else [f"the connectable flags returned by _connect_check({a1}, {a2}) are ({c1}, {c2}); they "
                                                 f"must be passed along with their own operands ({a1}, {a2}, {c1}, {c2}), otherwise the "
                                                 f"constant side is mistaken for the signal side", calls[0].lineno]))
    _dispatch_check(r, repo.mod(L3), 'ComponentLevel3._connect_dispatch')
    _dispatch_check(r, repo.mod(L5), 'ComponentLevel5._connect_dispatch')
    r.observations = sorted(set(r.observations))
    r.require_floor(17)
    return r


# ---------------------------------------------------------------------------------------------------------------
# R-C08-const
def rule_const(repo):
    r = RuleResult('R-C08-const', "_connect_signal_const inserts, for every constant kind and host relation, a fresh Const "
                                  "node (signal's type, owned by the connecting component) symmetrically")
    m = repo.mod(L3)
    q = 'ComponentLevel3._connect_signal_const'
    f = m.get_func(q)
    a = [x.arg for x in f.args.args]
    if len(a) != 3:
        raise AnalysisError(f"{q}: expected (s, o1, o2)")
    cap = _Capped(r)
    classes = {k: (lambda v, k=k: isinstance(v, AObj) and k in v.tags) for k in
               ('Signal', 'InPort', 'OutPort', 'Wire', 'Const', 'Bits', 'Connectable')}
    classes['int'] = lambda v: isinstance(v, int) and not isinstance(v, bool)
    for ckind in ('int', 'Bits', 'bitstruct'):
        for skind in ('InPort', 'OutPort', 'Wire'):
            for hrel in ('own', 'child', 'grandchild'):
                made = []
                outer = AObj('outer', tags=['Component'])
                S = AObj('s', tags=['Component'], methods={'get_parent_object': lambda outer=outer: outer})
                child = AObj('s.c', tags=['Component'], methods={'get_parent_object': lambda S=S: S})
                grand = AObj('s.c.g', tags=['Component'], methods={'get_parent_object': lambda child=child: child})
                host = {'own': S, 'child': child, 'grandchild': grand}[hrel]
                sdsl = AObj('s._dsl', attrs=dict(adjacency=DDict(), consts=ASet(), connect_order=[]))
                S.attrs['_dsl'] = sdsl
                if ckind == 'bitstruct':
                    Type = AObj('SomeStruct', tags=['type'])
                    o2 = AObj('SomeStruct()', tags=['bitstruct_inst'], attrs={'__class__': Type})
                else:
                    Type = AObj('Bits8', tags=['type', 'BitsType'], attrs=dict(nbits=8))
                    o2 = 5 if ckind == 'int' else AObj('Bits8(5)', tags=['Bits'], attrs={'__class__': Type, 'nbits': 8})
                conv = []
                Type.methods['__call__'] = lambda v, conv=conv, Type=Type: conv.append(v) or AObj(
                    f"{Type.name}({v!r})", tags=['Bits'], attrs={'__class__': Type, 'nbits': 8})
                o1 = AObj('sig', tags=['Signal', 'Connectable', skind],
                          attrs={'_dsl': AObj('sig._dsl', attrs=dict(Type=Type))},
                          methods={'get_host_component': lambda host=host: host})

                def mk_const(T, v, p, made=made):
                    c = AObj(f"Const({v!r})", tags=['Const', 'Connectable'],
                             attrs={'_dsl': AObj('const._dsl', attrs=dict(Type=T, const=v, parent_obj=p), settable=True)})
                    made.append(c)
                    return c
                funcs = dict(Const=mk_const,
                             issubclass=lambda t, c: isinstance(t, AObj) and 'BitsType' in t.tags,
                             type=lambda v: int if isinstance(v, int) else v.attrs['__class__'],
                             is_bitstruct_inst=lambda v: isinstance(v, AObj) and 'bitstruct_inst' in v.tags,
                             is_bitstruct_class=lambda v: isinstance(v, AObj) and 'type' in v.tags and 'BitsType' not in v.tags)
                it = Interp(dict(zip(a, (S, o1, o2))), classes=classes, funcs=funcs)
                it.env['int'] = AObj('int', tags=['type'])
                it.env['Bits'] = AObj('Bits', tags=['type'])
                kind, val = it.run(f.body)
                r.evaluations += 1
                cons = f"connect({skind} of {hrel} component, {ckind} constant)"
                adj = sdsl.attrs['adjacency']
                nb = adj.get(o1)
                if kind != 'fall':
                    cap.bad(m, q, cons, f"does not complete: {kind} {val}", f.lineno, sig=f"{kind}{val}")
                    continue
                if nb is None or len(nb) != 1:
                    cap.bad(m, q, cons, f"the signal's adjacency entry is {nb!r}, expected exactly the new Const node",
                            f.lineno, sig='nb')
                    continue
                c = nb.items[0]
                if not (isinstance(c, AObj) and 'Const' in c.tags):
                    cap.bad(m, q, cons, f"the object inserted next to the signal is {c!r}, not a Const node: the writer test "
                            f"`isinstance(v, Const)` misses it and equal constants of different statements merge their nets",
                            f.lineno, sig='notconst')
                    continue
                if len(made) != 1:
                    cap.bad(m, q, cons, f"{len(made)} Const nodes are created for one statement", f.lineno, sig='made')
                    continue
                back = adj.get(c)
                if back is None or back.items != [o1] or len(adj) != 2:
                    cap.bad(m, q, cons, f"adjacency after the statement is {dict(adj)!r}: expected exactly sig <-> Const",
                            f.lineno, sig='back')
                    continue
                cd = c.attrs['_dsl'].attrs
                if cd.get('parent_obj') is not S:
                    cap.bad(m, q, cons, f"the Const's parent object is {cd.get('parent_obj')!r}, not the connecting component "
                            f"`{a[0]}`: its host component (used for the hierarchical port checks and for the net block's "
                            f"common ancestor) differs from the component whose adjacency map holds the edge",
                            f.lineno, sig='parent')
                    continue
                if cd.get('Type') is not Type:
                    cap.bad(m, q, cons, f"the Const carries type {cd.get('Type')!r}, the signal has {Type!r}", f.lineno, sig='type')
                    continue
                v = cd.get('const')
                okv = (ckind == 'int' and isinstance(v, AObj) and conv == [5]) or (ckind != 'int' and v is o2)
                if not okv:
                    cap.bad(m, q, cons, f"the Const's value is {v!r} (constant given: {o2!r})", f.lineno, sig='value')
                    continue
                if c not in sdsl.attrs['consts']:
                    cap.bad(m, q, cons, "the Const is not registered in the connecting component's `consts` (it survives "
                            "the removal of that component)", f.lineno, sig='consts')
                    continue
                # a second statement with an equal constant on the same component
                o1b = AObj('sig2', tags=['Signal', 'Connectable', skind],
                           attrs={'_dsl': AObj('sig2._dsl', attrs=dict(Type=Type))},
                           methods={'get_host_component': lambda host=host: host})
                it2 = Interp(dict(zip(a, (S, o1b, o2))), classes=classes, funcs=funcs)
                it2.env['int'], it2.env['Bits'] = it.env['int'], it.env['Bits']
                kind2, val2 = it2.run(f.body)
                nb2 = adj.get(o1b)
                if kind2 != 'fall' or nb2 is None or len(nb2) != 1 or nb2.items[0] is c or len(adj) != 4 or adj.get(o1).items != [c]:
                    cap.bad(m, q, cons, "a second connect() of an equal constant to another signal does not create its own Const "
                            "node: the two signals end up in one net although they were never connected", f.lineno, sig='shared')
                    continue
                r.ok(m, q, cons + " -> sig <-> Const(parent=s)")
    r.require_floor(24)
    return r



# ---------------------------------------------------------------------------------------------------------------
# Boolean structure of guards over named atoms
def _atom_of(e):
    """(atom text, negated) for a leaf test; `a not in b` -> ('a in b', True) etc."""
    if isinstance(e, ast.Compare) and len(e.ops) == 1:
        l, rr = norm(e.left), norm(e.comparators[0])
        op = e.ops[0]
        if isinstance(op, ast.In):
            return f"{l} in {rr}", False
        if isinstance(op, ast.NotIn):
            return f"{l} in {rr}", True
        if isinstance(op, ast.Is):
            return f"{l} is {rr}", False
        if isinstance(op, ast.IsNot):
            return f"{l} is {rr}", True
        if isinstance(op, ast.Eq):
            return f"{l} == {rr}", False
        if isinstance(op, ast.NotEq):
            return f"{l} == {rr}", True
    return norm(e), False


def _collect_atoms(e, acc):
    if isinstance(e, ast.BoolOp):
        for v in e.values:
            _collect_atoms(v, acc)
    elif isinstance(e, ast.UnaryOp) and isinstance(e.op, ast.Not):
        _collect_atoms(e.operand, acc)
    else:
        acc.add(_atom_of(e)[0])


def _eval_bool(e, val):
    if isinstance(e, ast.BoolOp):
        vs = [_eval_bool(v, val) for v in e.values]
        return all(vs) if isinstance(e.op, ast.And) else any(vs)
    if isinstance(e, ast.UnaryOp) and isinstance(e.op, ast.Not):
        return not _eval_bool(e.operand, val)
    a, neg = _atom_of(e)
    return val[a] != neg


def _guard_table(guards, fixed=None):
    """all valuations of the atoms of `guards` (those in `fixed` pinned) -> does every guard hold"""
    atoms = set()
    for g in guards:
        _collect_atoms(g.test, atoms)
    fixed = fixed or {}
    free = sorted(a for a in atoms if a not in fixed)
    if len(free) > 8:
        raise AnalysisError("too many atoms in a guard")
    rows = []
    for vals in itertools.product((False, True), repeat=len(free)):
        val = dict(fixed)
        val.update(zip(free, vals))
        for a in atoms:
            val.setdefault(a, False)
        rows.append((val, all(_eval_bool(g.test, val) == g.polarity for g in guards)))
    return rows


def _ctl_guards(node, stop):
    return [g for g in guards_of(node, stop=stop) if g.node is not stop and g.kind in ('if', 'exit')]


# ---------------------------------------------------------------------------------------------------------------
# R-C08-flood
def rule_flood(repo):
    r = RuleResult('R-C08-flood', "_floodfill_nets computes connected components: every unvisited start node is expanded, "
                                  "every popped node joins the net, every neighbour is pushed iff unvisited, only "
                                  "single-member nets are dropped")
    m = repo.mod(L3)
    q = 'ComponentLevel3._floodfill_nets'
    f = m.get_func(q)
    params = [a.arg for a in f.args.args]
    if not any(norm(d) == 'staticmethod' for d in f.decorator_list):
        params = params[1:]
    if len(params) != 2:
        raise AnalysisError(f"{q}: expected (signal_list, adjacency)")
    SL, ADJ = params

    def verdict(ok, cons, msg, line=None):
        if ok:
            r.ok(m, q, cons)
        else:
            r.bad(m, q, cons, msg, line or f.lineno)
        return ok

    # result variable
    rets = [n for n in walk_no_nested(f) if isinstance(n, ast.Return)]
    if not rets or not all(isinstance(x.value, ast.Name) for x in rets) or len({x.value.id for x in rets}) != 1:
        raise AnalysisError(f"{q}: cannot identify the result list")
    RES = rets[0].value.id
    outers = [s for s in f.body if isinstance(s, ast.For) and SL in names_in(s.iter)]
    if len(outers) != 1:
        raise AnalysisError(f"{q}: expected exactly one loop over {SL}")
    OUT = outers[0]
    it = OUT.iter
    whole = (isinstance(it, ast.Name) and it.id == SL) or \
        (isinstance(it, ast.Call) and norm(it.func) in ('list', 'sorted', 'tuple', 'iter', 'set') and len(it.args) >= 1
         and norm(it.args[0]) == SL)
    verdict(whole and isinstance(OUT.target, ast.Name), f"for {norm(OUT.target)} in {norm(it)}",
            f"the start-node loop does not range over all of {SL}: a signal that is only reachable from a skipped start "
            f"node ends up in no net", OUT.lineno)
    if not isinstance(OUT.target, ast.Name):
        raise AnalysisError(f"{q}: start loop target is not a name")
    OBJ = OUT.target.id
    early = [x for x in rets if parent(x) is not f or _index(f.body, x) < _index(f.body, OUT)]
    verdict(not early, f"return {RES} after the start-node loop",
            f"`return {RES}` inside / before the start-node loop returns after the first net: later nets are lost",
            early[0].lineno if early else None)

    apps = [c for c in ast.walk(OUT) if isinstance(c, ast.Call) and norm(c.func) == f"{RES}.append" and len(c.args) == 1]
    if len(apps) != 1 or not isinstance(apps[0].args[0], ast.Name):
        if not apps:
            r.bad(m, q, f"{RES}.append(<net>)", "no net is ever appended to the result", OUT.lineno)
            r.require_floor(1)
            return r
        raise AnalysisError(f"{q}: expected one `{RES}.append(<net>)`")
    APP = apps[0]
    NET = APP.args[0].id

    def inits(name, pred):
        return [s for s in ast.walk(f) if isinstance(s, ast.Assign) and any(isinstance(t, ast.Name) and t.id == name
                                                                            for t in s.targets) and pred(s.value)]
    is_empty_list = lambda v: (isinstance(v, ast.List) and not v.elts) or (isinstance(v, ast.Call) and norm(v.func) == 'list' and not v.args)
    is_empty_set = lambda v: isinstance(v, ast.Call) and norm(v.func) == 'set' and not v.args
    ri = inits(RES, is_empty_list)
    verdict(len(ri) == 1 and parent(ri[0]) is f and _index(f.body, ri[0]) < _index(f.body, OUT), f"{RES} = [] once, before the loop",
            f"the result list {RES} is not initialised exactly once before the start-node loop (nets found earlier are "
            f"discarded)", ri[0].lineno if ri else None)
    ni = inits(NET, lambda v: is_empty_set(v) or isinstance(v, (ast.Set, ast.Call)))
    fresh = len(ni) == 1 and _nearest_loop(ni[0]) is OUT
    verdict(fresh, f"{NET} = set() per start node",
            f"the member set {NET} is not created afresh for each start node: all nets share one set object / members of "
            f"an earlier net leak into the next", ni[0].lineno if ni else None)

    whiles = [s for s in ast.walk(OUT) if isinstance(s, ast.While) and _nearest_loop(s) is OUT]
    if len(whiles) != 1:
        raise AnalysisError(f"{q}: expected exactly one work-list loop inside the start-node loop")
    W = whiles[0]
    qn = [n.id for n in ast.walk(W.test) if isinstance(n, ast.Name) and n.id != 'len']
    if len(set(qn)) != 1:
        raise AnalysisError(f"{q}: cannot identify the work list from `while {norm(W.test)}`")
    Q = qn[0]
    qi = [s for s in ast.walk(OUT) if isinstance(s, ast.Assign) and any(isinstance(t, ast.Name) and t.id == Q for t in s.targets)
          and _nearest_loop(s) is OUT]
    seeded = False
    if len(qi) == 1:
        v = qi[0].value
        if isinstance(v, ast.Call) and norm(v.func) in ('deque', 'list', 'collections.deque') and len(v.args) == 1:
            v = v.args[0]
        seeded = isinstance(v, (ast.List, ast.Tuple)) and len(v.elts) == 1 and norm(v.elts[0]) == OBJ
    verdict(seeded and any(x is qi[0] or any(y is qi[0] for y in ast.walk(x)) for x in preceding_stmts(W)),
            f"{Q} = [{OBJ}] before `while {norm(W.test)}`",
            f"the work list is not seeded with exactly the start node {OBJ} before the loop", qi[0].lineno if qi else W.lineno)
    pops = [s for s in W.body if isinstance(s, ast.Assign) and isinstance(s.value, ast.Call) and
            norm(s.value.func) in (f"{Q}.pop", f"{Q}.popleft") and len(s.targets) == 1 and isinstance(s.targets[0], ast.Name)]
    if len(pops) != 1:
        raise AnalysisError(f"{q}: expected `u = {Q}.pop()` at the top of the work-list loop")
    U = pops[0].targets[0].id

    # visited set
    cands = {norm(c.func.value) for c in ast.walk(OUT) if isinstance(c, ast.Call) and isinstance(c.func, ast.Attribute)
             and c.func.attr == 'add' and isinstance(c.func.value, ast.Name)} - {NET}
    cands = {c for c in cands if inits(c, is_empty_set)}
    if len(cands) > 1:
        raise AnalysisError(f"{q}: several candidate visited sets {sorted(cands)}")
    if not cands:
        r.bad(m, q, "visited set", "no set records which nodes were already expanded: with symmetric edges the fill "
              "never terminates / nets are duplicated", W.lineno)
        r.require_floor(1)
        return r
    VIS = cands.pop()
    vi = inits(VIS, is_empty_set)
    verdict(len(vi) == 1 and parent(vi[0]) is f and _index(f.body, vi[0]) < _index(f.body, OUT), f"{VIS} = set() once, before the loop",
            f"the visited set is re-created inside the start-node loop: a signal reachable from two start nodes is "
            f"expanded twice and appears in two nets", vi[0].lineno if vi else None)

    def direct_unguarded(stmt, loop):
        return parent(stmt) is loop and any(x is stmt for x in loop.body) and not _ctl_guards(stmt, loop)

    # every popped node joins the net
    nadds = [stmt_of(c) for c in ast.walk(W) if isinstance(c, ast.Call) and norm(c.func) == f"{NET}.add" and
             len(c.args) == 1 and norm(c.args[0]) == U]
    verdict(any(direct_unguarded(s, W) and _index(W.body, s) > _index(W.body, pops[0]) for s in nadds), f"{NET}.add({U}) for every popped {U}",
            f"a popped node is not (unconditionally) added to the net: members reached through it are in the net but it "
            f"is not, or the net misses members", (nadds[0].lineno if nadds else W.lineno))
    vadds_pop = [stmt_of(c) for c in ast.walk(W) if isinstance(c, ast.Call) and norm(c.func) == f"{VIS}.add" and
                 len(c.args) == 1 and norm(c.args[0]) == U]
    # neighbour loop
    nls = [s for s in ast.walk(W) if isinstance(s, ast.For) and _nearest_loop(s) is W and ADJ in names_in(s.iter)]
    good_nl = [s for s in nls if (isinstance(s.iter, ast.Subscript) and norm(s.iter.value) == ADJ and norm(s.iter.slice) == U)
               or (isinstance(s.iter, ast.Call) and norm(s.iter.func) == f"{ADJ}.get" and s.iter.args and norm(s.iter.args[0]) == U)]
    if not verdict(len(good_nl) == 1 and direct_unguarded(good_nl[0], W) and isinstance(good_nl[0].target, ast.Name)
                   and _index(W.body, good_nl[0]) > _index(W.body, pops[0]),
                   f"for v in {ADJ}[{U}] for every popped {U}",
                   f"the neighbours of the popped node are not all visited (loop over {norm(nls[0].iter) if nls else 'nothing'}): "
                   f"signals connected through it are left out of the net", nls[0].lineno if nls else W.lineno):
        r.require_floor(1)
        return r
    NL = good_nl[0]
    V = NL.target.id
    brk = [n for n in ast.walk(NL) if isinstance(n, ast.Break) and _nearest_loop(n) is NL]
    wbrk = [n for n in ast.walk(W) if isinstance(n, (ast.Break, ast.Return)) and _nearest_loop(n) in (W, f)]
    verdict(not brk and not wbrk, "no break out of the neighbour / work-list loop",
            "a break/return leaves the fill before all neighbours are handled / the work list is empty: the net is "
            "truncated", (brk + wbrk)[0].lineno if brk or wbrk else None)
    pushes = [stmt_of(c) for c in ast.walk(NL) if isinstance(c, ast.Call) and norm(c.func) in (f"{Q}.append", f"{Q}.appendleft")
              and len(c.args) == 1 and norm(c.args[0]) == V and _nearest_loop(c) is NL]
    inV = f"{V} in {VIS}"
    if not pushes:
        r.bad(m, q, f"{Q}.append({V})", "neighbours are never pushed on the work list: every net is a single start node",
              NL.lineno)
    else:
        guard_sets = [_ctl_guards(p, NL) for p in pushes]
        atoms = set()
        for gs in guard_sets:
            for g in gs:
                _collect_atoms(g.test, atoms)
        atoms = sorted(atoms)
        if len(atoms) > 8:
            raise AnalysisError(f"{q}: too many atoms in the push condition")
        prob = None
        for vals in itertools.product((False, True), repeat=len(atoms)):
            val = dict(zip(atoms, vals))
            pushed = any(all(_eval_bool(g.test, val) == g.polarity for g in gs) for gs in guard_sets)
            r.evaluations += 1
            visited = val.get(inV, False)
            if not visited and not pushed:
                others = [f"{a}={val[a]}" for a in atoms if a != inV]
                prob = f"an unvisited neighbour is not pushed when {', '.join(others) or 'reached'}: it and everything " \
                       f"behind it is missing from the net"
            if pushed and (visited or inV not in atoms):
                prob = prob or "an already visited neighbour is pushed again: with symmetric edges the fill bounces " \
                               "between the two end points for ever"
        verdict(prob is None, f"{Q}.append({V}) iff {V} not in {VIS}", prob or '', pushes[0].lineno)
    # visited marking: at pop time or at push time
    pop_mark = any(direct_unguarded(s, W) for s in vadds_pop)
    push_mark = bool(pushes) and all(any(isinstance(x, ast.Expr) and isinstance(x.value, ast.Call) and norm(x.value.func) == f"{VIS}.add"
                                         and norm(x.value.args[0]) == V for x in (_block_of(p) or [])) for p in pushes) and \
        any(isinstance(c, ast.Call) and norm(c.func) == f"{VIS}.add" and norm(c.args[0]) == OBJ and _nearest_loop(c) is OUT
            for c in ast.walk(OUT))
    verdict(pop_mark or push_mark, f"{VIS}.add({U}) for every popped {U}",
            "expanded nodes are not recorded as visited: the same signal is expanded again from the next start node and "
            "ends up in two nets (or the fill does not terminate)", W.lineno)
    # start condition
    a1, a2 = f"{OBJ} in {ADJ}", f"{OBJ} in {VIS}"
    prob = None
    for val, started in _guard_table(_ctl_guards(W, OUT)):
        r.evaluations += 1
        if val.get(a2, False) and started:
            prob = f"a start node that was already visited is expanded again: its net is reported twice"
        if val.get(a1, True) and not val.get(a2, False) and not started:
            others = [f"{a}={v}" for a, v in val.items() if a not in (a1, a2)]
            prob = prob or f"an unvisited connected start node is skipped when {', '.join(others)}"
    if a2 not in {a for val, _ in _guard_table(_ctl_guards(W, OUT)) for a in val}:
        prob = prob or "the start condition does not test the visited set: every member of a net starts its own copy of the net"
    verdict(prob is None, f"expand {OBJ} iff {OBJ} in {ADJ} and {OBJ} not in {VIS}", prob or '', W.lineno)
    # drop condition
    app_st = stmt_of(APP)
    prob = None
    if _nearest_loop(APP) is not OUT:
        prob = "the net is appended inside the work-list loop (once per popped node)"
    elif not any(x is W or any(y is W for y in ast.walk(x)) for x in preceding_stmts(app_st)):
        prob = "the net is appended / measured before it has been filled"
    else:
        gs = _ctl_guards(app_st, OUT)
        lits = [c.value for g in gs for c in ast.walk(g.test) if isinstance(c, ast.Constant) and isinstance(c.value, int)
                and not isinstance(c.value, bool)]
        for n in range(1, max([3] + [abs(x) for x in lits]) + 3):
            def leaf(e, n=n):
                if isinstance(e, ast.Call) and norm(e.func) == 'len' and len(e.args) == 1 and norm(e.args[0]) == NET:
                    return n
                if isinstance(e, ast.Compare):
                    a, neg = _atom_of(e)
                    if a == a1:
                        return True != neg
                    if a == a2:
                        return False != neg
                return NotImplemented
            r.evaluations += 1
            kept = all(bool(Evaluator({}, arith=True, leaf=leaf).ev(g.test)) == g.polarity for g in gs)
            if kept != (n >= 2):
                prob = f"a net with {n} member{'s' if n > 1 else ''} is {'kept' if kept else 'dropped'}: " + \
                       ("isolated signals become nets" if n == 1 else "connected signals are reported as unconnected, no net "
                        "block copies the writer's value to them")
                break
    verdict(prob is None, f"{RES}.append({NET}) iff len({NET}) >= 2", prob or '', app_st.lineno)
    r.require_floor(11)
    return r



# ---------------------------------------------------------------------------------------------------------------
# _resolve_value_connections: extraction of the parts and the abstract world
RESOLVE = 'ComponentLevel3._resolve_value_connections'
_CLASSES = {k: (lambda v, k=k: isinstance(v, AObj) and k in v.tags) for k in
            ('Const', 'InPort', 'OutPort', 'Wire', 'Signal', 'Placeholder', 'Component', 'Connectable', 'Interface')}

DRIVER_KINDS = {
    'selfT': "the member itself is marked propagatable (written by an update block / reader of a resolved net / "
             "top-level InPort / placeholder OutPort)",
    'selfF': "the member itself is marked unpropagatable (a field or slice of it is written)",
    'const': "the member is a Const",
    'ancT': "the member's parent signal is a propagatable writer",
    'anc2T': "the member's grandparent signal is a propagatable writer (parent unmarked)",
    'ancTT': "parent and grandparent are both propagatable writers (one driver: the struct)",
    'ancFT': "parent unpropagatable, grandparent propagatable",
    'sibT': "an overlapping sibling slice is a propagatable writer",
    'sibTT': "two overlapping sibling slices are propagatable writers (one driver each, same parent)",
}
NON_DRIVER_KINDS = {
    'plain': "an unmarked top-level signal",
    'field': "an unmarked field whose parent and grandparent signals are unmarked",
    'ancF': "the parent signal is only an unpropagatable writer (a sibling field is written)",
    'sibTno': "a sibling slice is a propagatable writer but does not overlap",
    'sibF': "an overlapping sibling slice is only an unpropagatable writer",
}
ALL_KINDS = list(DRIVER_KINDS) + list(NON_DRIVER_KINDS)


# methods of Signal that the Const class does not have (calling them on a Const is an AttributeError at run time)
_CONST_LACKS = ('get_sibling_slices', 'slice_overlap', 'is_top_level_signal', 'get_top_level_signal', 'is_sliced_signal',
                'is_leaf_signal', 'get_leaf_signals', 'default_value', 'is_input_value_port', 'is_output_value_port', 'is_wire',
                'inverse', 'get_field_name', 'get_full_name', 'get_component_level')


class _Parts:
    pass


def _uniform_or_error(r, what, stmts):
    """the bounded enumeration is exhaustive only for blocks that treat all elements alike; a count-dependent
    literal / list slice voids that argument -> refuse to pass (unless a violation was already established)"""
    lits = nonuniform_literals(stmts)
    if lits and not r.findings:
        raise AnalysisError(f"{r.rule}: {what} contains count-dependent constructs {sorted(set(lits))[:4]}: the enumeration of "
                            f"short abstract sequences is not exhaustive for it")


def _resolve_parts(repo):
    c = getattr(repo, '_c08_parts', None)
    if c is not None:
        return c
    m = repo.mod(L3)
    f = m.get_func(RESOLVE)
    body = [s for s in f.body if not (isinstance(s, ast.Expr) and isinstance(s.value, ast.Constant))]
    whiles = [s for s in body if isinstance(s, ast.While)]
    if len(whiles) != 1:
        raise AnalysisError(f"{RESOLVE}: expected exactly one top-level resolution loop")
    P = _Parts()
    P.m, P.f, P.W = m, f, whiles[0]
    i = _index(body, P.W)
    P.prologue, P.tail = body[:i], body[i:]
    if not P.tail or not isinstance(P.tail[-1], ast.Return) or P.tail[-1].value is None:
        raise AnalysisError(f"{RESOLVE}: the function does not end in `return <nets>`")
    P.ret = P.tail[-1]
    P.S = f.args.args[0].arg
    wps = {t.value.id for s in ast.walk(f) if isinstance(s, ast.Assign) and isinstance(s.value, ast.Constant)
           and isinstance(s.value.value, bool) for t in s.targets if isinstance(t, ast.Subscript) and isinstance(t.value, ast.Name)}
    if len(wps) != 1:
        raise AnalysisError(f"{RESOLVE}: cannot identify the writer-mark dictionary (candidates {sorted(wps)})")
    P.WP = wps.pop()
    if not isinstance(P.W.test, ast.Name):
        raise AnalysisError(f"{RESOLVE}: resolution loop is not `while <headless list>`")
    P.HEADLESS = P.W.test.id
    apps = [c_ for c_ in ast.walk(P.W) if isinstance(c_, ast.Call) and isinstance(c_.func, ast.Attribute) and c_.func.attr == 'append'
            and isinstance(c_.func.value, ast.Name) and len(c_.args) == 1 and isinstance(c_.args[0], ast.Tuple)]
    heads = {c_.func.value.id for c_ in apps}
    if len(heads) != 1:
        raise AnalysisError(f"{RESOLVE}: cannot identify the list of resolved nets (candidates {sorted(heads)})")
    P.HEADED = heads.pop()
    P.head_apps = apps
    nls = [s for s in P.W.body if isinstance(s, ast.For) and norm(s.iter) == P.HEADLESS]
    if len(nls) != 1 or not isinstance(nls[0].target, ast.Name):
        raise AnalysisError(f"{RESOLVE}: expected one `for net in {P.HEADLESS}` in the resolution loop")
    P.NL = nls[0]
    P.NET = P.NL.target.id
    repo._c08_parts = P
    return P


class _World:
    """abstract objects for one run"""
    def __init__(self):
        self.comp = AObj('top', tags=['Component'], absent=(), methods={'is_signal': lambda: False, 'is_component': lambda: True,
                                                                       'get_parent_object': lambda: None})
        self.wp = {}
        self.ov = set()
        self.anc = {}
        self.kind = {}

    def sig(self, name, par, cls='Wire'):
        o = AObj(name, tags=['Signal', 'Connectable', cls], absent=())
        o.sibs = []
        o.methods.update({
            'get_parent_object': lambda: par, 'is_signal': lambda: True, 'is_component': lambda: False,
            'is_interface': lambda: False,
            'get_sibling_slices': lambda o=o: list(o.sibs),
            'slice_overlap': lambda other, o=o: frozenset((id(o), id(other))) in self.ov,
        })
        a, p = [], par
        top_sig = o
        while p is not None and 'Signal' in p.tags:
            top_sig = p
            p = p.methods['get_parent_object']()
        o.methods['get_top_level_signal'] = lambda t=top_sig: t
        a, p = [], par
        while p is not None and 'Signal' in p.tags:
            a.append(p)
            p = p.methods['get_parent_object']()
        self.anc[o] = a
        return o

    def const(self, name):
        o = AObj(name, tags=['Const', 'Connectable'], absent=_CONST_LACKS,
                 methods={'get_parent_object': lambda: self.comp, 'is_signal': lambda: False, 'is_component': lambda: False,
                          'is_interface': lambda: False})
        self.anc[o] = []
        return o

    def slices(self, tag, n_sib, overlap, marks):
        P = self.sig(f"{tag}.x", self.comp)
        me = self.sig(f"{tag}.x[0:4]", P)
        sibs = [self.sig(f"{tag}.x[{2 + k}:{6 + k}]", P) for k in range(n_sib)]
        me.sibs = list(sibs)
        for k, sb in enumerate(sibs):
            sb.sibs = [me] + [x for x in sibs if x is not sb]
            if overlap[k]:
                self.ov.add(frozenset((id(me), id(sb))))
            if marks[k] is not None:
                self.wp[sb] = marks[k]
        self.wp[P] = False
        return me

    def member(self, kind, tag):
        c = self.comp
        if kind == 'plain':
            o = self.sig(tag, c)
        elif kind == 'selfT':
            o = self.sig(tag, c)
            self.wp[o] = True
        elif kind == 'selfF':
            o = self.sig(tag, c)
            self.wp[o] = False
        elif kind == 'const':
            o = self.const(f"Const#{tag}")
        elif kind in ('ancT', 'ancF'):
            p = self.sig(tag, c)
            self.wp[p] = kind == 'ancT'
            o = self.sig(tag + '.a', p)
        elif kind in ('anc2T', 'ancTT', 'ancFT', 'field'):
            g = self.sig(tag, c)
            p = self.sig(tag + '.a', g)
            o = self.sig(tag + '.a.b', p)
            if kind != 'field':
                self.wp[g] = True
            if kind == 'ancTT':
                self.wp[p] = True
            if kind == 'ancFT':
                self.wp[p] = False
        elif kind == 'sibT':
            o = self.slices(tag, 1, [True], [True])
        elif kind == 'sibTT':
            o = self.slices(tag, 2, [True, True], [True, True])
        elif kind == 'sibTno':
            o = self.slices(tag, 1, [False], [True])
        elif kind == 'sibF':
            o = self.slices(tag, 1, [True], [False])
        else:
            raise AnalysisError(f"unknown abstract member kind {kind}")
        self.kind[o] = kind
        return o


def _run_tail(P, world, nets):
    env = {P.S: AObj('s', tags=['Component']), P.WP: world.wp, P.HEADLESS: list(nets), P.HEADED: []}
    it = Interp(env, classes=_CLASSES, max_steps=20000)
    kind, val = it.run(P.tail)
    return kind, val, it


def _fmt_result(kind, val):
    if kind == 'raise':
        return f"raises {val}"
    if kind == 'return' and isinstance(val, list):
        def one(t):
            if isinstance(t, tuple) and len(t) == 2:
                return (t[0], list(t[1].items) if isinstance(t[1], ASet) else t[1])
            return t
        return 'returns ' + repr([one(t) for t in val])
    return f"{kind}s {val!r}"


def _result_is(kind, val, expected):
    """expected: list of (writer, net) compared by identity, order-free"""
    if kind != 'return' or not isinstance(val, list) or len(val) != len(expected):
        return False
    left = list(val)
    for w, n in expected:
        hit = [t for t in left if isinstance(t, tuple) and len(t) == 2 and t[0] is w and t[1] is n]
        if not hit:
            return False
        left.remove(hit[0])
    return True


def _scenario(P, kinds):
    """one net with members of the given kinds (in this iteration order)"""
    w = _World()
    members = [w.member(k, f"m{i}") for i, k in enumerate(kinds)]
    before = dict(w.wp)
    net = ASet(members)
    kind, val, it = _run_tail(P, w, [net])
    return w, members, net, before, kind, val


def _expected_marks(w, members, before, writer):
    """marks after the net is resolved: readers propagatable; their unmarked signal ancestors unpropagatable"""
    exp = dict(before)
    for r_ in members:
        if r_ is writer:
            continue
        exp[r_] = True
        for a in w.anc[r_]:
            if a not in exp:
                exp[a] = False
    return exp


def _scenarios(repo):
    c = getattr(repo, '_c08_scen', None)
    if c is not None:
        return c
    P = _resolve_parts(repo)
    out = []
    small = ['plain', 'selfT', 'const', 'ancT', 'sibT']
    combos = [(k, 'plain') for k in ALL_KINDS] + [('plain', k) for k in ALL_KINDS if k != 'plain']
    combos += [c_ for c_ in itertools.product(ALL_KINDS, repeat=2) if c_ not in combos]
    combos += list(itertools.product(small, repeat=3))
    for kinds in combos:
        w, members, net, before, kind, val = _scenario(P, kinds)
        drivers = [x for x in members if w.kind[x] in DRIVER_KINDS]
        out.append(dict(kinds=kinds, world=w, members=members, net=net, before=before, kind=kind, val=val, drivers=drivers))
    repo._c08_scen = out
    return out


# ---------------------------------------------------------------------------------------------------------------
# R-C08-seed
def rule_seed(repo):
    r = RuleResult('R-C08-seed', "writer seeds and the per-member driver test equal the legal drivers: written object "
                                 "(propagatable) and its signal ancestors (unpropagatable), top-level InPort, placeholder "
                                 "OutPort, Const, child of a propagatable ancestor, overlapping propagatable sibling slice")
    P = _resolve_parts(repo)
    m = P.m
    cap = _Capped(r, cap=5)
    # (a) prologue on one abstract design that contains every kind of object once
    w = _World()
    S = AObj('s', tags=['Component'], absent=())
    child = AObj('s.child', tags=['Component'], absent=())
    ph = AObj('s.ph', tags=['Component', 'Placeholder'], absent=())
    mem = {}
    allm = []
    for hname, host in (('top', S), ('child', child), ('placeholder', ph)):
        for cls in ('InPort', 'OutPort', 'Wire'):
            o = w.sig(f"{cls}@{hname}", host, cls)
            o.methods['get_host_component'] = lambda host=host: host
            mem[(cls, hname)] = o
            allm.append(o)
    for c_ in (S, child, ph):
        c_.methods.update({'is_signal': lambda: False, 'is_component': lambda: True, 'get_parent_object': lambda: None})
    # ports that sit in an interface of their host: the host component is not their parent object
    ifc_members = []
    for hname, host, cls in (('top', S, 'InPort'), ('placeholder', ph, 'OutPort')):
        ifc = AObj(f"ifc@{hname}", tags=['Interface'], absent=(),
                   methods={'is_signal': lambda: False, 'is_component': lambda: False, 'is_interface': lambda: True,
                            'get_parent_object': lambda host=host: host, 'get_host_component': lambda host=host: host})
        o = w.sig(f"{cls}@ifc@{hname}", ifc, cls)
        o.methods['get_host_component'] = lambda host=host: host
        mem[(cls, 'ifc@' + hname)] = o
        ifc_members.append(o)
    nets = [ASet(allm[0:2]), ASet(allm[2:5]), ASet(allm[5:9]), ASet(ifc_members)]      # nets of 2, 3, 4 and 2 members
    sig0 = w.sig('s.st', S)
    fld1 = w.sig('s.st.a', sig0)
    fld2 = w.sig('s.st.a.b', fld1)
    w0 = w.sig('s.w', S)
    sx = w.sig('s.x', S)
    sl = w.sig('s.x[0:4]', sx)
    writes = {AObj('blk1'): ASet([fld2]), AObj('blk2'): ASet([w0]), AObj('blk3'): ASet([sl])}
    S.attrs['_dsl'] = AObj('s._dsl', attrs=dict(all_signals=ASet(), all_adjacency=DDict(), all_upblk_writes=writes,
                                                all_upblk_reads={}, adjacency=DDict(), upblk_writes={}))
    ff_args = []
    S.methods['_floodfill_nets'] = lambda *a: ff_args.append(a) or list(nets)
    it = Interp({P.S: S}, classes=_CLASSES, max_steps=20000)
    kind, val = it.run(P.prologue)
    r.evaluations += 1
    if kind == 'raise' and val.what == 'AttributeError' and ('s._dsl has no' in val.detail or 's has no' in val.detail):
        raise AnalysisError(f"{RESOLVE}: the seeding part reads {val.detail}, which the abstract model does not provide")
    if kind != 'fall':
        r.bad(m, RESOLVE, 'prologue (seeding of writer marks)', f"the seeding part {kind}s: {val}", P.f.lineno)
    else:
        got = it.env.get(P.WP)
        if not isinstance(got, dict):
            raise AnalysisError(f"{RESOLVE}: {P.WP} is not a dictionary after the prologue")
        exp = {fld2: (True, "an object written by an update block is a propagatable writer"),
               fld1: (False, "the parent signal of a written field is an unpropagatable writer (its other fields are not driven)"),
               sig0: (False, "every signal ancestor of a written field, up to the top-level signal, is an unpropagatable writer"),
               w0: (True, "a signal written by an update block is a propagatable writer"),
               sl: (True, "a slice written by an update block is a propagatable writer"),
               sx: (False, "the signal whose slice is written is an unpropagatable writer"),
               mem[('InPort', 'top')]: (True, "an InPort of the top-level component is driven from outside: propagatable writer"),
               mem[('OutPort', 'placeholder')]: (True, "an OutPort of a Placeholder is driven by the black box: propagatable writer"),
               mem[('InPort', 'ifc@top')]: (True, "an InPort in an interface of the top-level component is driven from outside: "
                                                  "propagatable writer"),
               mem[('OutPort', 'ifc@placeholder')]: (True, "an OutPort in an interface of a Placeholder is driven by the black "
                                                           "box: propagatable writer")}
        for o in list(exp) + [x for x in got if x not in exp]:
            want = exp.get(o, (None, "this object is not a legal driver (only top-level InPorts, placeholder OutPorts and "
                                     "objects written by update blocks, with their signal ancestors, are seeds)"))
            have = got.get(o) if isinstance(o, AObj) and o in got else None
            cons = f"seed mark of {o!r}"
            if have is want[0]:
                r.ok(m, RESOLVE, cons + f" = {want[0]}")
            else:
                show = {True: 'propagatable writer', False: 'unpropagatable writer', None: 'no writer'}
                r.bad(m, RESOLVE, cons, f"{o!r} is seeded as {show.get(have, have)}, the property's driver list says "
                      f"{show[want[0]]}: {want[1]}", P.f.lineno)
        d = S.attrs['_dsl'].attrs
        ok = len(ff_args) == 1 and len(ff_args[0]) == 2 and ff_args[0][0] is d['all_signals'] and ff_args[0][1] is d['all_adjacency']
        (r.ok if ok else r.bad)(m, RESOLVE, "nets = _floodfill_nets(all_signals, all_adjacency)",
                                *([] if ok else ["the nets must be flood-filled once, over all signals of the design and the "
                                                 "whole-design adjacency map (not a single component's)", P.f.lineno]))
        hl = it.env.get(P.HEADLESS)
        ok = isinstance(hl, list) and len(hl) == len(nets) and all(any(x is n for x in hl) for n in nets) and \
            it.env.get(P.HEADED) == []
        (r.ok if ok else r.bad)(m, RESOLVE, f"{P.HEADLESS} = all flood-filled nets; {P.HEADED} = []",
                                *([] if ok else ["the resolution does not start from all nets returned by the flood fill", P.f.lineno]))
    # (b) per-member driver test: a two-member net (member, unmarked signal) in both iteration orders
    for sc in _scenarios(repo):
        ks = sc['kinds']
        if len(ks) != 2 or 'plain' not in ks:
            continue
        k = ks[0] if ks[1] == 'plain' else ks[1]
        if ks == ('plain', 'plain'):
            k = 'plain'
        r.evaluations += 1
        x = sc['members'][ks.index(k)]
        cons = f"net[{', '.join(ks)}]: is `{k}` a driver?"
        if k in DRIVER_KINDS:
            ok = _result_is(sc['kind'], sc['val'], [(x, sc['net'])])
            if ok:
                r.ok(m, RESOLVE, cons + " yes")
            else:
                cap.bad(m, RESOLVE, cons, f"{DRIVER_KINDS[k]}: the member must be named the writer of its net, but the "
                        f"resolution {_fmt_result(sc['kind'], sc['val'])}", P.W.lineno, sig=('drv', k))
        else:
            ok = _result_is(sc['kind'], sc['val'], [(None, sc['net'])])
            if ok:
                r.ok(m, RESOLVE, cons + " no")
            else:
                cap.bad(m, RESOLVE, cons, f"{NON_DRIVER_KINDS[k]}: no member of this net is a legal driver, the net must be "
                        f"returned without a writer, but the resolution {_fmt_result(sc['kind'], sc['val'])}",
                        P.W.lineno, sig=('non', k))
    # (c) sibling enumeration used by the driver test
    cm = repo.mod(CONN)
    g = cm.get_func('Signal.get_sibling_slices')
    me = g.args.args[0].arg
    for sliced in (True, False):
        par = AObj('x', tags=['Signal'])
        a, b, c_ = AObj('x[0:4]'), AObj('x[2:6]'), AObj('x[6:8]')
        par.attrs['_dsl'] = AObj('x._dsl', attrs=dict(slices={(0, 4): a, (2, 6): b, (6, 8): c_}))
        a.attrs['_dsl'] = AObj('a._dsl', attrs=dict(slice=AObj('slice(0,4)') if sliced else None))
        a.methods['get_parent_object'] = lambda: par
        a.methods['is_sliced_signal'] = lambda sliced=sliced: sliced
        kind, val = Interp({me: a}, classes=_CLASSES).run(g.body)
        r.evaluations += 1
        want = [b, c_] if sliced else []
        ok = kind == 'return' and isinstance(val, list) and len(val) == len(want) and all(any(v is x for v in val) for x in want)
        cons = f"get_sibling_slices() of a {'slice' if sliced else 'non-slice'}"
        (r.ok if ok else r.bad)(cm, 'Signal.get_sibling_slices', cons,
                                *([] if ok else [f"must return {want!r} (all other slices of the same signal), got {kind} {val!r}: "
                                                 f"an overlapping driven sibling is not seen as the driver", g.lineno]))
    _uniform_or_error(r, 'the seeding part / resolution loop of _resolve_value_connections', P.prologue + P.tail)
    r.require_floor(35)
    return r


# ---------------------------------------------------------------------------------------------------------------
# R-C08-unique
def _flag_sites(P):
    """(FLAG name, MEMBER loop, list of flag := True assignment statements)"""
    heads = [c for c in P.head_apps if _nearest_loop(c) is P.NL]
    flag = None
    for c in heads:
        for g in guards_of(stmt_of(c), stop=P.NL):
            if g.node is not P.NL and isinstance(g.test, ast.Name) and g.polarity and g.kind in ('exit', 'if'):
                flag = g.test.id
    return flag


def rule_unique(repo):
    r = RuleResult('R-C08-unique', "a net gets exactly one writer: none -> (None, net); one driver -> (driver, net) once; "
                                   "two drivers -> MultiWriterError; each writer assignment is guarded by the has_writer check")
    P = _resolve_parts(repo)
    m = P.m
    cap = _Capped(r, cap=5)
    for sc in _scenarios(repo):
        ks = sc['kinds']
        r.evaluations += 1
        n = len(sc['drivers'])
        cons = f"net[{', '.join(ks)}]"
        if n == 0:
            ok = _result_is(sc['kind'], sc['val'], [(None, sc['net'])])
            want = "(None, net)"
            why = "no member is a legal driver: the net must be returned with writer None (NoWriterError is raised from that)"
        elif n == 1:
            ok = _result_is(sc['kind'], sc['val'], [(sc['drivers'][0], sc['net'])])
            want = f"({sc['drivers'][0]!r}, net) exactly once"
            why = f"exactly one member is a driver ({DRIVER_KINDS[sc['world'].kind[sc['drivers'][0]]]})"
        else:
            ok = sc['kind'] == 'raise' and sc['val'].what == 'MultiWriterError'
            want = "MultiWriterError"
            why = f"members {', '.join(repr(d) for d in sc['drivers'])} are each a driver: two writers on one net must be " \
                  f"rejected whatever the iteration order of the net"
        if ok:
            r.ok(m, RESOLVE, cons + ' -> ' + want)
        else:
            cap.bad(m, RESOLVE, cons, f"{why}; expected {want}, but the resolution {_fmt_result(sc['kind'], sc['val'])}",
                    P.W.lineno, sig=(n, sc['kind'], str(sc['val'])[:40] if sc['kind'] == 'raise' else
                                     tuple(sorted({sc['world'].kind[d] for d in sc['drivers']}))))
    # structural: the writer assignments
    FLAG = _flag_sites(P)
    head_in_nl = [c for c in P.head_apps if _nearest_loop(c) is P.NL and parent(stmt_of(c)) is P.NL]
    if len(P.head_apps) == 1 and len(head_in_nl) == 1 and FLAG:
        c = head_in_nl[0]
        ok = len(c.args[0].elts) == 2 and norm(c.args[0].elts[1]) == P.NET
        (r.ok if ok else r.bad)(m, RESOLVE, f"{P.HEADED}.append({norm(c.args[0])}) once per net, after `if not {FLAG}: ... continue`",
                                *([] if ok else ["the resolved entry is not (writer, net)", c.lineno]))
    else:
        c = P.head_apps[0]
        r.bad(m, RESOLVE, f"{P.HEADED}.append(...)", "a resolved net must be appended exactly once per net, at the level of "
              "the net loop and only when a writer was found (it is appended per member / unconditionally / in several "
              "places)", c.lineno)
    if FLAG:
        sets = []
        for s in ast.walk(P.NL):
            if isinstance(s, ast.Assign):
                for t in s.targets:
                    if isinstance(t, ast.Name) and t.id == FLAG:
                        sets.append((s, s.value, None))
                    elif isinstance(t, ast.Tuple) and isinstance(s.value, ast.Tuple) and len(t.elts) == len(s.value.elts):
                        for te, ve in zip(t.elts, s.value.elts):
                            if isinstance(te, ast.Name) and te.id == FLAG:
                                sets.append((s, ve, (t, s.value)))
        resets = [x for x in sets if isinstance(x[1], ast.Constant) and x[1].value is False]
        trues = [x for x in sets if isinstance(x[1], ast.Constant) and x[1].value is True]
        mls = [s for s in P.NL.body if isinstance(s, ast.For) and norm(s.iter) == P.NET and
               any(any(y is x[0] for y in ast.walk(s)) for x in trues)]
        ok = len(resets) == 1 and parent(resets[0][0]) is P.NL and len(mls) == 1 and \
            _index(P.NL.body, resets[0][0]) < _index(P.NL.body, mls[0])
        (r.ok if ok else r.bad)(m, RESOLVE, f"{FLAG} = False once per net, before the member loop",
                                *([] if ok else [f"{FLAG} is not reset exactly once per net before the members are examined: a "
                                                 f"second driver of the same net is not seen / a writer leaks into the next net",
                                                 (resets[0][0].lineno if resets else P.NL.lineno)]))
        if len(mls) == 1:
            ML = mls[0]
            MEM = norm(ML.target)
            esc = [n for n in ast.walk(ML) if isinstance(n, (ast.Break, ast.Continue, ast.Return)) and _nearest_loop(n) in (ML, P.f)]
            (r.ok if not esc else r.bad)(m, RESOLVE, f"every member of the net is examined (no break/continue in `for {MEM} in {P.NET}`)",
                                         *([] if not esc else ["the member loop is left early: a second driver later in the "
                                                               "iteration order is never seen (result depends on set order)", esc[0].lineno]))
            for st, _, tup in trues:
                cons = norm(st)
                why = None
                if not any(x is ML for x in _ancestors(st)):
                    why = "the writer is assigned outside the member loop"
                blk = _block_of(st) or []
                i = _index(blk, st) if blk else 0
                guard = None
                for prev in reversed(blk[:i]):
                    if FLAG in _assigned(prev):
                        break
                    if isinstance(prev, ast.Assert):
                        t = prev.test
                        if isinstance(t, ast.UnaryOp) and isinstance(t.op, ast.Not) and norm(t.operand) == FLAG:
                            guard = ('assert', prev)
                            break
                    if isinstance(prev, ast.If) and norm(prev.test) == FLAG and always_exits(prev.body) and \
                            any(isinstance(x, ast.Raise) and 'MultiWriterError' in norm(x.exc) for x in ast.walk(prev)):
                        guard = ('raise', prev)
                        break
                if why is None and guard is None:
                    why = f"no `assert not {FLAG}` immediately dominates this writer assignment: a second driver silently " \
                          f"replaces the first (which one wins depends on set iteration order)"
                if why is None and guard[0] == 'assert':
                    tr = [a for a in _ancestors(st) if isinstance(a, ast.Try) and any(x is st for b in a.body for x in ast.walk(b))]
                    conv = False
                    for t_ in tr:
                        for h in t_.handlers:
                            names = [] if h.type is None else [norm(x) for x in (h.type.elts if isinstance(h.type, ast.Tuple) else [h.type])]
                            if (h.type is None or 'AssertionError' in names or 'Exception' in names) and always_exits(h.body) and \
                                    any(isinstance(x, ast.Raise) and x.exc is not None and 'MultiWriterError' in norm(x.exc)
                                        for x in ast.walk(h)):
                                conv = True
                    if not conv:
                        why = "the assertion is not inside a try whose AssertionError handler raises MultiWriterError: the " \
                              "user sees a bare AssertionError (or nothing) instead of the two-writer report"
                if why is None and tup is not None:
                    others = [norm(ve) for te, ve in zip(tup[0].elts, tup[1].elts) if not (isinstance(te, ast.Name) and te.id == FLAG)]
                    if others and others[0] != MEM:
                        why = f"the writer recorded is `{others[0]}`, not the net member `{MEM}`: the writer of a net must be " \
                              f"one of its members"
                if why:
                    r.bad(m, RESOLVE, cons, why, st.lineno)
                else:
                    r.ok(m, RESOLVE, cons + f" guarded by `{norm(guard[1])[:40]}`")
            if len(trues) < 3:
                r.bad(m, RESOLVE, f"{FLAG} := True sites", f"only {len(trues)} writer assignments found (self/Const, ancestor, "
                      f"sibling slice expected)", P.NL.lineno)
    else:
        r.bad(m, RESOLVE, f"{P.HEADED}.append(...)", "the resolved-net entry is not controlled by a has-writer flag: nets "
              "without any driver are reported as resolved", P.head_apps[0].lineno)
    # return value
    rv = P.ret.value
    names = names_in(rv)
    comps = [n for n in ast.walk(rv) if isinstance(n, (ast.ListComp, ast.GeneratorExp))]
    ok = P.HEADED in names and P.HEADLESS in names and len(comps) == 1 and isinstance(comps[0].elt, ast.Tuple) and \
        len(comps[0].elt.elts) == 2 and isinstance(comps[0].elt.elts[0], ast.Constant) and comps[0].elt.elts[0].value is None
    (r.ok if ok else r.bad)(m, RESOLVE, norm(P.ret), *([] if ok else [
        f"the function must return the resolved nets plus (None, net) for every net still without a writer "
        f"(`{P.HEADED} + [(None, x) for x in {P.HEADLESS}]`): otherwise undriven nets vanish and NoWriterError is never raised",
        P.ret.lineno]))
    _uniform_or_error(r, 'the resolution loop of _resolve_value_connections', P.tail)
    r.require_floor(300)
    return r


def _ancestors(n):
    out = []
    p = parent(n)
    while p is not None:
        out.append(p)
        p = parent(p)
    return out


# ---------------------------------------------------------------------------------------------------------------
# R-C08-propagate
def rule_propagate(repo):
    r = RuleResult('R-C08-propagate', "after a net is resolved its readers become propagatable writers and their unmarked "
                                      "signal ancestors unpropagatable; unresolved nets are carried to the next round; the "
                                      "two-net chain resolves in both orders")
    P = _resolve_parts(repo)
    m = P.m
    cap = _Capped(r, cap=5)
    show = {True: 'propagatable', False: 'unpropagatable', None: 'unmarked'}

    def check_marks(cons, w, members, before, writer, line):
        exp = _expected_marks(w, members, before, writer)
        lenient = {writer} | set(w.anc.get(writer, []))
        for o in set(exp) | set(w.wp):
            if o in lenient:
                continue
            have, want = w.wp.get(o), exp.get(o)
            if have is not want:
                role = 'reader' if o in members else 'ancestor of a reader'
                cap.bad(m, RESOLVE, cons, f"after the net is resolved {o!r} ({role}) is {show.get(have, have)}, expected "
                        f"{show[want]}: " + ("a reader carries the writer's value, so a net hanging off it (or off one of its "
                                             "fields/slices) must find it as a propagatable writer"
                                             if role == 'reader' else
                                             "a signal one of whose fields/slices is driven is an unpropagatable writer unless "
                                             "it already has a mark (an existing mark must not be overwritten)"),
                        line, sig=(role, have, want))
                return False
        return True

    for sc in _scenarios(repo):
        if len(sc['drivers']) != 1 or sc['kind'] != 'return':
            continue
        r.evaluations += 1
        cons = f"net[{', '.join(sc['kinds'])}] marks after resolution"
        if check_marks(cons, sc['world'], sc['members'], sc['before'], sc['drivers'][0], P.W.lineno):
            r.ok(m, RESOLVE, cons)
    # a signal and a slice of it as readers of the same net, both iteration orders
    for order in ((0, 1), (1, 0)):
        w = _World()
        wr = w.member('selfT', 'w')
        X = w.sig('x', w.comp)
        Xs = w.sig('x[0:8]', X)
        w.kind[X] = w.kind[Xs] = 'plain'
        rd = [X, Xs]
        members = [wr] + [rd[i] for i in order]
        before = dict(w.wp)
        net = ASet(members)
        kind, val, _ = _run_tail(P, w, [net])
        r.evaluations += 1
        cons = f"net[selfT, {', '.join(repr(x) for x in members[1:])}] marks after resolution"
        if not _result_is(kind, val, [(wr, net)]):
            cap.bad(m, RESOLVE, cons, f"expected ({wr!r}, net), the resolution {_fmt_result(kind, val)}", P.W.lineno)
        elif w.wp.get(X) is not True or w.wp.get(Xs) is not True:
            cap.bad(m, RESOLVE, cons, f"x is {show.get(w.wp.get(X))} and x[0:8] is {show.get(w.wp.get(Xs))} after resolution; "
                    f"both are readers and must be propagatable in either iteration order (an ancestor's existing mark must "
                    f"not be overwritten by `unpropagatable`)", P.W.lineno, sig='nested')
        else:
            r.ok(m, RESOLVE, cons)
    # two independent nets, and the chain of the docstring, in both processing orders
    def two(label, build, line):
        for flip in (False, True):
            w = _World()
            nets, expect = build(w)
            order = list(reversed(nets)) if flip else list(nets)
            kind, val, _ = _run_tail(P, w, order)
            r.evaluations += 1
            cons = f"{label}, processed {'second net first' if flip else 'in order'}"
            if _result_is(kind, val, expect):
                r.ok(m, RESOLVE, cons)
            else:
                cap.bad(m, RESOLVE, cons, f"expected {[(w_, list(n.items)) for w_, n in expect]!r}, but the resolution "
                        f"{_fmt_result(kind, val)}", line, sig=label)

    def indep(w):
        a = ASet([w.member('plain', 'a0'), w.member('plain', 'a1')])
        d = w.member('selfT', 'b0')
        b = ASet([d, w.member('plain', 'b1')])
        return [a, b], [(None, a), (d, b)]

    def indep2(w):
        d1, d2 = w.member('const', 'a0'), w.member('ancT', 'b0')
        a = ASet([d1, w.member('plain', 'a1')])
        b = ASet([w.member('field', 'b1'), d2])
        return [a, b], [(d1, a), (d2, b)]

    def chain(w):
        d = w.member('selfT', 'w')
        y = w.sig('y', w.comp)
        w.kind[y] = 'plain'
        ya = w.sig('y.a', y)
        w.kind[ya] = 'plain'
        z = w.member('plain', 'z')
        n1, n2 = ASet([d, y]), ASet([z, ya])
        return [n1, n2], [(d, n1), (ya, n2)]

    def chain_slice(w):
        d = w.member('const', 'c')
        x = w.sig('x', w.comp)
        w.kind[x] = 'plain'
        xs = w.sig('x[0:4]', x)
        w.kind[xs] = 'plain'
        z = w.member('plain', 'z')
        n1, n2 = ASet([x, d]), ASet([xs, z])
        return [n1, n2], [(d, n1), (xs, n2)]

    two("two independent nets (undriven, driven)", indep, P.NL.lineno)
    two("two independent driven nets", indep2, P.NL.lineno)
    two("chain: net1 = {w (written), y}; net2 = {y.a, z} (writer of net2 known only after net1)", chain, P.W.lineno)
    two("chain: net1 = {Const, x}; net2 = {x[0:4], z}", chain_slice, P.W.lineno)
    _uniform_or_error(r, 'the resolution loop of _resolve_value_connections', P.tail)
    r.require_floor(95)
    return r



# ---------------------------------------------------------------------------------------------------------------
# R-C08-residence
def _nets_loop(func, what):
    """the `for writer, signals in <...get_all_value_nets()>` loop of func"""
    hits = []
    for s in ast.walk(func):
        if isinstance(s, ast.For) and isinstance(s.target, ast.Tuple) and len(s.target.elts) == 2 and \
                all(isinstance(e, ast.Name) for e in s.target.elts):
            it = s.iter
            if isinstance(it, ast.Name):
                it = reaching_value(it.id, s)
            if it is not None and isinstance(it, ast.Call) and norm(it.func).endswith('get_all_value_nets'):
                hits.append(s)
    if len(hits) != 1:
        raise AnalysisError(f"{what}: expected exactly one loop over get_all_value_nets(), found {len(hits)}")
    return hits[0]


def _gen_parts(repo):
    m = repo.mod(GENDAG)
    q = 'GenDAGPass._generate_net_blocks'
    f = m.get_func(q)
    lp = _nets_loop(f, q)
    # the reader list: the iterable of the comprehension that renders `<reader> @= x`
    def is_tmpl(e):
        if isinstance(e, ast.JoinedStr):
            return any(isinstance(v, ast.Constant) and '@=' in str(v.value) for v in e.values)
        if isinstance(e, ast.Call) and isinstance(e.func, ast.Attribute) and e.func.attr == 'format' and \
                isinstance(e.func.value, ast.Constant) and '@=' in str(e.func.value.value):
            return True
        if isinstance(e, ast.BinOp) and isinstance(e.op, (ast.Add, ast.Mod)):
            return any(isinstance(x, ast.Constant) and isinstance(x.value, str) and '@=' in x.value for x in ast.walk(e))
        return False
    comps = [c for c in ast.walk(lp) if isinstance(c, (ast.ListComp, ast.GeneratorExp)) and is_tmpl(c.elt)]
    if len(comps) != 1 or len(comps[0].generators) != 1:
        raise AnalysisError(f"{q}: cannot find the comprehension that renders `<reader> @= x`")
    g = comps[0].generators[0]
    filt = list(g.ifs)
    src = g.iter
    use = stmt_of(comps[0])
    hops = 0
    while isinstance(src, ast.Name) and hops < 3:
        rv = reaching_value(src.id, use)
        if isinstance(rv, (ast.ListComp, ast.GeneratorExp)) and len(rv.generators) == 1:
            filt += rv.generators[0].ifs
            src = rv.generators[0].iter
            hops += 1
        else:
            break
    if isinstance(src, ast.Subscript) and isinstance(src.value, ast.Name):
        filt.append(src)           # e.g. rstrs[1:] -- part of the selected readers is not rendered
        src = src.value
        rv = reaching_value(src.id, use)
        if isinstance(rv, (ast.ListComp, ast.GeneratorExp)) and len(rv.generators) == 1:
            filt += rv.generators[0].ifs
            src = rv.generators[0].iter
    if not isinstance(src, ast.Name):
        raise AnalysisError(f"{q}: the rendered readers do not come from a named list")
    top_use = use
    while parent(top_use) is not lp:
        top_use = parent(top_use)
        if top_use is None:
            raise AnalysisError(f"{q}: reader template outside the net loop")
    return m, q, f, lp, src.id, filt, top_use


def _slice_for(lp, names, upto):
    """top-level statements of the loop body before `upto` that define `names` (transitively), plus the
    `if ...: continue` skips before `upto`"""
    body = lp.body
    end = _index(body, upto)
    need = set(names)
    skips = []
    for st in body[:end]:
        if isinstance(st, ast.If) and not st.orelse and always_exits(st.body) and \
                any(isinstance(x, ast.Continue) for x in walk_no_nested(st)):
            skips.append(st)
            need |= names_in(st.test) - {'len', 'isinstance'}
    chosen = []
    for st in reversed(body[:end]):
        if st in skips:
            chosen.append(st)
            continue
        defs = _assigned(st) | {c.func.value.id for c in walk_no_nested(st) if isinstance(c, ast.Call) and
                                isinstance(c.func, ast.Attribute) and isinstance(c.func.value, ast.Name)
                                and c.func.attr in ('append', 'extend', 'insert', 'add', 'remove', 'pop')}
        if defs & need:
            chosen.append(st)
            need |= {n.id for n in walk_no_nested(st) if isinstance(n, ast.Name) and isinstance(n.ctx, ast.Load)}
    return list(reversed(chosen)), skips


def _net_family():
    """abstract nets: a writer (top-level signal / non-top-level signal / Const) and 1..3 other members, each a
    top-level signal or not; every position of the writer in the iteration order"""
    for n_other in (1, 2, 3):
        for flags in itertools.product(('T', 's', 'f'), repeat=n_other):        # top-level / slice / struct field
            for wkind in ('top', 'slice', 'field', 'const'):
                for wpos in range(n_other + 1):
                    yield flags, wkind, wpos


def rule_residence(repo):
    r = RuleResult('R-C08-residence', "lock_in_simulation and _generate_net_blocks agree: every net member is the writer, is "
                                      "assigned by the net block, or shares its value object with one that is")
    gm, gq, gf, glp, READERS, filt, use = _gen_parts(repo)
    pm = repo.mod(PREP)
    pq = 'PrepareSimPass.create_lock_unlock_simulation.lock_in_simulation'
    pf = pm.get_func(pq)
    plp = _nets_loop(pf, pq)
    cap = _Capped(r, cap=5)
    if filt:
        r.bad(gm, gq, f"`<reader> @= x` for x in {READERS} restricted by `{norm(filt[0])}`", "the rendered assignments are filtered: some "
              "readers chosen for the net block are not assigned the writer's value", filt[0].lineno)
    for lp, mod_, q_ in ((glp, gm, gq), (plp, pm, pq)):
        brk = [n for n in ast.walk(lp) if isinstance(n, (ast.Break, ast.Return)) and _nearest_loop(n) is lp]
        (r.ok if not brk else r.bad)(mod_, q_, "the net loop visits every net (no break/return at its level)",
                                     *([] if not brk else ["the loop over the nets is left early: the remaining nets get no "
                                                           "net block / no shared value object", brk[0].lineno]))
    gw, gs = [e.id for e in glp.target.elts]
    pw, ps = [e.id for e in plp.target.elts]
    gstmts, gskips = _slice_for(glp, {READERS}, use)
    # names the lock loop needs from outside: the signal -> storage mapping
    free = set()
    for st in plp.body:
        for n in ast.walk(st):
            if isinstance(n, ast.Subscript) and isinstance(n.value, ast.Name):
                free.add(n.value.id)
    assigned_in = set().union(*[_assigned(st) for st in plp.body]) | {pw, ps}
    maps = sorted(x for x in free if x not in assigned_in)
    if len(maps) != 1:
        raise AnalysisError(f"{pq}: cannot identify the signal -> value-object mapping (candidates {maps})")
    MAP = maps[0]
    # layout of the mapping entries, from the first pass that creates them (one site per holder kind)
    layouts = {}
    for st in ast.walk(pf):
        if isinstance(st, ast.Assign) and len(st.targets) == 1 and isinstance(st.targets[0], ast.Subscript) and \
                norm(st.targets[0].value) == MAP and isinstance(st.value, ast.Tuple) and not any(x is plp for x in _ancestors(st)):
            blk = _block_of(st) or []
            kind = None
            for other in blk:
                if isinstance(other, ast.Assign) and isinstance(other.targets[0], ast.Subscript) and other is not st \
                        and norm(other.targets[0].value) != MAP:
                    kind = ('list', norm(other.targets[0].value), norm(other.targets[0].slice), norm(other.value))
                if isinstance(other, ast.Expr) and isinstance(other.value, ast.Call) and norm(other.value.func) == 'setattr' \
                        and len(other.value.args) == 3:
                    kind = ('attr',) + tuple(norm(x) for x in other.value.args)
            if kind is None:
                raise AnalysisError(f"{pq}: cannot tell how the value object recorded by `{norm(st)[:60]}` is installed")
            lay = []
            for e in st.value.elts:
                t = norm(e)
                if isinstance(e, ast.Constant) and isinstance(e.value, bool):
                    lay.append(('flag', e.value))
                elif t == kind[1]:
                    lay.append(('holder', None))
                elif t == kind[2]:
                    lay.append(('index', None))
                elif t == kind[3]:
                    lay.append(('value', None))
                else:
                    raise AnalysisError(f"{pq}: unknown component `{t}` in the mapping entry")
            if kind[0] in layouts and layouts[kind[0]] != lay:
                raise AnalysisError(f"{pq}: two different layouts for {kind[0]} holders")
            layouts[kind[0]] = lay
    if set(layouts) != {'list', 'attr'}:
        raise AnalysisError(f"{pq}: expected the first pass to record signals held in lists and in attributes (found {sorted(layouts)})")
    for k, lay in layouts.items():
        ok = sorted(x[0] for x in lay) == ['flag', 'holder', 'index', 'value'] and lay[-1][0] == 'value'
        (r.ok if ok else r.bad)(pm, pq, f"{MAP}[signal] = ({', '.join(x[0] for x in lay)}) for signals held in a {k}",
                                *([] if ok else [f"the mapping entry must name holder, index, an is-list flag and, last, the value "
                                                 f"object (other passes read {MAP}[x][-1])", pf.lineno]))

    classes = dict(_CLASSES)
    for flags, wkind, wpos in _net_family():
        def mem(name, kind):
            top = kind == 'T'
            o = AObj(name, tags=['Signal', 'Connectable', 'Wire'], absent=())
            o.methods.update({'is_top_level_signal': lambda top=top: top, 'is_signal': lambda: True,
                              'is_sliced_signal': lambda kind=kind: kind == 's'})
            o.top = top
            return o
        others = [mem(f"{t}{i}", t) for i, t in enumerate(flags)]
        if wkind == 'const':
            cval = AObj('const-value')
            W_ = AObj('Const', tags=['Const', 'Connectable'], attrs={'_dsl': AObj('Const._dsl', attrs=dict(const=cval))},
                      methods={'is_signal': lambda: False}, absent=_CONST_LACKS)
            W_.top = False
        else:
            W_ = mem({'top': 'W', 'slice': 'ws', 'field': 'wf'}[wkind], {'top': 'T', 'slice': 's', 'field': 'f'}[wkind])
        members = others[:wpos] + [W_] + others[wpos:]
        label = f"writer {'Const' if wkind == 'const' else ('top-level' if wkind == 'top' else wkind)} at position " \
                f"{wpos}, members [{', '.join(repr(x) for x in members)}] (T/W = top-level signal, s = slice, f = struct field)"
        # --- lock_in_simulation: which storage object does every top-level member end up with
        for is_list in (False, True):
            storage, holder, mapping = {}, {}, {}
            for x in members:
                if x.top:
                    storage[x] = AObj(f"val({x!r})")
                    if is_list:
                        h = [storage[x]]
                        holder[x] = (h, 0)
                    else:
                        h = AObj(f"holder({x!r})", settable=True, attrs={'f': storage[x]})
                        holder[x] = (h, 'f')
                    mapping[x] = tuple({'holder': h, 'index': holder[x][1], 'value': storage[x], 'flag': fl}[role]
                                       for role, fl in layouts['list' if is_list else 'attr'])
            # a net made only of slices comes first: the loop must carry on after it
            sw, sr = mem('w_', 's'), mem('r_', 's')
            nets = [(sw, ASet([sw, sr])), (W_, ASet(members))]
            it = Interp({MAP: mapping}, classes=classes)
            it.env['nets__'] = nets
            outcome = ('fall', None)
            for wr, sg in nets:
                it.env[pw], it.env[ps] = wr, sg
                outcome = it.run_loop_body(plp.body)
                if outcome[0] in ('raise', 'break', 'return'):
                    break
            r.evaluations += 1
            if outcome[0] in ('raise', 'break', 'return'):
                cap.bad(pm, pq, f"lock_in_simulation on a net with {label}",
                        f"the loop over the nets {'raises ' + str(outcome[1]) if outcome[0] == 'raise' else outcome[0] + 's'} "
                        f"on this net (storage in a {'list' if is_list else 'component attribute'})", plp.lineno,
                        sig=('lock', str(outcome[1])[:30]))
                break

            def cur(x):
                h, k = holder[x]
                return h[k] if isinstance(h, list) else h.attrs.get(k)
            final = {x: cur(x) for x in members if x.top}
            if wkind == 'const':
                final[W_] = W_.attrs['_dsl'].attrs['const']
            stale = [x for x in final if x.top and mapping[x][-1] is not final[x]]
            if stale:
                cap.bad(pm, pq, f"lock_in_simulation on a net with {label}",
                        f"{MAP}[{stale[0]!r}] does not record the value object that was installed for it", plp.lineno, sig='stale')
                break
        else:
            # --- _generate_net_blocks: which members does the block assign
            it = Interp({gw: W_, gs: ASet(members)}, classes=classes)
            outcome = ('fall', None)
            for st in gstmts:
                if any(st is k for k in gskips):
                    # a skip: only its condition matters (the body registers an empty block and continues)
                    outcome = it.run_loop_body([ast.If(test=st.test, body=[ast.Continue()], orelse=[])])
                else:
                    outcome = it.run_loop_body([st])
                if outcome[0] != 'fall':
                    break
            r.evaluations += 1
            cons = f"net with {label}"
            if outcome[0] == 'raise':
                cap.bad(gm, gq, cons, f"choosing the readers raises {outcome[1]} on this net", glp.lineno, sig=('gen', str(outcome[1])[:30]))
                continue
            if outcome[0] in ('break', 'return'):
                cap.bad(gm, gq, cons, "the net loop is left at this net", glp.lineno, sig='genbreak')
                continue
            readers = [] if outcome[0] == 'continue' else it.env.get(READERS)
            if not isinstance(readers, list):
                raise AnalysisError(f"{gq}: {READERS} is not a list after the reader selection")
            if outcome[0] == 'continue' and isinstance(it.env.get(READERS), list) and it.env.get(READERS):
                cap.bad(gm, gq, cons, f"the net is skipped although {len(it.env[READERS])} readers were selected", glp.lineno, sig='skip')
                continue

            def carries(x):
                if x is W_ or any(y is x for y in readers):
                    return True
                if x in final:
                    if W_ in final and final[W_] is final[x]:
                        return True
                    return any(y in final and final[y] is final[x] for y in readers)
                return False
            lost = [x for x in members if not carries(x)]
            foreign = [y for y in readers if not any(y is x for x in members)]
            if lost:
                how = "is a top-level signal that keeps its own value object and is not assigned by the net block" if lost[0].top \
                    else "is a slice/field and is not assigned by the net block"
                cap.bad(gm, gq, cons, f"member {lost[0]!r} {how} (block assigns {readers!r}; shared value objects: "
                        f"{sorted({repr(v) for v in final.values()})}): after the net block runs it does not carry the writer's value",
                        glp.lineno, sig=('lost', lost[0].top, wkind))
            elif foreign:
                cap.bad(gm, gq, cons, f"the block assigns {foreign[0]!r}, which is not a member of the net", glp.lineno, sig='foreign')
            else:
                r.ok(gm, gq, cons + f": block assigns {readers!r}")
    _uniform_or_error(r, 'the net loop of lock_in_simulation / the reader selection of _generate_net_blocks',
                      list(plp.body) + [st.test if any(st is k for k in gskips) else st for st in gstmts])
    r.require_floor(130)
    return r



# ---------------------------------------------------------------------------------------------------------------
# R-C08-nodes: slices / struct fields of the same bits are one graph node
def _signal_world():
    """abstract model of Signal.__init__: what a freshly constructed signal object looks like"""
    count = [0]
    types = {}

    def mk_bits(n):
        if n not in types:
            types[n] = AObj(f"Bits{n}", tags=['type', 'BitsType'], attrs=dict(nbits=n))
        return types[n]
    CLS = AObj('Wire', tags=['type'])

    def make(Type):
        count[0] += 1
        o = AObj(f"sig#{count[0]}", tags=['Signal', 'Connectable', 'Wire'])
        o.attrs['_dsl'] = AObj(f"sig#{count[0]}._dsl", settable=True,
                               attrs=dict(Type=Type, type_instance=None, slice=None, slices={}, top_level_signal=o,
                                          needs_double_buffer=False))
        o.attrs['__dict__'] = {}
        o.attrs['__class__'] = CLS
        return o
    CLS.methods['__call__'] = make

    def named(o, name):
        d = o.attrs['_dsl'].attrs
        d.update(my_name=name, full_name='s.' + name, elaborate_top=TOP, _my_name=name, _my_indices=None)
        return o
    TOP = AObj('top', tags=['Component'])
    return mk_bits, make, named


def rule_nodes(repo):
    r = RuleResult('R-C08-nodes', "a slice / struct field of a signal is one canonical graph node: the same bits give the same "
                                  "object in every statement (also through nested slicing), registered at and parented by the "
                                  "un-sliced signal")
    m = repo.mod(CONN)
    cap = _Capped(r, cap=5)
    classes = dict(_CLASSES)
    classes['slice'] = lambda v: isinstance(v, AObj) and 'slice' in v.tags
    classes['Bits'] = lambda v: isinstance(v, AObj) and 'BitsVal' in v.tags
    # ---- __getitem__
    q = 'Signal.__getitem__'
    f = m.get_func(q)
    me, ix = [a.arg for a in f.args.args]
    N = 6

    def world():
        mk_bits, make, named = _signal_world()
        funcs = dict(mk_bits=mk_bits, issubclass=lambda t, c: isinstance(t, AObj) and 'BitsType' in t.tags,
                     slice=lambda a, b: AObj(f"slice({a},{b})", tags=['slice'], attrs=dict(start=a, stop=b, step=None)))
        S0 = named(make(mk_bits(N)), 'x')

        def getitem(sig, idx):
            it = Interp({me: sig, ix: idx, 'Bits': AObj('Bits', tags=['type'])}, classes=classes, funcs=funcs)
            return it.run(f.body)
        return S0, getitem, funcs['slice']

    def describe(o):
        if not isinstance(o, AObj) or '_dsl' not in o.attrs:
            return repr(o)
        sl = o.attrs['_dsl'].attrs.get('slice')
        return f"{o!r}[{sl.attrs['start']}:{sl.attrs['stop']}]" if isinstance(sl, AObj) else repr(o)

    for a in range(N):
        for b in range(a + 1, N + 1):
            S0, getitem, mkslice = world()
            k1, R = getitem(S0, mkslice(a, b))
            r.evaluations += 1
            cons = f"x[{a}:{b}]"
            if k1 != 'return' or not isinstance(R, AObj) or '_dsl' not in R.attrs:
                cap.bad(m, q, cons, f"slicing a {N}-bit signal with [{a}:{b}] {k1}s {R}", f.lineno, sig=('ret', k1))
                continue
            d = R.attrs['_dsl'].attrs
            sl = d.get('slice')
            sd = S0.attrs['_dsl'].attrs
            prob = None
            if not (isinstance(sl, AObj) and sl.attrs.get('start') == a and sl.attrs.get('stop') == b):
                prob = f"the slice object records bits {describe(R)} instead of [{a}:{b}]: overlap tests (driven sibling " \
                       f"slices) look at the wrong bits"
            elif d.get('parent_obj') is not S0:
                prob = f"its parent object is {d.get('parent_obj')!r}, not the sliced signal: the ancestor walk of the writer " \
                       f"resolution does not reach the signal"
            elif d.get('top_level_signal') is not S0:
                prob = "it does not inherit the signal's top-level signal (it would be treated as a top-level signal with a " \
                       "value object of its own)"
            elif not (isinstance(d.get('Type'), AObj) and d['Type'].attrs.get('nbits') == b - a):
                prob = f"its type is {d.get('Type')!r}, expected Bits{b - a}"
            elif sum(1 for v in sd['slices'].values() if v is R) != 1:
                prob = "it is not registered exactly once in the signal's `_dsl.slices` (get_sibling_slices cannot find it)"
            else:
                k2, R2 = getitem(S0, mkslice(a, b))
                if k2 != 'return' or R2 is not R:
                    prob = "a second access to the same bits yields a different object: the two statements talk about two " \
                           "unrelated graph nodes"
                elif b == a + 1:
                    k3, R3 = getitem(S0, a)
                    if k3 != 'return' or R3 is not R:
                        prob = f"x[{a}] and x[{a}:{b}] are different objects"
            if prob is None:
                for c in range(b - a):
                    for e in range(c + 1, b - a + 1):
                        r.evaluations += 1
                        k4, R4 = getitem(R, mkslice(c, e))
                        k5, R5 = getitem(S0, mkslice(a + c, a + e))
                        if k4 == 'return' and k5 == 'return' and R4 is R5 and isinstance(R4, AObj) and '_dsl' in R4.attrs and \
                                (R4.attrs['_dsl'].attrs.get('parent_obj') is not S0 or R4.attrs['_dsl'].attrs.get('top_level_signal') is not S0):
                            prob = f"x[{a}:{b}][{c}:{e}] is parented by {R4.attrs['_dsl'].attrs.get('parent_obj')!r} instead of the " \
                                   f"un-sliced signal: sibling-overlap and ancestor checks of the writer resolution miss it"
                            break
                        if k4 == 'return' and k5 == 'return' and R4 is R5 and isinstance(R4, AObj) and '_dsl' in R4.attrs:
                            sl4 = R4.attrs['_dsl'].attrs.get('slice')
                            if not (isinstance(sl4, AObj) and sl4.attrs.get('start') == a + c and sl4.attrs.get('stop') == a + e):
                                prob = f"x[{a}:{b}][{c}:{e}] records bits {describe(R4)} instead of the absolute range " \
                                       f"[{a + c}:{a + e}]: overlap tests against sibling slices use the wrong bits"
                                break
                        if k4 != 'return' or k5 != 'return' or R4 is not R5:
                            prob = f"x[{a}:{b}][{c}:{e}] gives {describe(R4) if k4 == 'return' else str(R4)}, x[{a + c}:{a + e}] gives " \
                                   f"{describe(R5) if k5 == 'return' else str(R5)}: nested slicing must land on the node of the " \
                                   f"absolute bit range"
                            break
                    if prob:
                        break
            if prob:
                cap.bad(m, q, cons, prob, f.lineno, sig=prob[:40])
            else:
                r.ok(m, q, cons + " canonical (direct, repeated, nested)")
    S0, getitem, mkslice = world()
    _, A = getitem(S0, mkslice(0, 2))
    _, B = getitem(S0, mkslice(1, 3))
    ok = isinstance(A, AObj) and isinstance(B, AObj) and A is not B and len(S0.attrs['_dsl'].attrs['slices']) == 2
    (r.ok if ok else r.bad)(m, q, "x[0:2] and x[1:3] are different nodes, both registered",
                            *([] if ok else ["different bit ranges must be different objects, both kept in `_dsl.slices`", f.lineno]))
    # ---- __getattr__ (struct fields)
    q = 'Signal.__getattr__'
    g = m.get_func(q)
    me, nm = [a.arg for a in g.args.args]
    mk_bits, make, named = _signal_world()
    T2 = AObj('Inner', tags=['type', 'StructType'])
    T1 = AObj('Outer', tags=['type', 'StructType'])

    def bval(n):
        return AObj(f"Bits{n}(0)", tags=['BitsVal'], attrs={'__class__': mk_bits(n)})
    T2.methods['__call__'] = lambda: AObj('Inner()', tags=['StructVal'], attrs={'__class__': T2, 'd': bval(3)})
    T1.methods['__call__'] = lambda: AObj('Outer()', tags=['StructVal'],
                                          attrs={'__class__': T1, 'a': bval(8), 'b': [bval(4), bval(4)], 'c': T2.methods['__call__']()})
    funcs = dict(issubclass=lambda t, c: isinstance(t, AObj) and 'BitsType' in t.tags,
                 is_bitstruct_class=lambda t: isinstance(t, AObj) and 'StructType' in t.tags, mk_bits=mk_bits)
    S1 = named(make(T1), 'st')

    def getfield(sig, name):
        it = Interp({me: sig, nm: name, 'Bits': AObj('Bits', tags=['type'])}, classes=classes, funcs=funcs)
        return it.run(g.body)

    def check_field(parent_sig, name, want_type, top):
        k1, R = getfield(parent_sig, name)
        r.evaluations += 1
        cons = f"{parent_sig.attrs['_dsl'].attrs.get('full_name')}.{name}"
        if k1 != 'return':
            cap.bad(m, q, cons, f"field access {k1}s {R}", g.lineno, sig=('fret', str(R)[:30]))
            return None
        elems = R if isinstance(R, list) else [R]
        prob = None
        for x in elems:
            if not (isinstance(x, AObj) and '_dsl' in x.attrs):
                prob = f"the field access returns {x!r}, not a signal"
                break
            d = x.attrs['_dsl'].attrs
            if d.get('parent_obj') is not parent_sig:
                prob = f"the field signal's parent object is {d.get('parent_obj')!r}, not the struct signal: a write to the " \
                       f"field does not mark the struct as (unpropagatable) writer and a driven struct does not drive the field"
            elif d.get('top_level_signal') is not top:
                prob = "the field signal does not inherit the struct signal's top-level signal"
            elif d.get('Type') is not want_type:
                prob = f"the field signal has type {d.get('Type')!r}, expected {want_type!r}"
        if prob is None and len({id(x) for x in elems}) != len(elems):
            prob = "list elements of the field share one signal object"
        if prob is None:
            k2, R2 = getfield(parent_sig, name)
            same = k2 == 'return' and (R2 is R or (isinstance(R, list) and isinstance(R2, list) and len(R) == len(R2)
                                                   and all(x is y for x, y in zip(R, R2))))
            if not same:
                prob = "a second access to the same field yields different signal objects: connections and update-block " \
                       "writes of the same field refer to unrelated graph nodes"
        if prob:
            cap.bad(m, q, cons, prob, g.lineno, sig=prob[:40])
            return None
        r.ok(m, q, cons + " canonical field node")
        return R
    check_field(S1, 'a', mk_bits(8), S1)
    lst = check_field(S1, 'b', mk_bits(4), S1)
    if lst is not None and not (isinstance(lst, list) and len(lst) == 2):
        r.bad(m, q, 'st.b', f"a list field of two elements yields {lst!r}", g.lineno)
    inner = check_field(S1, 'c', T2, S1)
    if isinstance(inner, AObj):
        inner.attrs['_dsl'].attrs.setdefault('full_name', 's.st.c')
        check_field(inner, 'd', mk_bits(3), S1)
    r.require_floor(23)
    return r


# ---------------------------------------------------------------------------------------------------------------
# R-C08-netblock: the source generated for a net names the writer and the selected readers
def rule_netblock(repo):
    r = RuleResult('R-C08-netblock', "for every placement of writer and readers in the component hierarchy the generated net "
                                     "block reads the writer and assigns exactly the selected readers, through names that "
                                     "resolve from the common ancestor it is compiled against")
    gm, gq, gf, glp, READERS, filt, use = _gen_parts(repo)
    cap = _Capped(r, cap=5)
    srcs = [t.id for t in getattr(use, 'targets', []) if isinstance(t, ast.Name)]
    if len(srcs) != 1:
        raise AnalysisError(f"{gq}: the statement rendering the block source is not `<name> = ...`")
    SRC = srcs[0]
    body = glp.body
    comp_st = None
    for _hop in range(4):
        for st in body[_index(body, use) + 1:]:
            calls = [c for c in walk_no_nested(st) if isinstance(c, ast.Call) and isinstance(c.func, ast.Name) and
                     any(isinstance(a, ast.Name) and a.id == SRC for a in c.args)]
            if calls:
                comp_st, CALL = st, calls[0]
                break
        if comp_st is not None:
            break
        # the rendered lines are kept in a helper local first: follow it into the statement that assembles the source text
        nxt = [st for st in body[_index(body, use) + 1:] if isinstance(st, ast.Assign) and len(st.targets) == 1 and
               isinstance(st.targets[0], ast.Name) and any(isinstance(n, ast.Name) and n.id == SRC for n in ast.walk(st.value))]
        if not nxt:
            break
        use, SRC = nxt[0], nxt[0].targets[0].id
    if comp_st is None:
        raise AnalysisError(f"{gq}: the rendered source {SRC} is never compiled")
    FN = CALL.func.id
    gpos = [k for k, a_ in enumerate(CALL.args) if isinstance(a_, ast.Name) and a_.id != SRC]
    # the namespace a net block is compiled in (it binds `s` to the block's own common ancestor) belongs to that one net: it is
    # built inside the loop iteration, not fetched from a container that outlives it (all blocks sharing it would act on the
    # component bound last)
    shared = []
    for a_ in CALL.args:
        if not isinstance(a_, ast.Name) or a_.id == SRC:
            continue
        defs = [st for st in ast.walk(glp) if isinstance(st, ast.Assign) and any(isinstance(t, ast.Name) and t.id == a_.id for t in st.targets)]
        assigned_in_loop = {t.id for d in ast.walk(glp) if isinstance(d, ast.Assign) for t in d.targets if isinstance(t, ast.Name)}
        for st in defs:
            v = st.value
            if isinstance(v, (ast.Dict, ast.DictComp)) or (isinstance(v, ast.Call) and norm(v.func) == 'dict'):
                continue                                    # built for this net
            base = None
            if isinstance(v, ast.Subscript):
                base = v.value
            elif isinstance(v, ast.Call) and isinstance(v.func, ast.Attribute) and v.func.attr in ('setdefault', 'get'):
                base = v.func.value
            while isinstance(base, (ast.Subscript, ast.Attribute)):
                base = base.value
            if isinstance(base, ast.Name) and base.id not in assigned_in_loop:
                shared.append((a_.id, st))
    if shared:
        nm, st = shared[0]
        r.bad(gm, gq, f"namespace `{nm}` of the generated net block", f"`{norm(st)[:90]}`: the namespace the block is compiled in is taken from a container that "
              f"outlives the loop iteration, so several net blocks share it and `s` is overwritten for all of them: every block of that group then "
              f"reads and writes the signals of the component bound LAST (the other instances' nets are never driven)", st.lineno)
        r.require_floor(1)
        return r
    stmts = body[:_index(body, comp_st) + 1]
    skips = [st for st in stmts if isinstance(st, ast.If) and not st.orelse and always_exits(st.body) and
             any(isinstance(x, ast.Continue) for x in walk_no_nested(st))]
    gw, gs = [e.id for e in glp.target.elts]
    params = [a.arg for a in gf.args.args]
    if len(params) != 2:
        raise AnalysisError(f"{gq}: expected (self, top)")
    TOPN = params[1]

    # component tree  s / s.a / s.a.b / s.c
    def tree():
        comps = {}

        def comp(name, par, level):
            c = AObj(name, tags=['Component'], absent=())
            c.methods.update({'get_parent_object': lambda: par, 'get_component_level': lambda: level,
                              'is_component': lambda: True, 'is_signal': lambda: False})
            comps[name] = c
            return c
        top = comp('s', None, 0)
        a = comp('s.a', top, 1)
        comp('s.a.b', a, 2)
        comp('s.c', top, 1)
        return comps
    hosts = ['s', 's.a', 's.a.b', 's.c']
    opts = [(h, t) for h in hosts for t in (True, False)]
    bits8 = AObj('Bits8', tags=['type'], attrs={'__name__': 'Bits8'})
    funcs_base = dict(min=lambda *a: min(*a) if len(a) > 1 else min(a[0]), max=lambda *a: max(*a) if len(a) > 1 else max(a[0]),
                      type=lambda v: int if isinstance(v, int) else v.attrs['__class__'],
                      get_bitstruct_inst_all_classes=lambda v: ASet([v.attrs['__class__']]))
    n_ok = 0
    for wopt in opts + [('s', 'const'), ('s.a', 'const')]:
        for o1, o2 in itertools.combinations_with_replacement(opts, 2):
            comps = tree()

            def sig(name, host, top_):
                o = AObj(name, tags=['Signal', 'Connectable', 'Wire'], absent=())
                o.methods.update({'is_top_level_signal': lambda: top_, 'is_signal': lambda: True,
                                  'is_sliced_signal': lambda: name.endswith(']'),       # x[0:4] is a slice, x.f a struct field
                                  'get_host_component': lambda: comps[host]})
                return o
            if wopt[1] == 'const':
                cv = AObj('Bits8(5)', tags=['BitsVal'], attrs={'__class__': bits8})
                W_ = AObj('Bits8(5)', tags=['Const', 'Connectable'], absent=_CONST_LACKS,
                          attrs={'_dsl': AObj('Const._dsl', attrs=dict(const=cv))},
                          methods={'is_signal': lambda: False, 'get_host_component': lambda: comps[wopt[0]]})
            else:
                W_ = sig(f"{wopt[0]}.w" + ('' if wopt[1] else '[0:4]'), wopt[0], wopt[1])
            others = [sig(f"{h}.r{k}" + ('' if t else '.f'), h, t) for k, (h, t) in enumerate((o1, o2))]
            members = [others[0], W_, others[1]]
            captured = []
            funcs = dict(funcs_base)
            funcs[FN] = lambda *a: captured.append(a) or AObj('blk')
            it = Interp({gw: W_, gs: ASet(members), TOPN: comps['s']}, classes=dict(_CLASSES), funcs=funcs, max_steps=20000)
            outcome = ('fall', None)
            for st in stmts:
                if any(st is k for k in skips):
                    outcome = it.run_loop_body([ast.If(test=st.test, body=[ast.Continue()], orelse=[])])
                else:
                    outcome = it.run_loop_body([st])
                if outcome[0] != 'fall':
                    break
            r.evaluations += 1
            cons = f"writer {W_!r}{'' if wopt[1] == 'const' else (' (top-level)' if wopt[1] else ' (slice)')}, other members " \
                   f"{others[0]!r}{'' if o1[1] else ' (field)'}, {others[1]!r}{'' if o2[1] else ' (field)'}"
            if outcome[0] == 'continue':
                n_ok += 1
                continue            # nothing to assign: all members share the writer's value object (R-C08-residence)
            if outcome[0] != 'fall' or len(captured) != 1:
                cap.bad(gm, gq, cons, f"generating the block {outcome[0]}s {outcome[1] if outcome[1] else ''} "
                        f"({len(captured)} blocks compiled)", glp.lineno, sig=('out', outcome[0], str(outcome[1])[:40]))
                continue
            args = captured[0]
            src = [x for x in args if isinstance(x, str)]
            glb = [x for x in args if isinstance(x, dict)]
            readers = it.env.get(READERS)
            if len(src) != 1 or len(glb) != 1 or not isinstance(readers, list):
                raise AnalysisError(f"{gq}: cannot identify source / globals handed to {FN}")
            src, glb = src[0], glb[0]
            lca = glb.get('s')
            try:
                tree_ = ast.parse(src)
            except SyntaxError as e:
                cap.bad(gm, gq, cons, f"the generated source does not parse ({e.msg}): {src.strip()[:120]!r}", glp.lineno, sig='syntax')
                continue
            fdefs = [n for n in tree_.body if isinstance(n, ast.FunctionDef)]
            if len(fdefs) != 1 or len(tree_.body) != 1:
                cap.bad(gm, gq, cons, "the generated source is not a single function", glp.lineno, sig='shape')
                continue
            b = fdefs[0].body
            prob = None
            if not isinstance(lca, AObj) or 'Component' not in lca.tags:
                prob = f"the block is compiled with s = {lca!r}, not a component"
            elif not (b and isinstance(b[0], ast.Assign) and len(b[0].targets) == 1 and isinstance(b[0].targets[0], ast.Name)):
                prob = "the generated block does not start by reading the writer into a local"
            else:
                tmp = b[0].targets[0].id

                def want(o):
                    full = repr(o)
                    L = repr(lca)
                    if not (full == L or full.startswith(L + '.')):
                        return None
                    return 's' + full[len(L):]
                wexp = repr(W_) if wopt[1] == 'const' else want(W_)
                if wexp is None:
                    prob = f"the block is compiled against {lca!r}, which is not an ancestor of the writer {W_!r}"
                elif ast.dump(ast.parse(wexp, mode='eval').body) != ast.dump(b[0].value):
                    prob = f"the block reads `{norm(b[0].value)}` (s = {lca!r}); the writer of the net is {W_!r}, i.e. `{wexp}`"
                else:
                    got = []
                    for st in b[1:]:
                        if isinstance(st, ast.AugAssign) and isinstance(st.op, ast.MatMult) and isinstance(st.value, ast.Name) \
                                and st.value.id == tmp:
                            got.append(ast.dump(_strip_ctx(st.target)))
                        elif not isinstance(st, ast.Pass):
                            prob = f"unexpected statement `{norm(st)}` in the generated block"
                    exp = []
                    for x in readers:
                        wx = want(x)
                        if wx is None:
                            prob = prob or f"the block is compiled against {lca!r}, which is not an ancestor of reader {x!r}: " \
                                           f"`s.<path>` cannot name it"
                        else:
                            exp.append(ast.dump(_strip_ctx(ast.parse(wx, mode='eval').body)))
                    allowed = set()
                    for x in members:
                        wx = want(x) if x is not W_ else None
                        if wx is not None:
                            allowed.add(ast.dump(_strip_ctx(ast.parse(wx, mode='eval').body)))
                    if prob is None and not (set(exp) <= set(got) <= allowed):
                        prob = f"the block assigns {[norm(st.target) for st in b[1:] if isinstance(st, ast.AugAssign)]} with " \
                               f"s = {lca!r}; the selected readers are {readers!r}"
            if prob:
                cap.bad(gm, gq, cons, prob + ": some member of the net does not receive the writer's value (or another signal is "
                        "overwritten)", glp.lineno, sig=prob[:30])
            else:
                n_ok += 1
                r.ok(gm, gq, cons + f": x = writer; {len(readers)} readers assigned relative to {lca!r}")
    _uniform_or_error(r, 'the block generation of _generate_net_blocks', [st.test if any(st is k for k in skips) else st for st in stmts])
    r.require_floor(270)
    return r


def _strip_ctx(node):
    for n in ast.walk(node):
        if hasattr(n, 'ctx'):
            n.ctx = ast.Load()
    return node


def rule_pending_flag(repo):
    """A connection added after elaboration must invalidate the cached nets of the object that owns the whole-design
    adjacency map (the elaborated top): get_all_value_nets() re-resolves only when the top's pending flag is set."""
    r = RuleResult('R-C08-pending', "adding a connection after elaboration marks the cached nets of the elaborated top as stale")
    m = repo.mod(COMP)
    for q in ('Component.add_connection',):
        f = m.get_func(q)
        adds = [c for c in ast.walk(f) if isinstance(c, ast.Call) and isinstance(c.func, ast.Attribute) and c.func.attr in ('add', 'update')
                and 'all_adjacency' in norm(c.func.value)]
        flags = [a for a in ast.walk(f) if isinstance(a, ast.Assign) and any(norm(t).endswith('._dsl._has_pending_value_connections') for t in a.targets)]
        if not adds:
            raise AnalysisError(f"{q}: no insertion into all_adjacency found")
        owners = {norm(c.func.value).split('._dsl.')[0] for c in adds}
        cons = f"{q}: all_adjacency of {sorted(owners)} modified; pending flag set on {[norm(a.targets[0]).split('._dsl.')[0] for a in flags]}"
        if not flags or any(norm(a.value) != 'True' for a in flags):
            r.bad(m, q, cons, "the cached value nets are not invalidated: the new connection never becomes part of a net", f.lineno)
        elif {norm(a.targets[0]).split('._dsl.')[0] for a in flags} != owners:
            r.bad(m, q, cons, "the pending flag is set on another object than the one whose whole-design adjacency was changed: a connection "
                  "hosted by a child component is never resolved into a net (the top keeps serving its cached nets)", flags[0].lineno)
        elif any(g.kind == 'if' for a in flags for g in guards_of(a) if not any(g.kind == 'if' and any(x is g.node for x in ast.walk(f)) and
                                                                                 any(c_ is not None for c_ in [1]) and False for _ in [0])) and \
                not all({norm(g.test) for g in guards_of(a) if g.kind == 'if'} <= {norm(g.test) for c in adds for g in guards_of(c) if g.kind == 'if'} for a in flags):
            r.bad(m, q, cons, "the pending flag is set under a narrower condition than the insertion of the edge", flags[0].lineno)
        else:
            r.ok(m, q, cons)
    # the consumer tests the flag of the object it is called on (the top)
    g = m.get_func('Component.get_all_value_nets')
    fl = m.get_func('Component._flush_pending_value_connections')
    me = fl.args.args[0].arg
    ifs = [s_ for s_ in fl.body if isinstance(s_, ast.If) and norm(s_.test) == f'{me}._dsl._has_pending_value_connections']
    ok = len(ifs) == 1 and any(norm(x) == f'{me}._dsl.all_value_nets = {me}._resolve_value_connections()' for x in ifs[0].body) and \
        any(isinstance(c, ast.Call) and norm(c.func).endswith('._flush_pending_value_connections') for c in ast.walk(g)) and \
        any(isinstance(x, ast.Return) and norm(x.value).endswith('._dsl.all_value_nets') for x in ast.walk(g))
    (r.ok if ok else r.bad)(m, 'Component.get_all_value_nets', 'nets are re-resolved when the pending flag is set',
                            *([] if ok else ["cached nets are never refreshed", g.lineno]))
    r.require_floor(2)
    return r


def rule_ancestors(repo):
    """When a net gets its writer, each reader becomes a (propagatable) writer and EVERY signal ancestor of the reader becomes
    partially driven (unpropagatable): nets whose writer is an intermediate ancestor rely on it."""
    r = RuleResult('R-C08-ancestors', "a driven field / slice marks every enclosing signal (not only the outermost) as partially driven")
    m = repo.mod(L3)
    f = m.get_func('ComponentLevel3._resolve_value_connections')
    # `if x not in writer_prop: writer_prop[x] = False` or `writer_prop.setdefault(x, False)`: mark unless already marked
    marks = [(a, norm(a.targets[0].slice)) for a in ast.walk(f) if isinstance(a, ast.Assign) and isinstance(a.targets[0], ast.Subscript)
             and norm(a.targets[0].value) == 'writer_prop' and norm(a.value) == 'False']
    marks += [(c, norm(c.args[0])) for c in ast.walk(f) if isinstance(c, ast.Call) and norm(c.func) == 'writer_prop.setdefault' and len(c.args) == 2
              and norm(c.args[1]) == 'False']
    n_ok = 0
    for a, obj in marks:
        wl = enclosing(a, (ast.While,))
        if wl is None:
            continue
        step = [s_ for s_ in wl.body if isinstance(s_, ast.Assign) and norm(s_) == f"{obj} = {obj}.get_parent_object()"]
        ok = norm(wl.test) == f"{obj}.is_signal()" and step and not any(isinstance(x, (ast.Break, ast.Continue)) for x in ast.walk(wl))
        if ok:
            pre = [s_ for s_ in preceding_stmts(wl) if isinstance(s_, ast.Assign) and norm(s_.targets[0]) == obj]
            ok = bool(pre) and norm(pre[-1].value).endswith('.get_parent_object()')
        if ok:
            n_ok += 1
            r.ok(m, 'ComponentLevel3._resolve_value_connections', f"while {obj}.is_signal(): mark {obj} unless marked; {obj} = parent")
    if n_ok < 2:
        r.bad(m, 'ComponentLevel3._resolve_value_connections', 'ancestor walk marking partially driven signals',
              "not every signal ancestor of a written / newly driven object is marked as partially driven (expected in the writer seeding and "
              "in the propagation step): a net whose writer is an intermediate ancestor (out //= x.a with x.a[0:4], x.a[4:8] driven) "
              "ends without a writer -> spurious NoWriterError", f.lineno)
    r.require_floor(1)
    return r


def rule_collectors(repo):
    """slice signals (stored under tuple keys) must be reachable for the collectors used by add/delete component, otherwise stale
    slices stay in the connection graph (shared with C14: R-C14-collect)"""
    from rules.c14 import rule_collect
    res = rule_collect(repo)
    # only the collector side matters for nets (the naming side of that rule is C14's business, incl. its known finding D18)
    res.findings = [f for f in res.findings if '_collect_all' in f.func]
    res.instances = [i for i in res.instances if i['verdict'] != 'VIOLATED' or '_collect_all' in i['function']]
    return res


def rule_ifc_symmetric(repo):
    """connect(ifc_a, ifc_b) and connect(ifc_b, ifc_a) must build the same connections: every custom connect() that exists is
    tried (until one accepts) before falling back to by-name connection, whichever side it is on."""
    import itertools
    r = RuleResult('R-C08-ifc-symmetric', "interface connection tries the custom connect() of BOTH sides before connecting by name, so the "
                                          "result does not depend on which side is written first")
    m = repo.mod(L3)
    f = m.get_func('ComponentLevel3._connect_interfaces')
    a1, a2 = f.args.args[1].arg, f.args.args[2].arg
    tail = [s_ for s_ in f.body if isinstance(s_, ast.If)]
    if len(tail) != 1:
        raise AnalysisError("_connect_interfaces: decision structure not found")
    bad = None
    for has1, has2, c1, c2 in itertools.product((False, True), repeat=4):
        log = []

        def hook(ev, call, log=log, has1=has1, has2=has2, c1=c1, c2=c2):
            fn = norm(call.func)
            if fn == 'hasattr' and len(call.args) == 2 and norm(call.args[1]).strip('"\'') == 'connect':
                return has1 if norm(call.args[0]) == a1 else has2
            if fn == f'{a1}.connect':
                log.append('connect1')
                return c1
            if fn == f'{a2}.connect':
                log.append('connect2')
                return c2
            if fn == 'connect_by_name':
                log.append('byname')
                return None
            return NotImplemented
        Evaluator({a1: 'O1', a2: 'O2', 's': 'S'}, arith=False, call_hook=hook)._block(tail)
        r.evaluations += 1
        accepted = (has1 and c1) or (has2 and c2)
        want_byname = not accepted
        tried1, tried2 = 'connect1' in log, 'connect2' in log
        ok = ('byname' in log) == want_byname and log.count('byname') <= 1 and \
            (not has1 or tried1 or (has2 and c2 and tried2)) and (not has2 or tried2 or (has1 and c1 and tried1)) and \
            (tried1 <= has1) and (tried2 <= has2)
        if not ok and bad is None:
            bad = (has1, has2, c1, c2, list(log))
    cons = "decision over {o1 has connect, o2 has connect, o1.connect accepts, o2.connect accepts}"
    if bad:
        r.bad(m, 'ComponentLevel3._connect_interfaces', cons,
              f"with o1.connect {'present' if bad[0] else 'absent'}{' (declines)' if bad[0] and not bad[2] else ''} and o2.connect "
              f"{'present' if bad[1] else 'absent'}{' (accepts)' if bad[1] and bad[3] else ''} the actions are {bad[4]}: a custom connect() "
              f"that would handle the pair is skipped, so connect(a, b) and connect(b, a) yield different nets", tail[0].lineno)
    else:
        r.ok(m, 'ComponentLevel3._connect_interfaces', cons)
    r.require_floor(1)
    return r


def _walk_lists(func, args, log, depth=0):
    """concrete evaluation of a small recursive list walker (recursive_connect) on nested Python lists of leaf tokens;
    every call of a method `<obj>._connect(a, b, ...)` is logged.  Statement / expression forms outside the walker idiom
    raise AnalysisError."""
    if depth > 8:
        raise AnalysisError(f"{func.name}: recursion does not terminate on a finite nested list")
    env = dict(zip([a.arg for a in func.args.args], args))

    def ev(e):
        if isinstance(e, ast.Name):
            if e.id in env:
                return env[e.id]
            if e.id == 'list':
                return list
            raise AnalysisError(f"{func.name}: free name {e.id} in the list walker")
        if isinstance(e, ast.Constant):
            return e.value
        if isinstance(e, ast.Subscript):
            return ev(e.value)[ev(e.slice)]
        if isinstance(e, ast.UnaryOp) and isinstance(e.op, ast.Not):
            return not ev(e.operand)
        if isinstance(e, ast.BoolOp):
            vals = [ev(v) for v in e.values]
            return all(vals) if isinstance(e.op, ast.And) else any(vals)
        if isinstance(e, ast.Compare) and len(e.ops) == 1:
            a, b = ev(e.left), ev(e.comparators[0])
            op = e.ops[0]
            if isinstance(op, ast.Is):
                return a is b
            if isinstance(op, ast.IsNot):
                return a is not b
            if isinstance(op, ast.Eq):
                return a == b
            if isinstance(op, ast.NotEq):
                return a != b
            if isinstance(op, (ast.Lt, ast.LtE, ast.Gt, ast.GtE)) and isinstance(a, int) and isinstance(b, int):
                return {ast.Lt: a < b, ast.LtE: a <= b, ast.Gt: a > b, ast.GtE: a >= b}[type(op)]
        if isinstance(e, ast.BinOp) and isinstance(e.op, (ast.Add, ast.Sub)):
            a, b = ev(e.left), ev(e.right)
            if isinstance(a, int) and isinstance(b, int):
                return a + b if isinstance(e.op, ast.Add) else a - b
        if isinstance(e, ast.UnaryOp) and isinstance(e.op, ast.USub) and isinstance(ev(e.operand), int):
            return -ev(e.operand)
        if isinstance(e, ast.Call):
            fn = norm(e.func)
            if fn == 'isinstance' and len(e.args) == 2:
                kinds = e.args[1].elts if isinstance(e.args[1], ast.Tuple) else [e.args[1]]
                return isinstance(ev(e.args[0]), list) and any(norm(k) == 'list' for k in kinds)
            if fn == 'type' and len(e.args) == 1:
                return list if isinstance(ev(e.args[0]), list) else object
            if fn == 'len' and len(e.args) == 1:
                return len(ev(e.args[0]))
            if fn == 'range':
                return list(range(*[ev(a) for a in e.args]))
            if fn == 'zip':
                return list(zip(*[ev(a) for a in e.args]))
            if fn == 'enumerate' and len(e.args) == 1:
                return list(enumerate(ev(e.args[0])))
            if fn == func.name:
                _walk_lists(func, [ev(a) for a in e.args], log, depth + 1)
                return None
            if isinstance(e.func, ast.Attribute) and e.func.attr == '_connect':
                log.append(tuple(ev(a) for a in e.args) + tuple((k.arg, ev(k.value)) for k in e.keywords))
                return None
        if isinstance(e, ast.Tuple):
            return tuple(ev(x) for x in e.elts)
        raise AnalysisError(f"{func.name}: expression outside the list-walker idiom: {norm(e)}")

    def bind(t, v):
        if isinstance(t, ast.Name):
            env[t.id] = v
        elif isinstance(t, ast.Tuple):
            for tt, vv in zip(t.elts, v):
                bind(tt, vv)
        else:
            raise AnalysisError(f"{func.name}: loop target outside the idiom")

    def block(stmts):
        for st in stmts:
            if isinstance(st, ast.If):
                block(st.body if ev(st.test) else st.orelse)
            elif isinstance(st, ast.For):
                for v in ev(st.iter):
                    bind(st.target, v)
                    block(st.body)
            elif isinstance(st, ast.Expr):
                if not isinstance(st.value, ast.Constant):
                    ev(st.value)
            elif isinstance(st, ast.Assign) and len(st.targets) == 1:
                bind(st.targets[0], ev(st.value))
            elif isinstance(st, (ast.Pass,)):
                pass
            elif isinstance(st, ast.Assert):
                if not ev(st.test):
                    raise AnalysisError(f"{func.name}: assertion `{norm(st.test)}` fails on equally shaped port lists")
            elif isinstance(st, ast.Return) and st.value is None:
                return
            else:
                raise AnalysisError(f"{func.name}: statement outside the list-walker idiom: {norm(st)[:80]}")
    block(func.body)


def rule_byname(repo):
    """By-name connection of two interfaces must reach every pair of corresponding ports, however deeply the ports are nested
    in lists: a pair that is skipped is a connection the user wrote and the design silently lacks."""
    r = RuleResult('R-C08-byname', "connect_by_name connects every pair of corresponding leaves of list-valued interface fields (any "
                                   "nesting depth) exactly once, and hands only leaves (never lists) to _connect")
    m = repo.mod(L3)
    f = m.get_func('ComponentLevel3._connect_interfaces.connect_by_name.recursive_connect')
    fq = 'ComponentLevel3._connect_interfaces.connect_by_name.recursive_connect'
    shapes = {
        'scalar': ('A', 'a'),
        '1-D list': (['A', 'B', 'C'], ['a', 'b', 'c']),
        '2-D list': ([['A', 'B'], ['C', 'D']], [['a', 'b'], ['c', 'd']]),
        '3-D list': ([[['A'], ['B']], [['C'], ['D']]], [[['a'], ['b']], [['c'], ['d']]]),
        '1-element list': (['A'], ['a']),
    }

    def leaves(x):
        return [x] if not isinstance(x, list) else [l for y in x for l in leaves(y)]
    for name, (this, other) in shapes.items():
        log = []
        _walk_lists(f, [this, other], log)
        r.evaluations += 1
        want = sorted(zip(leaves(other), leaves(this)))
        got_pairs = [c[:2] for c in log]
        lists = [c for c in got_pairs if any(isinstance(x, list) for x in c)]
        def unordered(pairs):
            return sorted(tuple(sorted(p)) for p in pairs)

        def internal_flag(c):
            kw = dict(k for k in c[2:] if isinstance(k, tuple))
            pos = [k for k in c[2:] if not isinstance(k, tuple)]
            return kw.get('internal', pos[0] if pos else None)
        ok = not lists and unordered(got_pairs) == unordered(want) and all(internal_flag(c) is True for c in log)
        cons = f"{name}: {len(want)} port pair(s)"
        if ok:
            r.ok(m, fq, cons)
        elif lists:
            r.bad(m, fq, cons, f"a whole list is handed to _connect ({lists[0][0]!r} <-> {lists[0][1]!r}), which ignores non-connectable operands "
                  f"of an internal connection: the ports inside are never connected", f.lineno)
        else:
            r.bad(m, fq, cons, f"connected pairs {got_pairs}, expected {want}", f.lineno)
    r.require_floor(5)
    return r


_NETS_PROBE = """
def lock(self, top):
  nets = top.get_all_value_nets()
  for writer, signals in nets:
    residence = writer
    signals.discard( residence )
    for x in signals:
      pass
"""


def rule_nets_readonly(repo):
    """get_all_value_nets() hands out the net sets cached at elaboration; every later consumer (another pass, the user, a second
    simulator on the same model) sees the same objects."""
    from sa.taint import mutations_through
    r = RuleResult('R-C08-nets-readonly', "no pass changes the resolved nets it obtains from get_all_value_nets(): the cached (writer, "
                                          "members) sets still describe every net after simulation / translation passes were applied")

    def src(e):
        return (isinstance(e, ast.Call) and isinstance(e.func, ast.Attribute) and e.func.attr in ('get_all_value_nets', 'get_all_method_nets')) or \
               (isinstance(e, ast.Attribute) and e.attr in ('all_value_nets', 'all_method_nets'))
    _, pout = mutations_through(ast.parse(_NETS_PROBE).body[0], source_pred=src)
    if len(pout) != 1:
        raise AnalysisError("R-C08-nets-readonly: embedded positive example not recognised")
    n_users = 0
    for rel in repo.py_files('pymtl3/passes'):
        m = repo.mod(rel)
        if 'get_all_value_nets' not in m.src and 'all_value_nets' not in m.src:
            continue
        for f in [n for n in ast.walk(m.tree) if isinstance(n, ast.FunctionDef)]:
            if not any(src(x) for x in ast.walk(f)):
                continue
            # only the outermost function that contains the use (nested defs are analysed with it)
            par = getattr(f, '_parent', None)
            while par is not None and not isinstance(par, ast.FunctionDef):
                par = getattr(par, '_parent', None)
            if par is not None and any(src(x) for x in ast.walk(par)):
                continue
            n_users += 1
            tainted, out = mutations_through(f, source_pred=src)
            fq = qualname(f)
            if out:
                for node, text in out:
                    r.bad(m, fq, text, "the set belongs to the model's cached nets (top._dsl.all_value_nets): after this pass every "
                          "reported net has changed (e.g. lost its writer), so a later get_all_value_nets(), a translation or a second "
                          "simulation pass works on corrupted nets", node.lineno)
            else:
                r.ok(m, fq, f"reads the nets through {sorted(tainted)[:6]} without changing them")
    r.require_floor(3)
    return r


def rule_net_ordering(repo):
    """in simulation every member of a net carries the writer's value: the net block must be ordered after the block that writes the
    net's writer -- also when the writer is nested (slice of a struct field) and the block writes an intermediate ancestor.
    Shared with C02 (R-C02-pairing)."""
    from rules.c02 import rule_pairing
    return rule_pairing(repo)


def rule_scc_watch(repo):
    """a net block inside a (false) combinational loop only delivers the writer's final value if the loop is re-evaluated until the
    net members -- slices included -- stop changing.  Shared with C11 (R-C11-watch)."""
    from rules.c11 import rule_watch
    return rule_watch(repo)


def rule_tick_settles(repo):
    """after sim_tick() the net members equal their (flopped) writer only if the combinational schedule, net blocks included,
    runs again after the flip in every tick builder.  Shared with C07 (R-tick-order)."""
    from rules.c07 import rule_tick_order
    return rule_tick_order(repo)


def rule_const_value_fits(repo):
    """a constant driver carries exactly the value the user wrote: one that does not fit the signal / slice is rejected, not masked.
    Shared with C05 (R-C05-const-fit)."""
    from rules.c05 import rule_const_fit
    return rule_const_fit(repo)


def rule_writer_via_helpers(repo):
    """the writer of a net is found among the signals update blocks write; a write made inside a (nested) @s.func helper must be
    credited to the calling block, otherwise a driven net is rejected with NoWriterError or resolved to the wrong writer.
    Shared with C02 (R-C02-funcfold)."""
    from rules.c02 import rule_funcfold
    return rule_funcfold(repo)


def rule_names_denote_storage(repo):
    """net blocks are generated as source text from the members' full names (`s.a.f[1][0] = s.b`): the name of a struct-field /
    list-element signal must denote exactly the storage that signal stands for (index order included), otherwise the generated
    assignment moves the value into a different element.  Shared with C14 (R-C14-name-storage)."""
    from rules.c14 import rule_name_storage
    return rule_name_storage(repo)


def rule_replace_keeps_nets(repo):
    """after replace_component the connections re-applied by the parent are exactly the outside connections of the removed
    subtree (constants tied inside it are not re-applied on top of the replacement).  Shared with C15 (R-C15-saved)."""
    from rules.c15 import rule_saved
    res = rule_saved(repo)
    # scheduling-constraint tables are not nets (C15's known finding D22 is C15's / C02's business)
    drop = lambda c: 'constraint tables' in c
    res.findings = [f for f in res.findings if not drop(f.construct)]
    res.instances = [i for i in res.instances if i['verdict'] != 'VIOLATED' or not drop(i['construct'])]
    return res


def rule_replace_registers_slices(repo):
    """after replace_component the slices / struct fields created while the saved connections are re-applied are registered in
    all_signals, otherwise the nets through them are never resolved.  Shared with C15 (R-C15-sites)."""
    from rules.c15 import rule_sites
    return rule_sites(repo)


def rule_index_names(repo):
    """which list element a block writes decides which net it drives: an index name is resolved like Python does (block locals,
    closure, module globals).  Shared with C02 (R-C02-index-scope)."""
    from rules.c02 import rule_index_scope
    return rule_index_scope(repo)


def rule_late_signals_registered(repo):
    """_floodfill_nets starts from all_signals: a port created after elaboration (add_value_port, replace_component) that is
    not registered there never gets a net, however it is connected.  Shared with C16 (R-C16-registry: every post-elaboration
    creation site registers the signal in the registry that the later passes enumerate)."""
    from rules.c16 import rule_registry
    return rule_registry(repo)


def rule_replace_filters(repo):
    """the filter that separates outside connections from the removed subtree's own ones excludes removed signals, method
    ports and constants.  Shared with C15 (R-C15-keys)."""
    from rules.c15 import rule_keys
    return rule_keys(repo)


def rule_scc_template(repo):
    """a net block inside a cyclic group is re-evaluated until every watched signal is stable: the generated loop must repeat
    while ANY watched signal changed -- decided by C11 (R-C11-template)"""
    from rules.c11 import rule_template
    return rule_template(repo)


def rule_net_blocks_scheduled(repo):
    """a net only carries its writer's value if its generated net block is in the final schedule: no scheduler (meta-block
    packing included) may drop or duplicate a block -- decided by C02 (R-kahn)"""
    from rules.c02 import rule_kahn
    return rule_kahn(repo)


def rule_drivers_detected_everywhere(repo):
    """a net's writer is found from the write sets of the update blocks: a signal assigned only in a for-else clause (or any other
    statement position) must be recorded as driven, or the net ends without a writer / with the wrong one -- decided by C02
    (R-C02-visitor)"""
    from rules.c02 import rule_visitor
    return rule_visitor(repo)


def rule_struct_values_not_shared(repo):
    """net members of a struct type each hold their own value object, nested structs included: a nested default built once and
    shared by all default-constructed structs makes a write to one net member show up in unrelated signals -- decided by C06
    (R-C06-init)"""
    from rules.c06 import rule_init
    return rule_init(repo)


def rule_nets_told_apart_in_the_dump(repo):
    """what the nets carried is observed through the VCD dump, one identifier per net: in a large design (more than 94*94 nets)
    the identifiers must stay distinct, or two unrelated nets are recorded under one name -- decided by C16 (R-C16-symbols)"""
    from rules.c16 import rule_symbols
    return rule_symbols(repo)


RULES = [rule_nets_told_apart_in_the_dump, rule_drivers_detected_everywhere, rule_struct_values_not_shared, rule_scc_template, rule_net_blocks_scheduled, rule_symmetric, rule_const, rule_nodes, rule_flood, rule_seed, rule_unique, rule_propagate, rule_residence, rule_netblock, rule_overlap,
         rule_pending_flag, rule_ancestors, rule_collectors, rule_ifc_symmetric, rule_net_ordering, rule_writer_via_helpers,
         rule_names_denote_storage, rule_replace_keeps_nets, rule_replace_filters, rule_byname, rule_nets_readonly, rule_scc_watch, rule_tick_settles, rule_const_value_fits, rule_replace_registers_slices, rule_index_names, rule_late_signals_registered]


# ---------------------------------------------------------------------------------------------------------------
# self-test of the checker
def _m(name, file, old, new, rule=None, count=1):
    return dict(name=name, file=file, old=old, new=new, rule=rule, count=count)


MUTANTS = [
    dict(name='gen-net-block-namespace-shared-per-class', rule='R-C08-netblock', edits=[
        dict(file=GENDAG, old="      _globals = {'s': wr_lca }\n", new="      _globals = net_globals.setdefault( type(wr_lca), {} )\n      _globals['s'] = wr_lca\n", count=1),
        dict(file=GENDAG, old="    for writer, signals in nets:\n", new="    net_globals = {}\n    for writer, signals in nets:\n", count='first')]),
    _m('gen-aliased-readers-chosen-by-not-sliced', GENDAG, "          if x.is_top_level_signal():\n", "          if not x.is_sliced_signal():\n", 'R-C08-residence', count='first'),
    _m('nets-residence-discarded-in-place', 'pymtl3/passes/sim/PrepareSimPass.py', "        for x in signals:\n          if x is not residence and x.is_top_level_signal():", "        signals.discard( residence )\n        for x in signals:\n          if x.is_top_level_signal():", 'R-C08-nets-readonly'),
    _m('byname-nested-lists-not-recursed', L3, "          for i in range(len(this_obj)):\n            # TODO add error message if other_obj is not a list\n            recursive_connect( this_obj[i], other_obj[i] )",
       "          for this_elem, other_elem in zip( this_obj, other_obj ):\n            s._connect( other_elem, this_elem, internal=True )", 'R-C08-byname'),
    _m('byname-first-element-only', L3, "          for i in range(len(this_obj)):\n            # TODO add error message if other_obj is not a list\n            recursive_connect( this_obj[i], other_obj[i] )",
       "          recursive_connect( this_obj[0], other_obj[0] )", 'R-C08-byname'),
    _m('byname-crossed-elements', L3, "            recursive_connect( this_obj[i], other_obj[i] )", "            recursive_connect( this_obj[i], other_obj[-1-i] )", 'R-C08-byname'),
    dict(name='ifc-o2-connect-not-tried', file=L3, old="      if not o1.connect( o2, s ): # o1.connect fail\n        if hasattr( o2, \"connect\" ):\n          if not o2.connect( o1, s ):\n            connect_by_name( o1, o2 )\n        else:\n          connect_by_name( o1, o2 )", new="      if not o1.connect( o2, s ): # o1.connect fail\n        connect_by_name( o1, o2 )", rule='R-C08-ifc-symmetric', count=1),
    dict(name='pending-flag-on-host', file=COMP, old="      top._dsl.all_adjacency[o2].add(o1)\n      top._dsl._has_pending_value_connections = True", new="      top._dsl.all_adjacency[o2].add(o1)\n      real_host._dsl._has_pending_value_connections = True", rule='R-C08-pending', count=1),
    dict(name='ancestors-top-only', file=L3, old="            obj = v.get_parent_object()\n            while obj.is_signal():\n              if obj not in writer_prop:\n                writer_prop[ obj ] = False\n              obj = obj.get_parent_object()", new="            obj = v.get_top_level_signal()\n            if obj is not v and obj not in writer_prop:\n              writer_prop[ obj ] = False", rule='R-C08-ancestors', count=1),
    # --- adjacency symmetry
    _m('sigsig-one-direction', L3, "      s._dsl.adjacency[o1].add( o2 )\n      s._dsl.adjacency[o2].add( o1 )\n\n      s._dsl.connect_order",
       "      s._dsl.adjacency[o1].add( o2 )\n\n      s._dsl.connect_order", 'R-C08-symmetric'),
    _m('sigconst-wrong-key', L3, "    s._dsl.adjacency[o2].add( o1 )\n\n    s._dsl.connect_order.append( (o1, o2) )\n\n  def _connect_signal_signal",
       "    s._dsl.adjacency[o2].add( o2 )\n\n    s._dsl.connect_order.append( (o1, o2) )\n\n  def _connect_signal_signal", 'R-C08'),
    _m('sigsig-second-direction-conditional', L3, "      s._dsl.adjacency[o2].add( o1 )\n\n      s._dsl.connect_order",
       "      if isinstance( o2, OutPort ): s._dsl.adjacency[o2].add( o1 )\n\n      s._dsl.connect_order", 'R-C08-symmetric'),
    _m('sigsig-dedup-inverted', L3, "    if o1 not in s._dsl.adjacency[o2]:\n      assert o2 not in s._dsl.adjacency[o1]",
       "    if o1 in s._dsl.adjacency[o2]:\n      assert o2 in s._dsl.adjacency[o1]", 'R-C08-symmetric'),
    _m('sigsig-swap-between', L3, "      s._dsl.adjacency[o1].add( o2 )\n      s._dsl.adjacency[o2].add( o1 )\n\n      s._dsl.connect_order",
       "      s._dsl.adjacency[o1].add( o2 )\n      o1, o2 = o2, o1\n      s._dsl.adjacency[o2].add( o1 )\n\n      s._dsl.connect_order", 'R-C08-symmetric'),
    _m('method-ports-one-direction', L5, "    s._dsl.adjacency[o1].add( o2 )\n    s._dsl.adjacency[o2].add( o1 )\n    s._dsl.connect_order",
       "    s._dsl.adjacency[o1].add( o2 )\n    s._dsl.connect_order", 'R-C08-symmetric'),
    _m('add-connection-one-direction', COMP, "      top._dsl.all_adjacency[o1].add(o2)\n      top._dsl.all_adjacency[o2].add(o1)",
       "      top._dsl.all_adjacency[o1].add(o2)", 'R-C08-symmetric'),
    _m('add-connection-wrong-map', COMP, "      top._dsl.all_adjacency[o2].add(o1)", "      top._dsl.adjacency[o2].add(o1)", 'R-C08-symmetric'),
    _m('add-connection-nets-stay-cached', COMP, "      top._dsl.all_adjacency[o2].add(o1)\n      top._dsl._has_pending_value_connections = True", "      top._dsl.all_adjacency[o2].add(o1)", 'R-C08-symmetric'),
    _m('collect-overwrites', L3, "        all_ajd[k] |= v", "        all_ajd[k] = v", 'R-C08-symmetric'),
    _m('collect-skips-known-keys', L3, "        all_ajd[k] |= v", "        if k not in all_ajd: all_ajd[k] |= v", 'R-C08-symmetric'),
    _m('collect-wrong-level', L3, "    if isinstance( m, ComponentLevel3 ):\n      all_ajd", "    if isinstance( m, ComponentLevel1 ):\n      all_ajd", 'R-C08-symmetric'),
    _m('add-connections-aliases-set', COMP, "      top._dsl.all_adjacency[x].update( adjs )", "      top._dsl.all_adjacency[x] = adjs", 'R-C08-symmetric'),
    _m('disconnect-one-direction', L3, "    s._dsl.all_adjacency[o2].remove( o1 )\n    s._dsl.all_adjacency[o1].remove( o2 )\n\n    for i, net",
       "    s._dsl.all_adjacency[o2].remove( o1 )\n\n    for i, net", 'R-C08-symmetric'),
    _m('dispatch-const-side', L3, "      if o2_connectable:\n        o1, o2 = o2, o1\n      assert isinstance( o1, Signal ), f\"Cannot connect {o1!r}",
       "      if o1_connectable:\n        o1, o2 = o2, o1\n      assert isinstance( o1, Signal ), f\"Cannot connect {o1!r}", 'R-C08-symmetric'),
    _m('dispatch5-no-swap', L5, "      if o2_connectable:\n        o1, o2 = o2, o1\n", "      if o2_connectable:\n        pass\n", 'R-C08-symmetric'),
    # --- Const node
    _m('const-parent-is-host', L3, "    o2._dsl.parent_obj = s\n", "    o2._dsl.parent_obj = host\n", 'R-C08-const'),
    dict(name='const-ctor-parent-signal', rule='R-C08-const', edits=[
        dict(file=L3, old="      o2 = Const( Type, o2, s )\n    elif is_bitstruct_inst", new="      o2 = Const( Type, o2, o1 )\n    elif is_bitstruct_inst"),
        dict(file=L3, old="    o2._dsl.parent_obj = s\n", new="")]),
    _m('const-int-not-wrapped', L3, "      o2 = Const( Type, Type(o2), s )", "      o2 = Type(o2)", 'R-C08-const'),
    _m('const-not-registered', L3, "    s._dsl.consts.add( o2 )\n", "    pass\n", 'R-C08-const'),
    _m('const-struct-raw-value', L3, "      o2 = Const( Type, o2, s )\n    else:", "      o2 = Const( Type2, Type2, s )\n    else:", 'R-C08-const'),
    _m('const-shared-per-value', L3, "      o2 = Const( Type, Type(o2), s )", "      o2 = s._dsl.__dict__.setdefault( ('c', Type, o2), Const( Type, Type(o2), s ) )", 'R-C08-const'),
    # --- canonical slice / field nodes
    _m('nodes-nested-offset', CONN, "      start += outer_start\n      stop  += outer_start", "      start += outer_start\n      stop  += outer_stop", 'R-C08-nodes'),
    _m('nodes-nested-registered-at-slice', CONN, "      top_signal = s._dsl.parent_obj\n", "      top_signal = s\n", 'R-C08-nodes'),
    _m('nodes-nested-parent-is-slice', CONN, "      xd.parent_obj = top_signal\n", "      xd.parent_obj = s\n", 'R-C08-nodes'),
    _m('nodes-slice-not-registered', CONN, "      top_signal.__dict__[ sl_tuple ] = sd.slices[ sl_tuple ] = x", "      top_signal.__dict__[ sl_tuple ] = x", 'R-C08-nodes'),
    _m('nodes-slice-not-cached', CONN, "    if sl_tuple not in top_signal.__dict__:", "    if True:", 'R-C08-nodes'),
    _m('nodes-slice-own-top', CONN, "      xd.top_level_signal = sd.top_level_signal\n      xd.elaborate_top    = sd.elaborate_top", "      xd.elaborate_top    = sd.elaborate_top", 'R-C08-nodes'),
    _m('nodes-slice-relative-bits', CONN, "      xd.slice       = slice( start, stop )", "      xd.slice       = slice( idx.start, idx.stop ) if isinstance( idx, slice ) else slice( idx, idx+1 )", 'R-C08-nodes'),
    _m('nodes-field-parent-is-top', CONN, "          xd.parent_obj = s\n", "          xd.parent_obj = sd.top_level_signal\n", 'R-C08-nodes'),
    _m('nodes-field-not-cached', CONN, "    if name not in s.__dict__:\n      # Shunning", "    if True:\n      # Shunning", 'R-C08-nodes'),
    _m('nodes-field-own-top', CONN, "          xd.top_level_signal = sd.top_level_signal\n          xd.elaborate_top = sd.elaborate_top", "          xd.elaborate_top = sd.elaborate_top", 'R-C08-nodes'),
    # --- flood fill
    _m('flood-drops-pairs', L3, "        if len(net) == 1:\n          continue", "        if len(net) <= 2:\n          continue", 'R-C08-flood'),
    _m('flood-drops-small-nets', L3, "        if len(net) == 1:\n          continue", "        if len(net) < 8:\n          continue", 'R-C08-flood'),
    _m('flood-keeps-singletons', L3, "        if len(net) == 1:\n          continue", "        if len(net) == 0:\n          continue", 'R-C08-flood'),
    _m('flood-popped-not-added', L3, "          net.add( u )", "          net.add( obj )", 'R-C08-flood'),
    _m('flood-restarts-visited', L3, "      if obj in adjacency and obj not in visited:", "      if obj in adjacency:", 'R-C08-flood'),
    _m('flood-never-marks', L3, "          visited.add( u )\n", "", 'R-C08-flood'),
    _m('flood-neighbours-of-start', L3, "          for v in adjacency[u]:", "          for v in adjacency[obj]:", 'R-C08-flood'),
    _m('flood-visited-per-start', L3, "    visited = set()\n    pred    = {} # detect cycle that has >=3 nodes\n    for obj in signal_list:",
       "    pred    = {} # detect cycle that has >=3 nodes\n    for obj in signal_list:\n      visited = set()", 'R-C08-flood'),
    _m('flood-push-only-ports', L3, "            if v not in visited:\n              pred[v] = u", "            if v not in visited and v.is_signal():\n              pred[v] = u", 'R-C08-flood'),
    _m('flood-early-return', L3, "        nets.append( net )\n    return nets", "        nets.append( net )\n        return nets\n    return nets", 'R-C08-flood'),
    _m('flood-skips-first', L3, "    for obj in signal_list:\n      # If obj has adjacent signals", "    for obj in list(signal_list)[1:]:\n      # If obj has adjacent signals", 'R-C08-flood'),
    # --- seeds
    _m('seed-written-unpropagatable', L3, "        writer_prop[ obj ] = True # propagatable", "        writer_prop[ obj ] = False # propagatable", 'R-C08-seed'),
    _m('seed-ancestors-propagatable', L3, "        while obj.is_signal():\n          writer_prop[ obj ] = False\n          obj = obj.get_parent_object()\n\n    # Find the host",
       "        while obj.is_signal():\n          writer_prop[ obj ] = True\n          obj = obj.get_parent_object()\n\n    # Find the host", 'R-C08-seed'),
    _m('seed-only-parent', L3, "        while obj.is_signal():\n          writer_prop[ obj ] = False\n          obj = obj.get_parent_object()\n\n    # Find the host",
       "        if obj.is_signal():\n          writer_prop[ obj ] = False\n          obj = obj.get_parent_object()\n\n    # Find the host", 'R-C08-seed'),
    _m('seed-any-inport', L3, "if ( isinstance( member, InPort ) and host == s ) or", "if ( isinstance( member, InPort ) ) or", 'R-C08-seed'),
    _m('seed-top-outport', L3, "if ( isinstance( member, InPort ) and host == s ) or", "if ( isinstance( member, OutPort ) and host == s ) or", 'R-C08-seed'),
    _m('seed-no-placeholder', L3, "           ( isinstance( member, OutPort ) and isinstance( host, Placeholder ) ):", "           False:", 'R-C08-seed'),
    _m('seed-placeholder-any-port', L3, "           ( isinstance( member, OutPort ) and isinstance( host, Placeholder ) ):", "           ( isinstance( host, Placeholder ) ):", 'R-C08-seed'),
    _m('driver-const-forgotten', L3, "            if v in writer_prop or isinstance( v, Const ):", "            if v in writer_prop:", 'R-C08'),
    _m('driver-unpropagatable-ancestor', L3, "                if obj in writer_prop and writer_prop[ obj ]:\n                  assert not has_writer\n                  has_writer, writer = True, v\n                  break\n                obj",
       "                if obj in writer_prop:\n                  assert not has_writer\n                  has_writer, writer = True, v\n                  break\n                obj", 'R-C08'),
    _m('driver-only-parent', L3, "              while obj.is_signal():\n                if obj in writer_prop and writer_prop[ obj ]:", "              if obj.is_signal():\n                if obj in writer_prop and writer_prop[ obj ]:", 'R-C08'),
    _m('driver-sibling-no-overlap-test', L3, "                if obj.slice_overlap( v ):\n                  if obj in writer_prop", "                if True:\n                  if obj in writer_prop", 'R-C08'),
    _m('driver-sibling-unpropagatable', L3, "                  if obj in writer_prop and writer_prop[ obj ]:\n                    assert", "                  if obj in writer_prop:\n                    assert", 'R-C08'),
    _m('driver-sibling-forgotten', L3, "              for obj in v.get_sibling_slices():", "              for obj in []:", 'R-C08'),
    _m('sibling-slices-keeps-self', CONN, "      ret.remove( s )\n", "", 'R-C08-seed'),
    _m('sibling-slices-first-only', CONN, "      ret = list(parent._dsl.slices.values())", "      ret = list(parent._dsl.slices.values())[:2]", 'R-C08-seed'),
    _m('seed-local-write-sets', L3, "    for blk, writes in s._dsl.all_upblk_writes.items():\n      for obj in writes:\n        writer_prop",
       "    for blk, writes in s._dsl.upblk_writes.items():\n      for obj in writes:\n        writer_prop", 'R-C08-seed'),
    _m('seed-floodfill-local-adjacency', L3, "    nets = s._floodfill_nets( s._dsl.all_signals, s._dsl.all_adjacency )\n\n    # Then figure out writers",
       "    nets = s._floodfill_nets( s._dsl.all_signals, s._dsl.adjacency )\n\n    # Then figure out writers", 'R-C08-seed'),
    _m('seed-first-net-only', L3, "    for net in nets:\n      for member in net:\n        host", "    for net in nets[:1]:\n      for member in net:\n        host", 'R-C08-seed'),
    # --- uniqueness
    _m('unique-assert-dropped-ancestor', L3, "                  assert not has_writer\n                  has_writer, writer = True, v\n                  break\n                obj",
       "                  has_writer, writer = True, v\n                  break\n                obj", 'R-C08-unique'),
    _m('unique-assert-dropped-self', L3, "              assert not has_writer\n              has_writer, writer = True, v\n\n            else:", "              has_writer, writer = True, v\n\n            else:", 'R-C08-unique'),
    _m('unique-assert-dropped-sibling', L3, "                    assert not has_writer\n                    has_writer, writer = True, v\n                    # Shunning", "                    has_writer, writer = True, v\n                    # Shunning", 'R-C08-unique'),
    _m('unique-handler-other-error', L3, "          except AssertionError:\n            raise MultiWriterError", "          except KeyError:\n            raise MultiWriterError", 'R-C08-unique'),
    _m('unique-writer-is-ancestor', L3, "                  has_writer, writer = True, v\n                  break\n                obj", "                  has_writer, writer = True, obj\n                  break\n                obj", 'R-C08-unique'),
    _m('unique-ancestor-no-break', L3, "                  has_writer, writer = True, v\n                  break\n                obj", "                  has_writer, writer = True, v\n                obj", 'R-C08'),
    _m('unique-flag-reset-per-member', L3, "        for v in net:\n          obj = None\n          try:", "        for v in net:\n          obj = None\n          has_writer = False\n          try:", 'R-C08-unique'),
    _m('unique-stop-at-first-writer', L3, "              assert not has_writer\n              has_writer, writer = True, v\n\n            else:", "              assert not has_writer\n              has_writer, writer = True, v\n              break\n\n            else:", 'R-C08-unique'),
    _m('unique-headed-per-member', L3, "              if obj not in writer_prop:\n                writer_prop[ obj ] = False\n              obj = obj.get_parent_object()\n\n        headed.append( (writer, net) )",
       "              if obj not in writer_prop:\n                writer_prop[ obj ] = False\n              obj = obj.get_parent_object()\n\n          headed.append( (writer, net) )", 'R-C08-unique'),
    _m('unique-headless-dropped', L3, "    return headed + [ (None, x) for x in headless ]", "    return headed", 'R-C08-unique'),
    _m('unique-headless-self-writer', L3, "    return headed + [ (None, x) for x in headless ]", "    return headed + [ (x, x) for x in headless ]", 'R-C08'),
    _m('unique-tuple-order', L3, "        headed.append( (writer, net) )", "        headed.append( (net, writer) )", 'R-C08-unique'),
    # --- propagation
    _m('prop-reader-unpropagatable', L3, "            writer_prop[ v ] = True # The reader becomes new writer", "            writer_prop[ v ] = False # The reader becomes new writer", 'R-C08-propagate'),
    _m('prop-reader-not-marked', L3, "            writer_prop[ v ] = True # The reader becomes new writer", "            pass", 'R-C08-propagate'),
    _m('prop-ancestor-overwrite', L3, "              if obj not in writer_prop:\n                writer_prop[ obj ] = False\n              obj", "              writer_prop[ obj ] = False\n              obj", 'R-C08-propagate'),
    _m('prop-ancestor-propagatable', L3, "              if obj not in writer_prop:\n                writer_prop[ obj ] = False\n              obj", "              if obj not in writer_prop:\n                writer_prop[ obj ] = True\n              obj", 'R-C08-propagate'),
    _m('prop-headless-break', L3, "          new_headless.append( net )\n          continue", "          new_headless.append( net )\n          break", 'R-C08'),
    _m('prop-headless-not-carried', L3, "          new_headless.append( net )\n          continue", "          continue", 'R-C08'),
    _m('prop-single-round', L3, "      if wcount == len(writer_prop): # no more new writers\n        break\n      headless = new_headless", "      headless = new_headless\n      break", 'R-C08-propagate'),
    # --- residence
    _m('gen-const-predicate-dropped', GENDAG, "      if isinstance( writer, Const ) or writer.is_top_level_signal():\n        for x in all_readers:",
       "      if writer.is_top_level_signal():\n        for x in all_readers:", 'R-C08-residence'),
    _m('gen-filter-inverted', GENDAG, "          if not x.is_top_level_signal():\n            readers.append( x )\n      else:", "          if x.is_top_level_signal():\n            readers.append( x )\n      else:", 'R-C08-residence'),
    _m('gen-delegate-not-assigned', GENDAG, "              residence = x\n              readers.append( x )", "              residence = x", 'R-C08-residence'),
    _m('gen-subsignals-after-delegate-only', GENDAG, "            # skip other top signals\n          else:\n            readers.append( x )", "            # skip other top signals\n          elif residence is not None:\n            readers.append( x )", 'R-C08-residence'),
    _m('gen-skips-pairs', GENDAG, "      if len(signals) == 1:\n        continue", "      if len(signals) <= 2:\n        continue", 'R-C08-residence'),
    _m('gen-readers-reset', GENDAG, "      fanout = len(readers)\n", "      readers = readers[:1]\n      fanout = len(readers)\n", 'R-C08-residence'),
    _m('lock-first-pass-flag-crossed', PREP, "              signal_object_mapping[ obj ] = (current_obj, i, True, value)", "              signal_object_mapping[ obj ] = (current_obj, i, False, value)", 'R-C08-residence'),
    _m('gen-break-on-single', GENDAG, "      if len(signals) == 1:\n        continue", "      if len(signals) == 1:\n        break", 'R-C08-residence'),
    _m('gen-template-filter', GENDAG, "'\\n  '.join([ f\"{rstr} @= x\" for rstr in rstrs ])", "'\\n  '.join([ f\"{rstr} @= x\" for rstr in rstrs[1:] ])", 'R-C08-residence'),
    _m('lock-residence-is-subsignal', PREP, "            if x.is_top_level_signal():\n              residence = x\n              break", "            if not x.is_top_level_signal():\n              residence = x\n              break", 'R-C08-residence'),
    _m('lock-swap-keeps-old-value', PREP, "              setattr( current_obj, i, residence_value )", "              setattr( current_obj, i, value )", 'R-C08-residence'),
    _m('lock-list-branch-crossed', PREP, "            if is_list:\n              current_obj[i] = residence_value", "            if not is_list:\n              current_obj[i] = residence_value", 'R-C08-residence'),
    _m('lock-const-method-call', PREP, "          if x is not residence and x.is_top_level_signal():", "          if x.is_top_level_signal() and x is not residence:", 'R-C08-residence'),
    _m('lock-all-slice-net-breaks', PREP, "        if residence is None:\n          continue # whole net is slice", "        if residence is None:\n          break # whole net is slice", 'R-C08-residence'),
    _m('lock-mapping-not-updated', PREP, "            signal_object_mapping[ x ] = (current_obj, i, is_list, residence_value)", "            pass", 'R-C08-residence'),
    _m('lock-const-value-object', PREP, "          residence_value = residence._dsl.const", "          residence_value = residence", 'R-C08-residence'),
    # --- generated net block
    _m('netblk-mindep-max', GENDAG, "      mindep  = min( wr_lca.get_component_level(),", "      mindep  = max( wr_lca.get_component_level(),", 'R-C08-netblock'),
    _m('netblk-succeed-inverted', GENDAG, "        if succeed: break\n", "        if not succeed: break\n", 'R-C08-netblock'),
    _m('netblk-first-reader-only-compared', GENDAG, "        for x in rd_lcas:\n          if x is not wr_lca:\n            succeed = False\n            break", "        for x in rd_lcas[:1]:\n          if x is not wr_lca:\n            succeed = False\n            break", 'R-C08-netblock'),
    _m('netblk-globals-top', GENDAG, "      _globals = {'s': wr_lca }", "      _globals = {'s': top }", 'R-C08-netblock'),
    _m('netblk-writer-name-offset', GENDAG, "        wstr = f\"s.{repr(writer)[lca_len+1:]}\"", "        wstr = f\"s.{repr(writer)[lca_len:]}\"", 'R-C08-netblock'),
    _m('netblk-writer-from-top', GENDAG, "        wstr = f\"s.{repr(writer)[lca_len+1:]}\"", "        wstr = f\"s.{repr(writer)[2:]}\"", 'R-C08-netblock'),
    _m('netblk-reads-first-reader', GENDAG, "def {}():\n  x = {}\n  {}\"\"\".format( genblk_name, wstr,", "def {}():\n  x = {}\n  {}\"\"\".format( genblk_name, rstrs[0],", 'R-C08-netblock'),
    _m('dispatch-flags-crossed', L3, "  host._connect_dispatch( o1, o2, o1_connectable, o2_connectable )", "  host._connect_dispatch( o1, o2, o2_connectable, o1_connectable )", 'R-C08-symmetric'),
    _m('ifloordiv-operands-crossed', CONN, "      host._connect_dispatch( s, other, s_connectable, o_connectable )", "      host._connect_dispatch( other, s, s_connectable, o_connectable )", 'R-C08-symmetric'),
    # --- overlap
    _m('overlap-off-by-one', CONN, "      if x.start <= y.start:  return y.start < x.stop", "      if x.start <= y.start:  return y.start <= x.stop", 'R-overlap'),
]

EQUIV = [
    _m('eq-ancestor-mark-via-setdefault', L3, "              if obj not in writer_prop:\n                writer_prop[ obj ] = False\n", "              writer_prop.setdefault( obj, False )\n"),
    _m('eq-gen-rendered-lines-in-helper-local', GENDAG, '      gen_src = """\ndef {}():\n  x = {}\n  {}""".format( genblk_name, wstr, \'\\n  \'.join([ f"{rstr} @= x" for rstr in rstrs ]) )\n', '      assign_srcs = [ f"{rstr} @= x" for rstr in rstrs ]\n\n      gen_src = """\ndef {}():\n  x = {}\n  {}""".format( genblk_name, wstr, \'\\n  \'.join( assign_srcs ) )\n'),
    _m('eq-byname-zip', L3, "          for i in range(len(this_obj)):\n            # TODO add error message if other_obj is not a list\n            recursive_connect( this_obj[i], other_obj[i] )",
       "          assert len(this_obj) == len(other_obj)\n          for this_elem, other_elem in zip( this_obj, other_obj ):\n            recursive_connect( this_elem, other_elem )"),
    _m('eq-sigsig-directions-swapped', L3, "      s._dsl.adjacency[o1].add( o2 )\n      s._dsl.adjacency[o2].add( o1 )\n\n      s._dsl.connect_order",
       "      s._dsl.adjacency[o2].add( o1 )\n      s._dsl.adjacency[o1].add( o2 )\n\n      s._dsl.connect_order"),
    _m('eq-sigsig-alias', L3, "    if o1 not in s._dsl.adjacency[o2]:\n      assert o2 not in s._dsl.adjacency[o1]\n      s._dsl.adjacency[o1].add( o2 )\n      s._dsl.adjacency[o2].add( o1 )",
       "    adj = s._dsl.adjacency\n    if o1 not in adj[o2]:\n      assert o2 not in adj[o1]\n      adj[o1].add( o2 )\n      s._dsl.adjacency[o2].add( o1 )"),
    _m('eq-sigsig-neighbour-set-local', L3, "      s._dsl.adjacency[o1].add( o2 )\n      s._dsl.adjacency[o2].add( o1 )\n\n      s._dsl.connect_order",
       "      nb1 = s._dsl.adjacency[o1]\n      nb2 = s._dsl.adjacency[o2]\n      nb1.add( o2 )\n      nb2.add( o1 )\n\n      s._dsl.connect_order"),
    _m('eq-collect-update', L3, "        all_ajd[k] |= v", "        all_ajd[k].update( v )"),
    _m('eq-const-parent-by-ctor-only', L3, "    o2._dsl.parent_obj = s\n", ""),
    _m('eq-const-dead-host-code-removed', L3, "    host = o1.get_host_component()\n\n    if isinstance( o1, InPort ):\n      # connecting constant to inport should be at the parent level\n      host = host.get_parent_object()\n\n", ""),
    _m('eq-nodes-index-as-slice', CONN, "      start, stop = idx, idx + 1", "      stop = idx + 1\n      start = stop - 1"),
    _m('eq-nodes-field-lines-swapped', CONN, "          xd.parent_obj = s\n          xd.top_level_signal = sd.top_level_signal", "          xd.top_level_signal = sd.top_level_signal\n          xd.parent_obj = s"),
    _m('eq-flood-fifo', L3, "          u = Q.pop()", "          u = Q.pop(0)"),
    _m('eq-flood-keep-if', L3, "        if len(net) == 1:\n          continue\n        nets.append( net )", "        if len(net) > 1:\n          nets.append( net )"),
    _m('eq-flood-start-cond-order', L3, "      if obj in adjacency and obj not in visited:", "      if obj not in visited and obj in adjacency:"),
    _m('eq-flood-push-negated', L3, "            if v not in visited:\n              pred[v] = u", "            if not (v in visited):\n              pred[v] = u"),
    dict(name='eq-flood-mark-at-push', edits=[
        dict(file=L3, old="        Q   = [ obj ]\n", new="        Q   = [ obj ]\n        visited.add( obj )\n"),
        dict(file=L3, old="          visited.add( u )\n", new=""),
        dict(file=L3, old="              pred[v] = u\n              Q.append( v )", new="              pred[v] = u\n              visited.add( v )\n              Q.append( v )")]),
    _m('eq-flood-while-len', L3, "        while Q:\n          u = Q.pop()", "        while len(Q) > 0:\n          u = Q.pop()"),
    _m('eq-sigsig-self-connection-ignored', L3, "    if o1 not in s._dsl.adjacency[o2]:\n      assert o2 not in", "    if o1 is o2:\n      return\n    if o1 not in s._dsl.adjacency[o2]:\n      assert o2 not in"),
    _m('eq-seed-host-identity', L3, "if ( isinstance( member, InPort ) and host == s ) or", "if ( isinstance( member, InPort ) and host is s ) or"),
    _m('eq-seed-conjuncts-swapped', L3, "if ( isinstance( member, InPort ) and host == s ) or", "if ( host == s and isinstance( member, InPort ) ) or"),
    _m('eq-driver-disjuncts-swapped', L3, "            if v in writer_prop or isinstance( v, Const ):", "            if isinstance( v, Const ) or v in writer_prop:"),
    _m('eq-unique-explicit-raise', L3, "                    assert not has_writer\n                    has_writer, writer = True, v\n                    # Shunning",
       "                    if has_writer: raise MultiWriterError( \"two writers\" )\n                    has_writer, writer = True, v\n                    # Shunning"),
    _m('eq-unique-separate-assignments', L3, "              assert not has_writer\n              has_writer, writer = True, v\n\n            else:", "              assert not has_writer\n              has_writer = True\n              writer = v\n\n            else:"),
    _m('eq-prop-writer-test-identity', L3, "          if v != writer:\n            writer_prop[ v ] = True", "          if v is not writer:\n            writer_prop[ v ] = True"),
    _m('eq-prop-update-before-test', L3, "      if wcount == len(writer_prop): # no more new writers\n        break\n      headless = new_headless", "      headless = new_headless\n      if wcount == len(writer_prop): # no more new writers\n        break"),
    _m('eq-lock-no-break', PREP, "              residence = x\n              break", "              residence = x"),
    _m('eq-lock-writer-via-loop', PREP, "        if isinstance( writer, Const ) or writer.is_top_level_signal():\n          residence = writer", "        if isinstance( writer, Const ):\n          residence = writer"),
    _m('eq-gen-every-top-member-assigned', GENDAG, "            if residence is None:\n              residence = x\n              readers.append( x )", "            if True:\n              residence = x\n              readers.append( x )"),
    _m('eq-gen-skip-form', GENDAG, "          if not x.is_top_level_signal():\n            readers.append( x )\n      else:", "          if x.is_top_level_signal(): continue\n          readers.append( x )\n      else:"),
    _m('eq-gen-top-writer-via-delegate-branch', GENDAG, "      if isinstance( writer, Const ) or writer.is_top_level_signal():\n        for x in all_readers:", "      if isinstance( writer, Const ):\n        for x in all_readers:"),
    _m('eq-lock-skips-writer', PREP, "          if x is not residence and x.is_top_level_signal():", "          if x is not residence and x is not writer and x.is_top_level_signal():"),
    _m('eq-netblk-all-readers-rendered', GENDAG, "      rstrs   = [ f\"s.{repr(x)[lca_len+1:]}\" for x in readers ]", "      rstrs   = [ f\"s.{repr(x)[lca_len+1:]}\" for x in readers ]\n      assert len(rstrs) == fanout"),
    _m('eq-netblk-lca-compare', GENDAG, "      while wr_lca is not top:\n        succeed = True", "      while not (wr_lca is top):\n        succeed = True"),
    _m('eq-netblk-lca-all', GENDAG, "        succeed = True\n        for x in rd_lcas:\n          if x is not wr_lca:\n            succeed = False\n            break\n        if succeed: break",
       "        succeed = not [ x for x in rd_lcas if x is not wr_lca ]\n        if succeed: break"),
    _m('eq-netblk-higher-common-ancestor', GENDAG, "        for i in range( fanout ):\n          rd_lcas[i] = rd_lcas[i].get_parent_object()", "        for i in range( fanout ):\n          pass"),
    _m('eq-sibling-slices-comprehension', CONN, "      ret = list(parent._dsl.slices.values())\n      ret.remove( s )\n      return ret", "      return [ x for x in parent._dsl.slices.values() if x is not s ]"),
]

LEVEL_TEXT = ("Static analysis of the connection machinery: structural pairing/dominance rules for the adjacency maps and the "
              "flood fill, and abstract evaluation of the extracted writer-resolution, Const-creation, slice/field-node, "
              "residence and net-block-naming blocks over exhaustively enumerated abstract objects (member kinds, marks of "
              "ancestors and overlapping siblings, top-level-ness, host placement). It decides, for every design at the level "
              "of code shape, that the connection graph is symmetric with canonical nodes, that nets are its components, that "
              "each net gets exactly the legal unique writer or an error, and that simulation makes every member carry the "
              "writer's value; it does not execute pymtl3 and does not decide order-independence of the iterative propagation "
              "across three or more dependent nets.")
LEVEL_NOTE = ("Trusted: Python set/dict semantics; uniformity of the evaluated loops beyond the enumerated attributes (count-"
              "dependent literals and questions outside the abstract domain are refused with ANALYSIS-ERROR); asserts enabled; "
              "write sets from C02. Not covered: interface/method nets, port-direction legality (C09), scheduling (C02). "
              "Observation: Component.add_connection silently ignores a constant operand.")
TECHNIQUE = ("ast path rules (mirror pairing, guard truth tables, dominance) + finite abstract evaluation of extracted blocks "
             "over enumerated abstract objects, sibling agreement of lock_in_simulation vs _generate_net_blocks, order-type "
             "evaluation of the overlap predicate")
